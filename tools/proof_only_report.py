#!/usr/bin/env python3
"""for every seeded change: does the PROOF side alone (VERIF_NO_WITNESS=1: no bounded witness consulted) report a failed obligation?
   -> seeded/proof_only.json   usage: proof_only_report.py [seed ...]   (no arguments: all seeds, 6 at a time)"""
import glob, json, os, re, subprocess, sys, concurrent.futures
VERIF = os.path.dirname(os.path.dirname(os.path.abspath(__file__)))
out = os.path.join(VERIF, "seeded", "proof_only.json")
res = json.load(open(out)) if os.path.exists(out) else {}
only = sys.argv[1:]


def run(sid):
    pid = sid[:3]
    r = subprocess.run([os.path.join(VERIF, "tools", "mutest.sh"), os.path.join(VERIF, "seeded", sid, "patch.diff"), pid],
                       capture_output=True, text=True, env=dict(os.environ, VERIF_NO_WITNESS="1"))
    m = re.search(r"== %s rc=(\d+)" % pid, r.stdout)
    obl = re.findall(r"replay/%s-([\w.+\-]+?)\.json" % pid, r.stdout)
    return dict(rc=int(m.group(1)) if m else None, obligations=obl[:4])


jobs = [os.path.basename(d) for d in sorted(glob.glob(os.path.join(VERIF, "seeded", "C*"))) if not only or os.path.basename(d) in only]
with concurrent.futures.ThreadPoolExecutor(6) as ex:
    futs = {ex.submit(run, s): s for s in jobs}
    for f in concurrent.futures.as_completed(futs):
        res[futs[f]] = f.result()
        print(futs[f], res[futs[f]], flush=True)
        json.dump(res, open(out, "w"), indent=1, sort_keys=True)
n1 = sum(1 for v in res.values() if v["rc"] == 1)
print("proof side alone: %d of %d seeds reported as a failed obligation; rc=0 (not noticed): %s; rc=2 (undecided): %s" % (
    n1, len(res), sorted(k for k, v in res.items() if v["rc"] == 0), sorted(k for k, v in res.items() if v["rc"] == 2)))
