#!/usr/bin/env python3
"""contracts/coverage_baseline.json: per property, per source file, a fingerprint of the text the property's proofs do NOT see
(tools/check.py uncovered_fingerprint) ON THE PINNED TREE (/repo as committed). check.py consults the bounded witnesses in the
quick tier when the tree under test differs from this baseline. Regenerate after changing a unit or committing a fix to /repo:
    python3 tools/mkcoverbaseline.py"""
import json, os, sys, concurrent.futures
sys.path.insert(0, os.path.dirname(os.path.abspath(__file__)))
sys.path.insert(0, os.path.join(os.path.dirname(os.path.dirname(os.path.abspath(__file__))), "contracts"))
os.environ["VERIF_REPO"] = "/repo"
import check, registry as reg
from vxlib import Repo, Unit
out = {}
units = {}
for un, info in sorted(reg.UNITS.items()):
    if info["engine"] == "verus":
        mod, u, text, path = check.build_unit(un, False, Repo("/repo"))
        units[un] = dict(unit_obj=u)
    else:
        import engines
        units[un] = dict(covered_files=engines.covered_files(un, info))
check.publish_rundir()
for pid, pinfo in sorted(reg.PROPERTIES.items()):
    out[pid] = check.uncovered_fingerprint("/repo", [units[u] for u in pinfo["units"]])
json.dump(out, open(os.path.join(check.VERIF, "contracts", "coverage_baseline.json"), "w"), indent=0, sort_keys=True)
print({k: len(v) for k, v in out.items()})
