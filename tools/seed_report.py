#!/usr/bin/env python3
"""run every seeded change (seeded/<id>/patch.diff) and every mutation patch (mutations/<Cxx>/*.patch) against the checks of its
property on a scratch copy; write seeded/<id>/result.json and print a table (used for DESIGN.md section 8.6)"""
import glob, json, os, re, subprocess, sys, concurrent.futures
VERIF = os.path.dirname(os.path.dirname(os.path.abspath(__file__)))

def run(patch, pid):
    pr = subprocess.run([os.path.join(VERIF, "tools", "mutest.sh"), patch, pid], capture_output=True, text=True)
    out = pr.stdout
    m = re.search(r"rc=(\d+)", out)
    rc = int(m.group(1)) if m else -1
    labels = re.findall(r"replay=\S+/%s-(\S+?)\.json( no-failing-input-found)?" % pid, out)
    return dict(rc=rc, verdict={0: "OK (not detected)", 1: "VIOLATION", 2: "UNDECIDED"}.get(rc, "?"), obligations=[l[0] for l in labels],
                witness_found=any(not l[1] for l in labels), undecided=[l[:200] for l in out.splitlines() if l.startswith("UNDECIDED")][:3])

def main():
    only = sys.argv[1:]
    jobs = []
    for d in sorted(glob.glob(os.path.join(VERIF, "seeded", "*"))):
        sid = os.path.basename(d)
        pid = sid[:3]
        if only and sid not in only and pid not in only:
            continue
        p = os.path.join(d, "patch.diff")
        if os.path.exists(p):
            jobs.append((sid, pid, p, d))
    with concurrent.futures.ThreadPoolExecutor(4) as ex:
        futs = {ex.submit(run, p, pid): (sid, pid, p, d) for (sid, pid, p, d) in jobs}
        rows = []
        for f in concurrent.futures.as_completed(futs):
            sid, pid, p, d = futs[f]
            r = f.result()
            json.dump(dict(seed=sid, property=pid, command="tools/mutest.sh seeded/%s/patch.diff %s" % (sid, pid), **r), open(os.path.join(d, "result.json"), "w"), indent=1)
            rows.append((sid, r))
    for sid, r in sorted(rows):
        print("%-6s %-18s %s%s" % (sid, r["verdict"], ", ".join(r["obligations"][:3]), " [replayed failing input]" if r["witness_found"] else ""))

if __name__ == "__main__":
    main()
