#!/bin/bash
# dev/self-test aid: mutest.sh <patch-file> <property>...   applies the patch to a scratch copy of /repo
# (never /repo itself), runs the checks against it with outputs redirected, prints the verdicts.
set -u
PATCH=$(readlink -f "$1"); shift
S=${VERIF_SCRATCH:-/var/tmp}/vmut.$$
mkdir -p $S/repo $S/out
rsync -a --exclude target --exclude .git /repo/ $S/repo/
( cd $S/repo && patch -p1 -s < "$PATCH" ) || { echo "patch failed"; rm -rf $S; exit 3; }
for P in "$@"; do
  VERIF_REPO=$S/repo VERIF_OUT=$S/out /verif/check $P > $S/out/$P.log 2>&1; rc=$?
  echo "== $P rc=$rc"; grep -E "VIOLATION|KNOWN|UNDECIDED|^OK" $S/out/$P.log | sed "s#$S#<scratch>#g"
done
rm -rf $S
