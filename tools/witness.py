"""Witness generators: bounded, executable companions of the proofs (DESIGN 2.4 step 4).

A witness module is a Rust test module (/verif/witness/<id>*.rs) that is compiled INTO the real crate of a scratch copy
of the tree under test and drives the real functions over a deterministic enumeration of the corner cases the
property distinguishes, comparing with an oracle written from the property statement. It prints
    VXW-FAIL {json}      for every case where the real code contradicts the oracle
    VXW-DONE <n>         number of cases executed
They are used (a) to replay a failed proof obligation against the real code (the replay file then carries a failing
input), (b) as a bounded stand-in when the proof machinery is UNDECIDED on an edited tree (lost anchor, restructured
code): a concrete failing input is a violation whatever the state of the proof, (c) in the thorough tier, always.
They are never counted as proof obligations.
"""
import json
import os
import re
import shutil
import subprocess
import time

HERE = os.path.dirname(os.path.abspath(__file__))
VERIF = os.path.dirname(HERE)
WDIR = os.path.join(VERIF, "witness")

AGENT = dict(crate_dir="proxy_agent", package="azure-proxy-agent", target=["--bin", "azure-proxy-agent"], filter="console")
SHARED = dict(crate_dir="proxy_agent_shared", package="proxy_agent_shared", target=["--lib"], filter="vxw_")
EXT = dict(crate_dir="proxy_agent_extension", package="ProxyAgentExt", target=["--bin", "ProxyAgentExt"], filter="vxw_")
SETUP = dict(crate_dir="proxy_agent_setup", package="proxy_agent_setup", target=["--bin", "proxy_agent_setup"], filter="vxw_")


def load_specs():
    """witness/<name>.json next to witness/<name>.rs:
       {"property": "C03", "crate": "AGENT", "inject_into": "src/proxy/proxy_authorizer.rs", "module": "vx_witness_c03",
        "bound": "...", "labels": ["C03."]}"""
    specs = []
    if not os.path.isdir(WDIR):
        return specs
    for f in sorted(os.listdir(WDIR)):
        if f.endswith(".json"):
            d = json.load(open(os.path.join(WDIR, f)))
            d["rs"] = os.path.join(WDIR, f[:-5] + ".rs")
            d["name"] = f[:-5]
            d.update({k: v for k, v in dict(AGENT=AGENT, SHARED=SHARED, EXT=EXT, SETUP=SETUP)[d["crate"]].items() if k not in d})
            specs.append(d)
    return specs


def run_spec(spec, repo_root=None, timeout=1500):
    repo_root = repo_root or os.environ.get("VERIF_REPO", "/repo")
    scratch_base = os.environ.get("VERIF_SCRATCH", "/var/tmp")
    # fixed scratch path per witness (cargo fingerprints contain absolute paths: keeps rebuilds incremental); serialised by a lock
    sc = os.path.join(scratch_base, "vxw.%s" % spec["name"])
    import fcntl
    lock = open(sc + ".lock", "w")
    fcntl.flock(lock, fcntl.LOCK_EX)
    t0 = time.time()
    out = dict(name=spec["name"], property=spec["property"], bound=spec.get("bound", ""), fails=[], cases=0, error=None, cmd=None, wall_s=0)
    try:
        if os.path.exists(sc):
            shutil.rmtree(sc)
        os.makedirs(sc)
        subprocess.run(["rsync", "-a", "--exclude", "target", "--exclude", ".git", repo_root + "/", sc + "/repo/"], check=True)
        tgt = os.path.join(sc, "repo", spec["crate_dir"], spec["inject_into"])
        if not os.path.exists(tgt):
            out["error"] = "file to inject into is missing: %s" % spec["inject_into"]
            return out
        with open(tgt, "a") as fh:
            fh.write("\n#[cfg(test)]\n#[path = \"%s\"]\nmod %s;\n" % (spec["rs"], spec["module"]))
        # optional helper modules appended to other files (private items of two files needed by one harness)
        for extra in spec.get("also_inject", []):
            et = os.path.join(sc, "repo", spec["crate_dir"], extra["inject_into"])
            if not os.path.exists(et):
                out["error"] = "file to inject into is missing: %s" % extra["inject_into"]
                return out
            with open(et, "a") as fh:
                fh.write("\n#[cfg(test)]\n#[path = \"%s\"]\npub(crate) mod %s;\n" % (os.path.join(WDIR, extra["rs"]), extra["module"]))
        env = dict(os.environ, CARGO_NET_OFFLINE="true", CARGO_TARGET_DIR=os.path.join(VERIF, "build", "witness_target"), RUST_BACKTRACE="0")
        cmd = ["cargo", "test", "--offline", "-p", spec["package"]] + spec["target"] + ["--", "--nocapture", "--test-threads", "1", spec["filter"]]
        out["cmd"] = "cd <scratch copy of the tree with `mod %s` (file %s) appended to %s/%s> && %s" % (
            spec["module"], spec["rs"], spec["crate_dir"], spec["inject_into"], " ".join(cmd))
        # ONE build+run at a time in the shared target dir: cargo's unit hashes of workspace members do not depend on the scratch
        # path, so every scratch copy shares one fingerprint (and every witness rebuilds proxy_agent_shared); the freshness check
        # is mtime based, so every source file of the scratch copy gets a fresh mtime AFTER the lock is held - no artifact built
        # from another tree (by a run that held the lock before us) can then be taken for fresh
        os.makedirs(env["CARGO_TARGET_DIR"], exist_ok=True)
        clock = open(os.path.join(env["CARGO_TARGET_DIR"], "vxw.target.lock"), "w")
        fcntl.flock(clock, fcntl.LOCK_EX)
        try:
            time.sleep(1.1)   # mtime granularity: strictly newer than anything the previous holder wrote
            subprocess.run("find . -name '*.rs' -o -name '*.toml' -o -name '*.c' -o -name '*.h' | xargs touch", shell=True, cwd=os.path.join(sc, "repo"))
            pr = subprocess.run(cmd, cwd=os.path.join(sc, "repo"), env=env, capture_output=True, text=True, timeout=timeout)
            txt = pr.stdout + "\n" + pr.stderr
            if "VXW-FAIL" in txt and "VXW-DONE" in txt:
                # a contradiction must be reproducible: several witnesses have time bounds (liveness within N seconds) that a heavily
                # loaded machine can exceed. The same binary is run a second time; contradictions count only if the second run
                # contradicts the oracle too (any case - racy defects do not hit the same case twice). The lock is still held.
                pr2 = subprocess.run(cmd, cwd=os.path.join(sc, "repo"), env=env, capture_output=True, text=True, timeout=timeout)
                txt2 = pr2.stdout + "\n" + pr2.stderr
                if "VXW-FAIL" not in txt2 and "VXW-DONE" in txt2:
                    n1 = len(re.findall(r"VXW-FAIL ", txt))
                    txt = re.sub(r"VXW-FAIL ", "VXW-UNCONFIRMED ", txt) + "\nVXW-NOTE %d contradiction(s) of the first run did not recur in an immediate second run of the same binary (0 contradictions): treated as load-dependent, not counted\n" % n1
        finally:
            fcntl.flock(clock, fcntl.LOCK_UN)
            clock.close()
        for line in txt.splitlines():
            m = re.search(r"VXW-FAIL (\{.*\})", line)
            if m:
                try:
                    out["fails"].append(json.loads(m.group(1)))
                except Exception:
                    out["fails"].append(dict(raw=m.group(1)))
            m = re.search(r"VXW-KNOWN (\{.*\}) \[(\w+):", line)
            if m:
                # a contradiction the witness itself recognises as a LISTED known finding: check.py looks the id up in
                # known_findings.txt (obligation <Cxx>.witness.<id>); if it is not listed there it counts as a failure
                try:
                    out.setdefault("known", []).append(dict(id=m.group(2), case=json.loads(m.group(1))))
                except Exception:
                    out.setdefault("known", []).append(dict(id=m.group(2), case=dict(raw=m.group(1)[:500])))
                continue
            m = re.search(r"VXW-NOTE (.*)", line)
            if m and len(out.setdefault("notes", [])) < 20:
                out["notes"].append(m.group(1)[:300])
            m = re.search(r"VXW-DONE (\d+)", line)
            if m:
                out["cases"] += int(m.group(1))
        if out["cases"] == 0 and not out["fails"]:
            # did not run: compile error in the edited tree or in the witness against the edited tree
            errs = [l for l in txt.splitlines() if l.startswith("error")][:5]
            out["error"] = "witness did not run: " + (" | ".join(errs) or txt[-400:])
    except subprocess.TimeoutExpired:
        out["error"] = "witness timed out"
    except Exception as e:
        out["error"] = "witness runner: %s" % e
    finally:
        shutil.rmtree(sc, ignore_errors=True)
        fcntl.flock(lock, fcntl.LOCK_UN)
        lock.close()
        out["wall_s"] = round(time.time() - t0, 1)
    return out


def run_property(pid, repo_root=None, only_labels=None):
    res = []
    for spec in load_specs():
        if spec["property"] != pid:
            continue
        res.append(run_spec(spec, repo_root))
    return res


def find(pid, failure, results):
    """called by check.py for a failed obligation: look for a concrete failing input"""
    runs = run_property(pid)
    for r in runs:
        if r["fails"]:
            return dict(failing_input=r["fails"][0], all_failing=r["fails"][:10], cases=r["cases"], how=r["cmd"], witness=r["name"], bound=r["bound"],
                        cmd="python3 tools/witness.py %s" % pid,
                        note="the real code, compiled from the tree under test, contradicts the property's oracle on this input")
    if runs:
        return dict(failing_input=None, cases=sum(r["cases"] for r in runs), errors=[r["error"] for r in runs if r["error"]],
                    note="no enumerated case contradicts the oracle (%s)" % "; ".join(r["bound"] for r in runs))
    return None


if __name__ == "__main__":
    import sys
    bad = 0
    for r in run_property(sys.argv[1], sys.argv[2] if len(sys.argv) > 2 else None):
        r2 = dict(r, fails=r["fails"][:5], n_fails=len(r["fails"]))
        print(json.dumps(r2, indent=1)[:6000])
        print("SUMMARY %s cases=%d fails=%d error=%s wall=%ss" % (r["name"], r["cases"], len(r["fails"]), r["error"], r["wall_s"]))
        bad += len(r["fails"])
    sys.exit(1 if bad else 0)
