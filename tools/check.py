#!/usr/bin/env python3
"""check.py <property> [--tier quick|thorough] [--replay FILE]

Decides one property of /verif/properties.jsonl on /repo's current working tree
by contract-based deductive verification (see DESIGN.md):
  * Verus units: real functions extracted mechanically by vx/vxlib + contracts
  * CBMC units: function contracts (goto-instrument --dfcc) on the unmodified C
  * Kani units: loop-free full-domain harnesses on #[path]-included real files
Exit 0: every obligation discharged (known findings are printed as KNOWN-FINDING)
Exit 1: `VIOLATION property=<id> replay=<path>` for an obligation that fails
Exit 2: UNDECIDED (the proof does not apply to this tree: lost anchor, type error,
        unsupported construct, resource limit). Never an alarm.
"""
import concurrent.futures
import glob
import importlib.util
import json
import os
import re
import subprocess
import sys
import time
import traceback

HERE = os.path.dirname(os.path.abspath(__file__))
VERIF = os.path.dirname(HERE)
sys.path.insert(0, HERE)
import vxlib  # noqa: E402
from vxlib import Undecided, Unit, Repo  # noqa: E402

BUILD = os.path.join(VERIF, "build")
EXTDEPS = os.path.join(BUILD, "extdeps", "debug", "deps")
OUT = os.environ.get("VERIF_OUT", VERIF)   # self-tests on scratch trees redirect evidence/replay
EVID = os.path.join(OUT, "evidence")
REPLAY = os.path.join(OUT, "replay")
if "VERIF_OUT" in os.environ:
    BUILD = os.path.join(OUT, "build")
    os.makedirs(BUILD, exist_ok=True)
RUNDIR = os.path.join(BUILD, "units", "run_%d" % os.getpid())
KNOWN = os.path.join(VERIF, "known_findings.txt")

# messages by which Verus reports an undischarged proof obligation (everything else
# at level 'error' means the unit could not be processed => UNDECIDED)
VERIF_FAIL = [
    r"postcondition not satisfied", r"precondition not satisfied", r"assertion failed",
    r"invariant not satisfied", r"loop invariant", r"possible arithmetic (under|over)flow",
    r"possible division by zero", r"possible bit shift", r"decreases not satisfied",
    r"could not prove termination", r"unreachable", r"recommendation not met",
    r"index out of bounds", r"possible .* overflow", r"failed precondition",
    r"cannot show invariant", r"constructed value may fail", r"type invariant",
    r"value may be out of range", r"possible truncation", r"assert_by", r"assertion not satisfied",
]
RESOURCE = [r"[Rr]esource limit", r"rlimit", r"timed? ?out", r"solver .*(crash|unknown)", r"canceled"]


def load_registry():
    spec = importlib.util.spec_from_file_location("registry", os.path.join(VERIF, "contracts", "registry.py"))
    m = importlib.util.module_from_spec(spec)
    spec.loader.exec_module(m)
    return m


def load_unit_module(name):
    p = os.path.join(VERIF, "contracts", name, "unit.py")
    spec = importlib.util.spec_from_file_location("unit_" + name, p)
    m = importlib.util.module_from_spec(spec)
    spec.loader.exec_module(m)
    return m


def externs_for(unit):
    args = []
    for e in unit.externs:
        c = sorted(glob.glob(os.path.join(EXTDEPS, "lib%s-*.rlib" % e)))
        if not c:
            c = sorted(glob.glob(os.path.join(EXTDEPS, "lib%s-*.so" % e)))
        if c:
            args += ["--extern", "%s=%s" % (e, c[0])]
    args += ["-L", "dependency=" + EXTDEPS]
    return args


def run_verus(path, unit, extra=(), multiple_errors=60, timeout=1200):
    cmd = ["verus", path, "--output-json", "--time", "--multiple-errors", str(multiple_errors),
           "--error-format=json", "--triggers-mode", "silent"] + externs_for(unit) + list(extra)
    t0 = time.time()
    try:
        pr = subprocess.run(cmd, capture_output=True, text=True, timeout=timeout, cwd=BUILD)
    except subprocess.TimeoutExpired:
        return dict(cmd=cmd, timeout=True, wall=time.time() - t0, diags=[], js=None, stderr="timeout")
    js = None
    try:
        js = json.loads(pr.stdout)
    except Exception:
        pass
    diags = []
    other = []
    for line in pr.stderr.splitlines():
        line = line.strip()
        if line.startswith("{"):
            try:
                diags.append(json.loads(line))
                continue
            except Exception:
                pass
        if line:
            other.append(line)
    return dict(cmd=cmd, timeout=False, wall=time.time() - t0, diags=diags, js=js, stderr="\n".join(other), rc=pr.returncode)


LABEL_RE = re.compile(r"//\s*@([A-Za-z0-9_.+\-\[\]:]+)")


def classify(unit, text, res):
    """-> (failures, undecided_reasons). failures: list of dict(label, fn, msg, loc, rendered)"""
    failures, undecided = [], []
    fmt_notes = unit.__dict__.setdefault("_fmt_notes", [])
    if res["timeout"]:
        undecided.append("verus timeout")
        return failures, undecided
    tb = text.encode()
    lines = text.split("\n")
    for d in res["diags"]:
        if d.get("level") != "error":
            continue
        msg = d.get("message", "")
        if msg.startswith("aborting due to"):
            continue
        spans = d.get("spans", [])
        prim = [s for s in spans if s.get("is_primary")] or spans
        if any(re.search(p, msg) for p in RESOURCE):
            undecided.append("resource: " + msg)
            continue
        if msg.startswith("precondition not satisfied") and any("std_specs/fmt.rs" in (sp.get("file_name") or "") for sp in spans):
            # vstd's "Display/Debug for T does not panic" precondition of format! for a type without an axiom in this unit:
            # says nothing about any property clause (Verus assumes it and goes on) -> noted, neither violation nor undecided
            fmt_notes.append("format! argument of a type without a Display-does-not-panic axiom at generated line %s" % (prim[0]["line_start"] if prim else "?"))
            continue
        if d.get("code") is not None or not any(re.search(p, msg) for p in VERIF_FAIL):
            undecided.append("verus/rustc error: %s @ %s" % (msg, ["%s:%s" % (s.get("file_name"), s.get("line_start")) for s in prim][:1]))
            continue
        label = None
        where = None
        fn = None
        # label: look at every span line (primary first) for a // @label comment
        for s in prim + [s for s in spans if s not in prim]:
            for ln in range(s["line_start"], s["line_end"] + 1):
                if 0 < ln <= len(lines):
                    m = LABEL_RE.search(lines[ln - 1])
                    if m and label is None:
                        label = m.group(1)
            if label:
                break
        # function and source location: prefer a span inside extracted source
        srcloc = None
        for s in spans:
            loc = unit.locate(s["byte_start"])
            f = unit.fn_at(s["byte_start"])
            if f and fn is None:
                fn = f
            if loc.get("kind") == "src" and srcloc is None:
                srcloc = "%s:%d" % (loc["rel"], loc["line"])
        if fn is None:
            for s in spans:
                f = unit.fn_at(s["byte_start"])
                if f:
                    fn = f
        kind = re.sub(r"[^a-z]+", "_", msg.lower())[:40].strip("_")
        if label is None:
            label = "auto.%s.%s@%s" % (fn or "spec", kind, srcloc or ("gen:%s" % (prim[0]["line_start"] if prim else "?")))
            for sub, props in getattr(unit, "auto_props", {}).items():
                if fn and sub in fn:
                    label = "%s.%s" % (props, label)   # machine-generated obligations (overflow, bounds, unwrap) of this fn belong to that property
                    break
        clause = ""
        if prim:
            clause = " ".join(t["text"].strip() for t in prim[0].get("text", []))[:300]
        failures.append(dict(label=label, fn=fn, msg=msg, src=srcloc, clause=clause, rendered=d.get("rendered", "")[:3000]))
    if re.search(r"Internal Verus Error|panicked at|internal compiler error", res["stderr"]):
        undecided.append("verus crashed: " + (re.search(r"(Internal Verus Error[^\n]*|panicked at[^\n]*)", res["stderr"]).group(1))[:300])
    if res["js"] is None and not failures and not undecided:
        undecided.append("verus produced no JSON summary: " + res["stderr"][:300])
    return failures, undecided


def function_breakdown(js):
    out = []
    if not js:
        return out
    try:
        for m in js["times-ms"]["smt"]["smt-run-module-times"]:
            for f in m.get("function-breakdown", []):
                out.append(f)
    except Exception:
        pass
    return out


def trusted_scan(text):
    tb = []
    for m in re.finditer(r"assume_specification\s*(<[^\[]*>)?\s*\[\s*([^\]]+?)\s*\]", text):
        tb.append("assume_specification " + re.sub(r"\s+", " ", m.group(2)))
    for m in re.finditer(r"#\[verifier::external_body\]\s*(?:#\[[^\]]*\]\s*)*(?:pub\s+)?((?:broadcast\s+)?(?:proof\s+|async\s+|const\s+)?fn)\s+(\w+)", text):
        tb.append("external_body %s %s" % (m.group(1), m.group(2)))
    for m in re.finditer(r"#\[verifier::external_type_specification\][^;{]*?struct\s+(\w+)\s*(?:<[^>]*>)?\s*\(([^)]*)\)", text):
        tb.append("external_type " + re.sub(r"\s+", " ", m.group(2)))
    for m in re.finditer(r"#\[verifier::external_trait_specification\][^{]*?trait\s+(\w+)", text):
        tb.append("external_trait " + m.group(1))
    n_assume = len(re.findall(r"\bassume\s*\(", text))
    n_admit = len(re.findall(r"\badmit\s*\(", text))
    if n_assume:
        tb.append("assume( x%d" % n_assume)
    if n_admit:
        tb.append("admit( x%d" % n_admit)
    for m in re.finditer(r"uninterp\s+spec\s+fn\s+(\w+)", text):
        tb.append("uninterpreted " + m.group(1))
    return tb


def disable_clauses(text, labels):
    """replace every single-line contract clause `<expr>,  // @label` (label in labels) by `true,`; returns (text, count)"""
    out, n = [], 0
    for line in text.split("\n"):
        m = LABEL_RE.search(line)
        if m and m.group(1) in labels and "//" in line:
            code = line[:line.index("//")]
            body = code.strip()
            kw = ""
            mk = re.match(r"(requires|ensures)\s+(.*)$", body, re.S)
            if mk:
                kw, body = mk.group(1) + " ", mk.group(2)
            if body.endswith(",") and all(body.count(a) == body.count(b) for a, b in ("()", "[]", "{}")):
                out.append("%s%strue,  // (clause switched off for rotation) @off.%s" % (code[:len(code) - len(code.lstrip())], kw, m.group(1)))
                n += 1
                continue
        out.append(line)
    return "\n".join(out), n


SRC_DIRS = ["proxy_agent/src", "proxy_agent_shared/src", "proxy_agent_extension/src", "proxy_agent_setup/src", "linux-ebpf"]


def uncovered_fingerprint(repo_root, results):
    """per source file: sha1 of the text that the property's proof machinery does NOT see = the file minus the spans that are in
    the property's units with verified bodies / verbatim definitions (stub bodies and E9-redirected expressions are NOT seen).
    Used to tell whether an edited tree differs from the pinned tree OUTSIDE the reach of the proofs (contracts/coverage_baseline.json)."""
    import hashlib
    cov, holes, whole = {}, {}, set()
    for r in results:
        u = r.get("unit_obj")
        if u is not None:
            for (rel, a, b) in getattr(u, "covered", []):
                cov.setdefault(rel, []).append((a, b))
            for (rel, a, b) in getattr(u, "holes", []):
                holes.setdefault(rel, []).append((a, b))
        for rel in r.get("covered_files", []):
            whole.add(rel)
    out = {}
    for d in SRC_DIRS:
        for dp, dn, fns in os.walk(os.path.join(repo_root, d)):
            for f in sorted(fns):
                if not f.endswith((".rs", ".c", ".h")):
                    continue
                full = os.path.join(dp, f)
                rel = os.path.relpath(full, repo_root)
                if rel in whole:
                    continue
                data = open(full, "rb").read()
                keep = bytearray(b"\x01" * len(data))
                for (a, b) in cov.get(rel, []):
                    keep[a:b] = b"\x00" * (b - a)
                for (a, b) in holes.get(rel, []):
                    keep[a:b] = b"\x01" * (b - a)
                rest = bytes(c for c, k in zip(data, keep) if k)
                rest = b" ".join(rest.split())     # white-space changes do not count
                out[rel] = hashlib.sha1(rest).hexdigest()[:16]
    return out


def publish_rundir():
    """move this process' generated units and diagnostics to build/units/ (last run wins; atomic per file)"""
    try:
        if os.path.isdir(RUNDIR):
            for f in os.listdir(RUNDIR):
                try:
                    os.replace(os.path.join(RUNDIR, f), os.path.join(BUILD, "units", f))
                except OSError:
                    pass
            os.rmdir(RUNDIR)
    except OSError:
        pass


def build_unit(name, twin=False, repo=None):
    mod = load_unit_module(name)
    u = Unit(name, repo=repo)
    u.twin = twin
    mod.build(u)
    text = u.render(getattr(mod, "HEADER_EXTRA", ""))
    # generated units are written into a directory of THIS process (several checks may run at the same time and share units);
    # main() moves them to build/units/ at the end (atomic renames) for inspection
    path = os.path.join(RUNDIR, name + ("_twin" if twin else "") + ".rs")
    os.makedirs(os.path.dirname(path), exist_ok=True)
    with open(path, "w") as f:
        f.write(text)
    return mod, u, text, path


def run_verus_unit(name, tier, seed):
    """returns dict with results for one Verus unit"""
    out = dict(unit=name, engine="verus", failures=[], undecided=[], functions=[], stubs=[], obligations=0, discharged=0,
               solver_s=0.0, wall_s=0.0, trusted=[], rules={}, samples=[], twin=None, breakdown=[], cmds=[], bounded=[])
    t0 = time.time()
    try:
        repo = Repo()
        mod, u, text, path = build_unit(name, False, repo)
        modt, ut, textt, patht = build_unit(name, True, repo)
    except Undecided as e:
        out["undecided"].append("extraction: %s" % e)
        out["wall_s"] = time.time() - t0
        return out
    except Exception as e:
        out["undecided"].append("extraction crashed: %s\n%s" % (e, traceback.format_exc()[-800:]))
        out["wall_s"] = time.time() - t0
        return out
    extra = list(getattr(mod, "VERUS_ARGS", []))
    with concurrent.futures.ThreadPoolExecutor(4) as ex:
        f_main = ex.submit(run_verus, path, u, extra)
        f_twin = ex.submit(run_verus, patht, ut, extra, 0)
        extra_runs = []
        if tier == "thorough":
            for i in range(3):
                extra_runs.append(("seed%d" % i, ex.submit(run_verus, path, u, extra + ["--smt-option", "smt.random_seed=%d" % (seed * 7 + i + 1), "--smt-option", "sat.random_seed=%d" % (seed * 7 + i + 1)])))
        res = f_main.result()
        rest = f_twin.result()
        extra_res = [(n, f.result()) for (n, f) in extra_runs]
    out["cmds"].append(" ".join(res["cmd"]))
    with open(path + ".diag.txt", "w") as fh:
        for d in res["diags"]:
            fh.write(d.get("rendered") or d.get("message", ""))
            fh.write("\n")
        fh.write(res["stderr"])
    with open(patht + ".diag.txt", "w") as fh:
        for d in rest["diags"]:
            fh.write(d.get("rendered") or d.get("message", ""))
            fh.write("\n")
        fh.write(rest["stderr"])
    fails, und = classify(u, text, res)
    # Verus reports ONE failing requires-clause per call. So that a failure is reported under every property whose clause
    # fails (and not only under the first one), the labelled single-line precondition clauses that failed are switched
    # off (`true`) in a copy of the unit and Verus is run again, until no new labelled precondition failure appears.
    # Runs only when something failed; the copies never count towards obligations.
    if fails and not und:
        disabled = set()
        seen = set(f["label"] for f in fails)
        for rnd in range(6):
            new_pre = [f["label"] for f in fails if f["msg"].startswith("precondition not satisfied") and LABEL_RE.search("// @" + f["label"]) and f["label"] not in disabled]
            if not new_pre:
                break
            disabled |= set(new_pre)
            text_r, n_off = disable_clauses(text, disabled)
            if n_off == 0:
                break
            path_r = path[:-3] + "_rot%d.rs" % rnd
            with open(path_r, "w") as fh:
                fh.write(text_r)
            res_r = run_verus(path_r, u, extra)
            f_r, u_r = classify(u, text_r, res_r)
            try:
                os.remove(path_r)
            except OSError:
                pass
            if u_r:
                break
            added = [f for f in f_r if f["label"] not in seen]
            if not added:
                break
            for f in added:
                seen.add(f["label"])
                f["found_by"] = "clause rotation round %d (clauses switched off: %s)" % (rnd + 1, sorted(disabled))
            fails = fails + added
    # a failed obligation inside a function whose verified body contains a closure without contract is not decided by the proof:
    # Verus knows nothing about the value such a closure returns (closure specs are never inferred), so the failure may be for
    # want of a specification, not because of the code -> UNDECIDED for that function (the bounded witnesses then arbitrate)
    opaque = {f["name"]: f.get("opaque_closures", 0) for f in u.functions}
    try:
        base = json.load(open(os.path.join(VERIF, "contracts", "closure_baseline.json"))).get(name, {})
    except Exception:
        base = {}
    kept = []
    for f in fails:
        n = opaque.get(f.get("fn") or "", 0)
        if n > base.get(f.get("fn") or "", 0):
            # more un-annotated closures than on the pinned tree (tools/mkclosurebaseline.py): the edit introduced one
            und.append("obligation %s failed in %s, whose edited body contains %d closure(s) without contract (%d on the pinned tree; opaque to the verifier): not decided by the proof" % (f["label"], f["fn"], n, base.get(f.get("fn") or "", 0)))
        else:
            kept.append(f)
    fails = kept
    out["failures"] = fails
    out["undecided"] += und
    bd = function_breakdown(res["js"])
    out["breakdown"] = bd
    out["solver_s"] = sum(f.get("time-micros", 0) for f in bd) / 1e6
    # obligations: one per function-level SMT query Verus ran for an item of this unit (exec/proof fns and
    # spec termination checks), as reported by Verus itself
    out["obligations"] = len(bd)
    out["discharged"] = len([f for f in bd if f.get("success")])
    out["functions"] = u.functions
    out["stubs"] = u.stubs
    out["rules"] = {k: len(v) for k, v in u.rules.items()}
    out["rule_detail"] = u.rules
    out["trusted"] = trusted_scan(text)
    out["gen_path"] = path
    vr = (res["js"] or {}).get("verification-results", {})
    out["verus_verified"] = vr.get("verified")
    out["verus_errors"] = vr.get("errors")
    # a verified function must not have acquired an assume/admit: only the contract files may contain them
    # (scan of source-origin pieces)
    for (a, b, p) in u._off2piece:
        if p.kind == "src" and re.search(r"\b(assume|admit)\s*\(", p.text):
            out["undecided"].append("source text of %s contains assume/admit" % p.fn)
    # vacuity: twin run must fail for every function under contract
    if not und:
        ft, undt = classify(ut, textt, rest)
        failing_fns = set(f["fn"] for f in ft if f["fn"])
        want = set(f["name"] for f in ut.functions if f["under_contract"])
        exempt = set(getattr(mod, "TWIN_EXEMPT", []))
        missing = sorted(want - failing_fns - exempt)
        out["twin"] = dict(functions=len(want), failed_as_required=len(want & failing_fns), exempt=sorted(exempt & want),
                           not_failing=missing, wall_s=rest["wall"])
        if undt:
            out["undecided"].append("vacuity twin could not be processed: %s" % undt[:2])
        elif missing:
            out["undecided"].append("vacuity guard: `ensures false` verified for %s (contradictory precondition or skipped body)" % missing)
    # seed sweep (thorough): a proof that flips with the seed is brittle -> reported, UNDECIDED if it fails
    sweeps = []
    for (n, r) in extra_res:
        f2, u2 = classify(u, text, r)
        sweeps.append(dict(run=n, failures=[x["label"] for x in f2], undecided=u2, wall_s=r["wall"]))
        base = set(x["label"] for x in fails)
        if set(x["label"] for x in f2) != base or u2:
            out["undecided"].append("brittle proof: run %s differs from the base run (%s / %s)" % (n, [x["label"] for x in f2], u2))
    out["seed_sweep"] = sweeps
    # samples: a few obligations written out
    for f in u.functions[:4]:
        out["samples"].append("fn %s (%s:%d) under contract, rules %s" % (f["name"], f["rel"], f["line"], f["rules"]))
    out["wall_s"] = time.time() - t0
    out["unit_obj"] = u
    out["mod"] = mod
    return out


# ----------------------------------------------------------------------------
def read_known():
    findings, fixed = [], []
    if os.path.exists(KNOWN):
        for line in open(KNOWN):
            line = line.strip()
            if not line or line.startswith("#"):
                continue
            m = re.match(r"finding:\s+property=(\S+)\s+obligation=(\S+)\s+(.*)", line)
            if m:
                findings.append(dict(property=m.group(1), obligation=m.group(2), what=m.group(3)))
            m = re.match(r"fixed:\s+property=(\S+)\s+(\S+)\s+(.*)", line)
            if m:
                fixed.append(dict(property=m.group(1), commit=m.group(2), what=m.group(3)))
    return findings, fixed


def label_props(label):
    m = re.match(r"((?:C\d{2,3})(?:\+C\d{2,3})*)\.", label)
    if m:
        return m.group(1).split("+")
    return None


def main():
    import argparse
    ap = argparse.ArgumentParser()
    ap.add_argument("property")
    ap.add_argument("--tier", default=os.environ.get("VERIF_TIER", "quick"))
    ap.add_argument("--replay", default=None)
    ap.add_argument("--keep", action="store_true")
    args = ap.parse_args()
    pid = args.property
    tier = args.tier if args.tier in ("quick", "thorough") else "quick"
    seed = int(os.environ.get("VERIF_SEED", "0") or 0)
    reg = load_registry()
    if args.replay:
        return replay(args.replay)
    if pid not in reg.PROPERTIES:
        print("property %s is not claimed (see MANIFEST.json not_applicable)" % pid)
        return 2
    pinfo = reg.PROPERTIES[pid]
    t0 = time.time()
    os.makedirs(EVID, exist_ok=True)
    os.makedirs(REPLAY, exist_ok=True)
    results = []
    with concurrent.futures.ThreadPoolExecutor(max(1, min(6, len(pinfo["units"])))) as ex:
        futs = []
        for un in pinfo["units"]:
            kind = reg.UNITS[un]["engine"]
            if kind == "verus":
                futs.append(ex.submit(run_verus_unit, un, tier, seed))
            else:
                import engines
                futs.append(ex.submit(engines.run_unit, un, reg.UNITS[un], tier, seed, pid))
        for f in futs:
            results.append(f.result())
    findings, fixed = read_known()
    my_known = [k for k in findings if k["property"] == pid]
    violations, known_hit, undecided, foreign = [], [], [], []
    for r in results:
        for u in r["undecided"]:
            undecided.append("%s: %s" % (r["unit"], u))
        fnprops = {}
        if r.get("mod") is not None:
            fnprops = getattr(r["mod"], "FN_PROPS", {})
        for f in r["failures"]:
            lp = label_props(f["label"])
            if lp is not None:
                # obligations of another property that THIS property's statement depends on as well (registry: also_labels = label prefixes)
                if pid not in lp and any(f["label"].startswith(pre) for pre in reg.PROPERTIES[pid].get("also_labels", ())):
                    lp = lp + [pid]
                if pid not in lp:
                    foreign.append(dict(f, unit=r["unit"]))
                    continue
            else:
                # unlabelled obligation inside a function: counts for the properties the function serves
                props = None
                if f.get("fn"):
                    for k, v in fnprops.items():
                        if f["fn"] == k or f["fn"].startswith(k + "["):
                            props = v
                if props is None:
                    props = reg.UNITS[r["unit"]]["serves"]
                if pid not in props and pid != "C13":
                    foreign.append(dict(f, unit=r["unit"]))
                    continue
                if pid == "C13" and not re.search(r"overflow|underflow|precondition|division|index|unreachable|panic", f["msg"] + f["label"]):
                    if pid not in props:
                        foreign.append(dict(f, unit=r["unit"]))
                        continue
            f = dict(f, unit=r["unit"])
            k = [k for k in my_known if k["obligation"] == f["label"]]
            if k:
                known_hit.append((k[0], f))
            else:
                violations.append(f)
    rc = 0
    lines = []
    # bounded executable companions (tools/witness.py): always in the thorough tier; as a stand-in when the proof is UNDECIDED
    wit_runs = []
    # does the tree under test differ from the pinned tree in text the proofs of THIS property do not see (code not under contract,
    # stub bodies, E9-redirected expressions)? Then the proofs cannot notice the edit: the bounded witnesses are consulted too.
    outside = []
    try:
        base = json.load(open(os.path.join(VERIF, "contracts", "coverage_baseline.json"))).get(pid)
        if base is not None and not undecided:
            fp = uncovered_fingerprint(os.path.abspath(os.environ.get("VERIF_REPO", "/repo")), results)
            outside = sorted(k for k in set(fp) | set(base) if fp.get(k) != base.get(k))
    except Exception as e:
        outside = []
    if outside:
        print("note: property=%s the tree differs from the pinned tree outside the text under contract for this property (%s%s): bounded witnesses consulted" % (pid, ", ".join(outside[:4]), " ..." if len(outside) > 4 else ""))
    if ((undecided and not violations) or tier == "thorough" or outside) and not os.environ.get("VERIF_NO_WITNESS"):   # VERIF_NO_WITNESS: dev aid (proof side only)
        try:
            import witness as W
            wit_runs = W.run_property(pid)
        except Exception as e:
            wit_runs = [dict(name="?", fails=[], cases=0, error="witness runner crashed: %s" % e, bound="", cmd=None)]
        for w in wit_runs:
            for kn in w.get("known", []):
                lab = "%s.witness.%s" % (pid, kn["id"])
                k = [k for k in my_known if k["obligation"] == lab]
                if k:
                    if not any(kk[0] is k[0] for kk in known_hit):
                        known_hit.append((k[0], dict(label=lab, fn=None, unit="witness", src=None, msg="witness %s" % w["name"])))
                else:
                    w["fails"].append(dict(unlisted_known=kn["id"], case=kn["case"]))
            if w["fails"]:
                violations.append(dict(label="%s.witness.%s" % (pid, w["name"]), fn=None, unit="witness", src=None, clause="bounded witness: " + w.get("bound", ""),
                                       msg="the real code contradicts the property's oracle on a concrete input (proof machinery: %s)" % ("UNDECIDED on this tree" if undecided else "see other obligations"),
                                       rendered=json.dumps(w["fails"][:5]),
                                       witness=dict(failing_input=w["fails"][0], all_failing=w["fails"][:10], cases=w["cases"], how=w["cmd"], cmd="python3 tools/witness.py %s" % pid, witness=w["name"], bound=w.get("bound"))))
    for (k, f) in known_hit:
        lines.append("KNOWN-FINDING: property=%s %s [%s]" % (pid, k["what"], k["obligation"]))
    if not wit_runs:
        # findings that only a witness generator exhibits are listed on every run; the witness itself runs in the thorough tier
        for k in my_known:
            if ".witness." in k["obligation"] and not any(kk[0] is k for kk in known_hit):
                lines.append("KNOWN-FINDING: property=%s %s [%s; exhibited by the bounded witness, which is not re-run in the quick tier]" % (pid, k["what"], k["obligation"]))
    seen = set()
    vio_out = []
    bounded_ok = False
    if undecided and not violations:
        ran = [w for w in wit_runs if w.get("cases", 0) > 0 and not w.get("error")]
        if ran and len(ran) == len(wit_runs):
            # the proof could not be re-established on this tree (restructured code, lost anchor, unsupported construct): nothing is
            # PROVED by this run. Every bounded witness generator of the property ran to completion against the real code of this
            # tree and found no contradiction: the property held on everything explored -> exit 0, evidence level `exploration`
            bounded_ok = True
            for u in undecided:
                lines.append("PROOF-UNDECIDED property=%s %s" % (pid, u))
            lines.append("OK-BOUNDED property=%s proof undecided on this tree; bounded witnesses %s: %d cases, none contradicts the oracle (NOT a proof)" % (
                pid, ",".join(w["name"] for w in ran), sum(w["cases"] for w in ran)))
        else:
            for u in undecided:
                lines.append("UNDECIDED property=%s %s" % (pid, u))
            for w in wit_runs:
                if w.get("error"):
                    lines.append("UNDECIDED property=%s witness %s: %s" % (pid, w["name"], str(w["error"])[:300]))
            rc = 2
    for f in violations:
        if f["label"] in seen:
            continue
        seen.add(f["label"])
        path, found = write_replay(pid, f, results, reg)
        vio_out.append(f)
        lines.append("VIOLATION property=%s replay=%s%s" % (pid, path, "" if found else " no-failing-input-found"))
        rc = 1
    if undecided and violations:
        for u in undecided:
            lines.append("note: also undecided: %s" % u)
    write_evidence(pid, pinfo, tier, seed, results, known_hit, vio_out, undecided, time.time() - t0, reg, foreign, wit_runs, bounded_ok)
    publish_rundir()
    for l in dict.fromkeys(lines):
        print(l)
    if rc == 0 and not bounded_ok:
        tot_o = sum(r["obligations"] for r in results)
        tot_d = sum(r["discharged"] for r in results)
        print("OK property=%s units=%s obligations=%d discharged=%d known_findings=%d other_property_failures=%d wall=%.1fs" % (
            pid, ",".join(r["unit"] for r in results), tot_o, tot_d, len(known_hit), len(foreign), time.time() - t0))
    return rc


def write_replay(pid, f, results, reg):
    """try the unit's witness generator; otherwise write a no-failing-input-found replay file"""
    safe = re.sub(r"[^A-Za-z0-9_.\-]+", "_", f["label"])[:120]
    path = os.path.join(REPLAY, "%s-%s.json" % (pid, safe))
    found = False
    witness = f.get("witness")
    try:
        if witness is None and not os.environ.get("VERIF_NO_WITNESS"):
            import witness as W
            witness = W.find(pid, f, results)
    except ImportError:
        witness = None
    except Exception as e:
        witness = dict(error="witness generator crashed: %s" % e)
    if witness and witness.get("failing_input") is not None:
        found = True
    doc = dict(property=pid, obligation=f["label"], unit=f["unit"], function=f.get("fn"), repo_location=f.get("src"),
               clause=f.get("clause"), verifier_message=f["msg"], verifier_output=f.get("rendered"),
               failing_input_found=found, witness=witness,
               how_to_rerun="cd /verif && ./check %s   (obligation %s must be discharged)" % (pid, f["label"]))
    with open(path, "w") as fh:
        json.dump(doc, fh, indent=1)
    return path, found


def replay(path):
    d = json.load(open(path))
    print(json.dumps({k: d[k] for k in ("property", "obligation", "function", "repo_location", "clause", "verifier_message")}, indent=1))
    w = d.get("witness")
    if w and w.get("cmd"):
        print("re-running witness: %s" % w["cmd"])
        pr = subprocess.run(w["cmd"], shell=True, cwd=VERIF)
        return 1 if pr.returncode != 0 else 0
    print(d.get("verifier_output", ""))
    print("no executable witness recorded; re-run: %s" % d.get("how_to_rerun"))
    return 1


def write_evidence(pid, pinfo, tier, seed, results, known_hit, violations, undecided, wall, reg, foreign=(), wit_runs=(), bounded_ok=False):
    functions = []
    trusted = []
    assumptions = list(pinfo.get("assumptions", []))
    ob = di = 0
    samples = []
    per_unit = []
    cmds = []
    bounded = []
    for r in results:
        ob += r["obligations"]
        di += r["discharged"]
        for f in r.get("functions", []):
            functions.append("%s  (%s:%d) rules=%s [%s/%s]" % (f["name"], f["rel"], f["line"], ",".join(f.get("rules", [])) or "-", r["unit"], r["engine"]))
        for s in r.get("stubs", []):
            trusted.append("assumed contract (body not verified here): %s (%s:%d) [%s]" % (s["name"], s["rel"], s["line"], r["unit"]))
        for t in r.get("trusted", []):
            trusted.append("%s [%s]" % (t, r["unit"]))
        samples += r.get("samples", [])
        cmds += r.get("cmds", [])
        bounded += r.get("bounded", [])
        per_unit.append(dict(unit=r["unit"], engine=r["engine"], obligations=r["obligations"], discharged=r["discharged"],
                             solver_s=round(r.get("solver_s", 0), 3), wall_s=round(r.get("wall_s", 0), 2),
                             extraction_rules_fired=r.get("rules", {}), vacuity_twin=r.get("twin"),
                             seed_sweep=r.get("seed_sweep"), verus_verified=r.get("verus_verified"),
                             slowest=sorted([dict(function=f["function"], ms=f.get("time-micros", 0) / 1000.0, ok=f.get("success")) for f in r.get("breakdown", [])], key=lambda x: -x["ms"])[:5],
                             extra=r.get("extra")))
        for u in getattr(r.get("mod"), "ASSUMPTIONS", []) if r.get("mod") else []:
            assumptions.append("[%s] %s" % (r["unit"], u))
        for u in r.get("assumptions", []):
            assumptions.append("[%s] %s" % (r["unit"], u))
    # known findings are not part of obligations/discharged (DESIGN 2.4 step 5)
    kf = []
    for (k, f) in known_hit:
        kf.append(dict(obligation=k["obligation"], what=k["what"], still_failing=True, function=f.get("fn"), location=f.get("src")))
    # failing functions are counted by Verus as undischarged; report claimed obligations net of known findings
    failing_fn_count = 0
    for r in results:
        failing_fn_count += r["obligations"] - r["discharged"]
    vio_fns = set((f.get("fn"), f["unit"]) for f in violations)
    known_fn = len(set((f.get("fn"), f["unit"]) for (k, f) in known_hit) - vio_fns)
    # functions that fail only obligations labelled for OTHER properties are not part of this property's claim
    foreign_fn = len(set((f.get("fn"), f["unit"]) for f in foreign) - vio_fns - set((f.get("fn"), f["unit"]) for (k, f) in known_hit))
    ob_claimed = ob - min(known_fn + foreign_fn, failing_fn_count)
    cov = dict(
        obligations=ob_claimed, discharged=di,
        checker_cmd=" ; ".join(cmds)[:4000] or "see per_unit",
        trusted_base=sorted(set(trusted)),
        functions_under_contract=functions,
        per_unit=per_unit,
        samples=samples[:12] or ["(no sample)"],
        known_findings=kf,
        other_property_failures=[dict(obligation=f["label"], function=f.get("fn"), unit=f["unit"]) for f in foreign],
        undecided=undecided,
        bounded_companions=bounded + [dict(harness="witness/" + w["name"], bound=w.get("bound"), cases=w["cases"], failing=len(w["fails"]), error=w.get("error"), wall_s=w.get("wall_s")) for w in wit_runs],
        rule="obligation = one function-level SMT query reported by Verus (exec/proof function or spec termination), one CBMC property, or one Kani check; counted by the back end on this run",
        exhaustive=False,
    )
    level = "proof"
    if undecided and not violations:
        # nothing was proved on this tree; what the run covered is the bounded exploration (if any)
        level = "exploration"
        n = sum(w.get("cases", 0) for w in wit_runs)
        cov.update(evaluations=n, distinct_nontrivial=n if bounded_ok else 0,
                   rule="PROOF UNDECIDED on this tree (%s). Cases = inputs/histories enumerated by the witness generators (witness/*.rs, each case distinct by construction of the enumeration, each drives the real code and is compared with the oracle written from the statement); bound: %s"
                        % ("; ".join(undecided)[:600], " | ".join("%s: %s" % (w["name"], w.get("bound", "")) for w in wit_runs)[:3000]),
                   explanation="the deductive check is undecided on this tree; verdict rests on the bounded witnesses only" if bounded_ok else "undecided: no verdict")
        cov["obligations"] = 0
        cov["discharged"] = 0
    doc = dict(property_id=pid, tier=tier, seed=seed, level=level, coverage=cov, assumptions=assumptions,
               wall_s=round(wall, 2), violations=len(violations))
    if violations:
        doc["violation_detail"] = [dict(obligation=v["label"], function=v.get("fn"), location=v.get("src"), message=v["msg"]) for v in violations]
    with open(os.path.join(EVID, pid + ".json"), "w") as fh:
        json.dump(doc, fh, indent=1)


if __name__ == "__main__":
    sys.exit(main())
