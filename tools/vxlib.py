"""vxlib: mechanical extraction of /repo source text into Verus units.

Everything that ends up in a generated unit is either
  (a) bytes copied from /repo (tracked piece by piece, with origin), or
  (b) ghost/contract text from /verif/contracts/<unit>/ (tracked as 'contract'), or
  (c) text produced by one of the extraction rules E1..E11 (tracked with the rule id).
The rule applications are counted and written into the header of the generated
file and into the evidence.
"""
import json
import os
import re
import subprocess

VERIF = os.path.dirname(os.path.dirname(os.path.abspath(__file__)))
REPO = os.environ.get("VERIF_REPO", "/repo")
VX = os.path.join(VERIF, "build", "vx", "release", "vx")


AUTO_STD_DECLS = """pub uninterp spec fn vxstd_pat_rel<P>(f: int, a: Seq<char>, p: P) -> bool;
pub uninterp spec fn vxstd_str1(f: int, a: Seq<char>) -> Seq<char>;
pub uninterp spec fn vxstd_str_rel(f: int, a: Seq<char>, b: Seq<char>) -> bool;
pub uninterp spec fn vxstd_int1(f: int, bits: int, x: int) -> int;
"""
AUTO_STD_SPECS = [
    ("str::eq_ignore_ascii_case", "(a: &str, b: &str) -> (r: bool)", "r == vxstd_str_rel(1, a@, b@)"),
    ("str::to_lowercase", "(a: &str) -> (r: String)", "r@ == vxstd_str1(1, a@)"),
    ("str::to_uppercase", "(a: &str) -> (r: String)", "r@ == vxstd_str1(2, a@)"),
    ("str::to_ascii_lowercase", "(a: &str) -> (r: String)", "r@ == vxstd_str1(3, a@)"),
    ("str::to_ascii_uppercase", "(a: &str) -> (r: String)", "r@ == vxstd_str1(4, a@)"),
    ("str::trim", "(a: &str) -> (r: &str)", "r@ == vxstd_str1(5, a@)"),
    ("str::trim_start", "(a: &str) -> (r: &str)", "r@ == vxstd_str1(6, a@)"),
    ("str::trim_end", "(a: &str) -> (r: &str)", "r@ == vxstd_str1(7, a@)"),
    ("str::starts_with::<P>", "<P: core::str::pattern::Pattern> (a: &str, p: P) -> (r: bool)", "r == vxstd_pat_rel(1, a@, p)"),
    ("str::ends_with::<P>", "<P: core::str::pattern::Pattern> (a: &str, p: P) -> (r: bool) where for<'a> P::Searcher<'a>: core::str::pattern::ReverseSearcher<'a>", "r == vxstd_pat_rel(2, a@, p)"),
    ("str::contains::<P>", "<P: core::str::pattern::Pattern> (a: &str, p: P) -> (r: bool)", "r == vxstd_pat_rel(3, a@, p)"),
] + [("%s::%s" % (t, f), "(x: %s) -> (r: %s)" % (t, t), "r as int == vxstd_int1(%d, %d, x as int)" % (k, bits))
     for (t, bits) in (("u16", 16), ("u32", 32), ("u64", 64)) for (k, f) in enumerate(("to_be", "from_be", "to_le", "from_le", "swap_bytes"), 1)]


AUTO_PATH_SPECS = [
    ("std::path::Path::to_str", "(p: &std::path::Path) -> (r: Option<&str>)", ""),
    ("std::path::Path::exists", "(p: &std::path::Path) -> (r: bool)", ""),
    ("std::path::Path::is_file", "(p: &std::path::Path) -> (r: bool)", ""),
    ("std::path::Path::is_dir", "(p: &std::path::Path) -> (r: bool)", ""),
]


def _underscore_assign_edits(sf, lo, hi):
    """E14: `_ = EXPR;` (destructuring assignment to the wildcard, which this Verus rejects) -> `let _ = EXPR;` (same meaning:
    EXPR is evaluated and its value dropped at once). Only at the start of a statement."""
    out = []
    txt = sf.b[lo:hi]
    for m in re.finditer(rb"(?<=[;{}\n])([ \t]*)_[ \t]*=(?![=>])", txt):
        # statement start: everything between the previous ';' '{' '}' and the `_` is white space
        a = lo + m.start(1) + len(m.group(1))
        # statement start: between the previous `;` `{` `}` and the `_` there is only white space and // comments
        k = max(sf.b.rfind(b";", lo, a), sf.b.rfind(b"{", lo, a), sf.b.rfind(b"}", lo, a))
        between = sf.b[(k + 1 if k >= 0 else lo):a].decode("utf-8", "replace")
        between = re.sub(r"//[^\n]*", "", between)
        if between.strip() == "":
            out.append((a, a, "let ", "rule", "E14"))
    return out


def _residual_closures(it, lo, hi, edits):
    """number of closure expressions of item `it` inside [lo,hi) that no replacing edit covers (they stay verbatim in the unit)"""
    n = 0
    for c in it.get("closures", []):
        a, b = c["span"]
        if a < lo or b > hi:
            continue
        covered = any(e[0] < e[1] and e[0] <= a and b <= e[1] for e in edits)
        if not covered:
            n += 1
    return n


class Undecided(Exception):
    """The machinery cannot apply (lost anchor, missing item, unsupported construct).
    Never reported as a violation."""


# ----------------------------------------------------------------------------
# source files and their index
# ----------------------------------------------------------------------------
class SrcFile:
    def __init__(self, rel, text, index):
        self.rel = rel
        self.text = text  # str
        self.b = text.encode("utf-8")
        self.index = index
        self._flat = {}
        self.excluded = []
        self._walk(index["items"])
        self.line_starts = [0]
        for i, ch in enumerate(self.b):
            if ch == 10:
                self.line_starts.append(i + 1)

    def _walk(self, items):
        for it in items:
            cfgs = [re.sub(r"\s+", "", a["text"]) for a in it.get("attrs", []) if a["name"] == "cfg"]
            if any(c in ("#[cfg(windows)]", "#[cfg(test)]", '#[cfg(target_os="windows")]') for c in cfgs):
                # E2: the verified target is linux, non-test
                self.excluded.append(it["path"])
                continue
            self._flat.setdefault(it["path"], []).append(it)
            if "items" in it:
                self._walk(it["items"])

    def s(self, a, b):
        return self.b[a:b].decode("utf-8")

    def line_of(self, off):
        import bisect
        return bisect.bisect_right(self.line_starts, off)

    def item(self, path, kind=None):
        c = [i for i in self._flat.get(path, []) if kind is None or i["kind"] == kind or (kind == "fn" and i["kind"] in ("fn", "impl_fn", "trait_fn"))]
        if len(c) > 1 and kind is None:
            c = [i for i in c if i["kind"] not in ("impl", "use")]
        if len(c) != 1:
            raise Undecided("item %s (%s) found %d times in %s" % (path, kind, len(c), self.rel))
        return c[0]

    def has_item(self, path):
        return len(self._flat.get(path, [])) > 0

    def all_fns(self):
        out = []
        for p, l in self._flat.items():
            for i in l:
                if i["kind"] in ("fn", "impl_fn", "trait_fn"):
                    out.append(i)
        return out


class Repo:
    def __init__(self, root=None):
        self.root = root or REPO
        self.files = {}

    def load(self, rels):
        need = [r for r in rels if r not in self.files]
        if not need:
            return
        paths = [os.path.join(self.root, r) for r in need]
        for p in paths:
            if not os.path.exists(p):
                raise Undecided("source file missing: %s" % p)
        pr = subprocess.run([VX] + paths, capture_output=True, text=True)
        if pr.returncode not in (0, 3):
            raise Undecided("vx failed: %s" % pr.stderr[:500])
        d = json.loads(pr.stdout)
        for r, p in zip(need, paths):
            if "error" in d[p]:
                raise Undecided("vx cannot parse %s: %s" % (r, d[p]["error"]))
            self.files[r] = SrcFile(r, open(p, encoding="utf-8").read(), d[p])

    def src(self, rel):
        self.load([rel])
        return self.files[rel]


# ----------------------------------------------------------------------------
# pieces: the generated text with provenance
# ----------------------------------------------------------------------------
class Piece:
    __slots__ = ("text", "kind", "rel", "off", "fn", "rule")

    def __init__(self, text, kind, rel=None, off=None, fn=None, rule=None):
        self.text = text
        self.kind = kind  # 'src' | 'contract' | 'rule' | 'glue'
        self.rel = rel
        self.off = off
        self.fn = fn
        self.rule = rule


def apply_edits(sf, start, end, edits, fn=None):
    """edits: list of (a, b, text, kind, rule) with start<=a<=b<=end, non overlapping.
    Returns list of Piece."""
    out = []
    pos = start
    # an edit lying strictly inside the span replaced by another edit is dropped (the outer redirection wins:
    # the text moves verbatim into the generated stub)
    outer = [e for e in edits if e[1] > e[0]]
    def _inside(e, o):
        if e[1] > e[0]:
            return o[0] <= e[0] and e[1] <= o[1] and (o[1] - o[0]) > (e[1] - e[0])
        return o[0] < e[0] < o[1]      # zero-width insertions at the borders of a replaced span are kept
    edits = [e for e in edits if not any(o is not e and _inside(e, o) for o in outer)]
    for (a, b, text, kind, rule) in sorted(edits, key=lambda e: (e[0], e[1])):
        if a < pos:
            raise Undecided("overlapping edits in %s at byte %d (rule %s)" % (sf.rel, a, rule))
        if a > pos:
            out.append(Piece(sf.s(pos, a), "src", sf.rel, pos, fn))
        if text:
            out.append(Piece(text, kind, sf.rel, a, fn, rule))
        pos = b
    if pos < end:
        out.append(Piece(sf.s(pos, end), "src", sf.rel, pos, fn))
    return out


DROP_ATTRS = ("derive", "serde", "allow", "doc", "inline", "must_use", "deprecated", "non_exhaustive", "repr")


class Unit:
    def __init__(self, name, repo=None):
        self.name = name
        self.repo = repo or Repo()
        self.pieces = []
        self.ext_pieces = []   # plain-Rust region outside verus!{}: types Verus treats as opaque external types
        self.rules = {}  # rule -> list of descriptions
        self.functions = []  # functions under contract: dict(name, rel, line, rules, gen_name)
        self.stubs = []
        self.holes = []      # (rel, lo, hi) spans inside covered text that were moved into external_body stubs (E9)
        self.covered = []    # (rel, lo, hi) byte spans of source text that is IN the unit with its body verified / its definition used verbatim
        self.assumed = []
        self._modstack = []
        self.e9_stubs = []
        self.e9_n = 0
        self._e9_names = {}
        self._local_stub_stack = []
        self._modpath = []          # current module path inside verus!{}
        self._emitted = set()       # module-level names emitted: tuples of path segments
        self._auto_uses = []        # (piece, source file, module path) resolved at render time
        self._impl_depth = 0
        self._impl_depth_trait = 0
        self.labels = {}
        self.notes = []
        self.auto_props = {}   # fn name (as fn_at reports it) or substring -> 'C13': property that unlabelled (auto) obligations of that function belong to
        self.externs = ["http", "hyper", "bytes", "tokio", "serde_json", "itertools", "hex", "hmac_sha256",
                        "http_body_util", "hyper_util", "tower", "tower_http", "bitflags", "log", "serde",
                        "thiserror", "once_cell", "regex", "time", "uuid", "tokio_util", "serde_derive"]
        self.use_externs = set()
        self.features = []
        self.twin = False
        self.contract_dir = os.path.join(VERIF, "contracts", name)

    # ---- low level -------------------------------------------------------
    def rule(self, r, what):
        self.rules.setdefault(r, []).append(re.sub(r"\s+", " ", what))

    def emit(self, text, kind="contract", rule=None, fn=None):
        if not text.endswith("\n"):
            text += "\n"
        self.pieces.append(Piece(text, kind, rule=rule, fn=fn))

    def raw(self, text, names=()):
        """contract/ghost text; `names` = module-level names it declares (so that auto_uses can resolve imports of them)"""
        self.emit(text, "contract")
        for n in names:
            self._note_emitted(n)

    def raw_file(self, fname):
        p = os.path.join(self.contract_dir, fname)
        self.emit("// ---- %s\n" % fname + open(p).read() + "\n// ---- end %s\n" % fname, "contract")

    def src(self, rel):
        return self.repo.src(rel)

    # ---- structure -------------------------------------------------------
    class _Ctx:
        def __init__(self, u, close, is_mod=False, name=None, is_impl=False):
            self.u = u
            self.close = close
            self.is_mod = is_mod
            self.name = name
            self.is_impl = is_impl

        def __enter__(self):
            if self.is_mod:
                self.u._local_stub_stack.append([])
                self.u._modpath.append(self.name)
                self.u._emitted.add(tuple(self.u._modpath))
            if self.is_impl:
                self.u._impl_depth += 1
            return self

        def __exit__(self, *a):
            if self.is_mod:
                # E9 stubs requested with opts local=True live in the module of their call site (its `use`s apply)
                for st in self.u._local_stub_stack.pop():
                    self.u.emit(st, "rule", "E9")
                self.u._modpath.pop()
            if self.is_impl:
                self.u._impl_depth -= 1
            self.u.emit(self.close, "glue", "E1")
            return False

    def mod(self, name, uses="", auto_uses=None):
        """auto_uses: source file whose own file-level `use` lines are copied into this module, keeping exactly those
        that resolve inside the unit (items the unit emitted, extern crates); resolved at render time (E1)."""
        self.emit("pub mod %s {\n#[allow(unused_imports)] use vstd::prelude::*;\n#[allow(unused_imports)] use crate::*;\n%s" % (name, uses), "glue", "E1")
        if auto_uses is not None:
            pc = Piece("", "glue", rule="E1")
            self.pieces.append(pc)
            self._auto_uses.append((pc, auto_uses, list(self._modpath) + [name], uses))
        self.rule("E1", "mod " + name)
        return Unit._Ctx(self, "} // mod %s" % name, is_mod=True, name=name)

    def impl_(self, sf, path, attr=""):
        it = sf.item(path, "impl")
        hs = self._after_attrs(sf, it)
        header = sf.s(hs, it["brace"][0])
        self.pieces.append(Piece(attr + header, "src", sf.rel, hs))
        self.emit("{", "glue", "E1")
        return Unit._Ctx(self, "} // impl %s" % path, is_impl=True)

    def trait_(self, sf, path, extra=""):
        it = sf.item(path, "trait")
        hs = self._after_attrs(sf, it)
        header = sf.s(hs, it["brace"][0])
        if it["vis"] is None:
            header = "pub " + header
        self.pieces.append(Piece(header, "src", sf.rel, hs))
        self.emit("{\n" + extra, "glue", "E1")
        self._note_emitted(it["name"])
        return Unit._Ctx(self, "} // trait %s" % path, is_impl=True)

    def _note_emitted(self, name):
        if self._impl_depth == 0 and name:
            self._emitted.add(tuple(self._modpath) + (name,))

    def _resolve_auto_uses(self):
        std = ("std", "core", "alloc", "vstd")
        for (pc, sf, modpath, manual) in self._auto_uses:
            lines, dropped = [], []
            manual_names = set(re.findall(r"(\w+)\s*(?:;|,|\})", manual)) | set(re.findall(r"as\s+(\w+)", manual))
            for it in sf.index["items"]:
                if it["kind"] != "use":
                    continue
                cfgs = [re.sub(r"\s+", "", a["text"]) for a in it.get("attrs", []) if a["name"] == "cfg"]
                if any(c in ("#[cfg(windows)]", "#[cfg(test)]") for c in cfgs):
                    continue
                for u_ in it.get("uses", []):
                    path = list(u_["path"])
                    bound = u_["alias"] or (path[-1] if not u_["glob"] else None)
                    if bound == "self" and len(path) > 1:
                        path = path[:-1]
                        bound = u_["alias"] or path[-1]
                    if bound in manual_names:
                        continue
                    first = path[0]
                    target = None
                    if first == "crate":
                        target = tuple(path[1:])
                    elif first == "super":
                        base = list(modpath[:-1])
                        k = 0
                        while k < len(path) and path[k] == "super":
                            k += 1
                        base = list(modpath[:len(modpath) - k])
                        target = tuple(base + path[k:])
                    elif first == "self":
                        target = tuple(list(modpath) + path[1:])
                    elif first in std or first in self.externs or first.replace("-", "_") in self.externs:
                        txt = "::".join(path) + ("::*" if u_["glob"] else "") + ((" as " + u_["alias"]) if u_["alias"] else "")
                        lines.append("#[allow(unused_imports)] use %s;" % txt)
                        continue
                    else:
                        # a workspace crate modelled as a top-level module of the unit (e.g. proxy_agent_shared)
                        target = tuple(path)
                    if target in self._emitted:
                        txt = "crate::" + "::".join(target) + ("::*" if u_["glob"] else "") + ((" as " + u_["alias"]) if u_["alias"] else "")
                        lines.append("#[allow(unused_imports)] use %s;" % txt)
                    else:
                        dropped.append("::".join(path))
            pc.text = "\n".join(lines) + "\n"
            if dropped:
                self.rule("E1", "mod %s: use lines of %s not resolvable inside the unit, dropped: %s" % ("::".join(modpath), sf.rel, ", ".join(dropped)))

    def _after_attrs(self, sf, it):
        pos = it["span"][0]
        for a in it.get("attrs", []):
            pos = max(pos, a["span"][1])
        # skip whitespace
        while pos < len(sf.b) and sf.b[pos:pos + 1] in (b" ", b"\n", b"\t", b"\r"):
            pos += 1
        return pos

    # ---- E2 attribute / visibility normalisation ------------------------------
    def _attr_edits(self, sf, it, keep_derive=(), keep_attrs=()):
        edits = []
        extra = ""
        for a in it.get("attrs", []):
            n = a["name"]
            t = a["text"]
            if n == "derive":
                inner = t[t.index("(") + 1:t.rindex(")")]
                names = [x.strip() for x in inner.split(",") if x.strip()]
                kept = [x for x in names if x in keep_derive]
                dropped = [x for x in names if x not in keep_derive]
                rep = ("#[derive(%s)]" % ", ".join(kept)) if kept else ""
                edits.append((a["span"][0], a["span"][1], rep, "rule", "E2"))
                if dropped:
                    self.rule("E2", "%s: derive dropped %s" % (it["path"], ",".join(dropped)))
            elif n in keep_attrs:
                pass
            elif n in DROP_ATTRS or n == "tokio::test" or n == "test":
                edits.append((a["span"][0], a["span"][1], "", "rule", "E2"))
                if n != "doc":
                    self.rule("E2", "%s: attr %s dropped" % (it["path"], n))
            elif n == "cfg":
                c = re.sub(r"\s+", "", t)
                if c in ("#[cfg(not(windows))]", "#[cfg(unix)]", '#[cfg(target_os="linux")]', "#[cfg(not(test))]"):
                    edits.append((a["span"][0], a["span"][1], "", "rule", "E2"))
                    self.rule("E2", "%s: %s kept item, attr dropped (target linux)" % (it["path"], c))
                else:
                    raise Undecided("item %s carries %s: not part of the linux target" % (it["path"], c))
            else:
                raise Undecided("item %s carries unknown attribute %s" % (it["path"], t))
        return edits

    def _vis_edits(self, sf, it, item_start, make_pub=True):
        if not make_pub:
            return []
        if it.get("vis") is None:
            return [(item_start, item_start, "pub ", "rule", "E2")]
        v = it["vis"]
        if sf.s(v[0], v[1]) != "pub":
            return [(v[0], v[1], "pub", "rule", "E2")]
        return []

    # ---- take_ext: repo types kept OUTSIDE verus!{} (opaque to Verus, fully checked by rustc) ----
    def placeholder_ext(self, sf, paths, modname, keep=("Clone",)):
        """E13: a repo type that no function under contract looks into (an actor handle, a guard object) is declared
        OUTSIDE verus!{} as a field-less placeholder `pub struct Name(());` carrying those of the real type's derives
        listed in `keep` (read from the tree), re-exported and declared an opaque external type. Only its NAME and
        the real signatures of the stubbed methods taken from the tree are used. Listed in the evidence."""
        saved = self.pieces
        self.pieces = self.ext_pieces
        self.emit("pub mod %s {\n#![allow(unused_imports, dead_code, non_snake_case)]" % modname, "glue", "E13")
        names = []
        for path in paths:
            it = sf.item(path)
            if it["kind"] not in ("struct", "enum"):
                raise Undecided("placeholder requested for %s which is a %s" % (path, it["kind"]))
            ders = []
            for a in it.get("attrs", []):
                if a["name"] == "derive":
                    inner = a["text"][a["text"].index("(") + 1:a["text"].rindex(")")]
                    ders += [x.strip() for x in inner.split(",") if x.strip()]
            kept = [d for d in ders if d in keep]
            self.emit("%spub struct %s(());" % (("#[derive(%s)]\n" % ", ".join(kept)) if kept else "", it["name"]), "rule", "E13")
            names.append(it["name"])
            self._note_emitted(it["name"])
            self.rule("E13", "%s %s declared as opaque placeholder (derives kept: %s)  <- %s:%d" % (it["kind"], path, ",".join(kept) or "-", sf.rel, sf.line_of(it["span"][0])))
        self.emit("} // mod %s" % modname, "glue", "E13")
        self.pieces = saved
        self.emit("pub use crate::%s::{%s};" % (modname, ", ".join(names)), "glue", "E13")
        for n in names:
            self.emit("#[verifier::external_type_specification]\n#[verifier::external_body]\npub struct VxEx_%s_%s(crate::%s::%s);" % (modname, n, modname, n), "glue", "E13")

    def take_ext(self, sf, paths, modname, uses="", opaque=True, transparent=False):
        """Copy the listed type definitions verbatim (derives kept) into a plain-Rust module `modname` placed
        outside the verus! block, re-export them into the current verus module and declare them as opaque
        external types. Only cfg(windows) variants/items are dropped (E2)."""
        saved = self.pieces
        self.pieces = self.ext_pieces
        self.emit("pub mod %s {\n#![allow(unused_imports, dead_code, non_snake_case)]\n%s" % (modname, uses), "glue", "E1")
        names = []
        for path in paths:
            it = sf.item(path)
            self.covered.append((sf.rel, it["span"][0], it["span"][1]))
            edits = []
            for a in it.get("attrs", []):
                if a["name"] == "cfg":
                    c = re.sub(r"\s+", "", a["text"])
                    if c in ("#[cfg(not(windows))]", "#[cfg(unix)]"):
                        edits.append((a["span"][0], a["span"][1], "", "rule", "E2"))
                    else:
                        raise Undecided("item %s carries %s" % (path, c))
            start = self._after_attrs(sf, it)
            edits += self._vis_edits(sf, it, start, True)
            for v in it.get("variants", []):
                cfgs = [re.sub(r"\s+", "", a["text"]) for a in v["attrs"] if a["name"] == "cfg"]
                if any(c in ("#[cfg(windows)]", "#[cfg(test)]") for c in cfgs):
                    end = v["span"][1]
                    while sf.b[end:end + 1] in (b" ", b"\n", b"\t", b"\r"):
                        end += 1
                    if sf.b[end:end + 1] == b",":
                        end += 1
                    edits.append((v["span"][0], end, "", "rule", "E2"))
                    self.rule("E2", "%s: variant %s under cfg(windows) dropped" % (path, v["name"]))
            for f in it.get("fields", []):
                fs = f["span"][0]
                for a in f["attrs"]:
                    fs = max(fs, a["span"][1])
                while sf.b[fs:fs + 1] in (b" ", b"\n", b"\t", b"\r"):
                    fs += 1
                if f["vis"] is None:
                    edits.append((fs, fs, "pub ", "rule", "E2"))
            self.pieces += apply_edits(sf, it["span"][0], it["span"][1], edits)
            self.emit("", "glue")
            names.append(it["name"])
            self.pieces = saved
            self._note_emitted(it["name"])
            self.pieces = self.ext_pieces
            self.rule("E1", "%s %s kept outside verus! (opaque external type)  <- %s:%d" % (it["kind"], path, sf.rel, sf.line_of(it["span"][0])))
        self.emit("} // mod %s" % modname, "glue", "E1")
        self.pieces = saved
        self.emit("pub use crate::%s::{%s};" % (modname, ", ".join(names)), "glue", "E1")
        for n in names:
            # opaque: Verus never looks inside; transparent: fields visible to Verus (all fields pub, supported types);
            # neither: the caller declares the external type specification itself
            if opaque or transparent:
                self.emit("#[verifier::external_type_specification]\n%spub struct VxEx_%s_%s(crate::%s::%s);" % ("#[verifier::external_body]\n" if not transparent else "", modname, n, modname, n), "glue", "E1")

    # ---- take: struct / enum / const ---------------------------------------
    def take(self, sf, path, kind=None, keep_derive=(), extra_attrs="", make_pub=True, structural=False):
        it = sf.item(path, kind)
        k = it["kind"]
        self.covered.append((sf.rel, it["span"][0], it["span"][1]))
        if structural:
            # E2: a field-less enum deriving PartialEq gets Eq + Structural so that exec `==` is spec equality.
            # (`#[derive(Structural)]` inside a nested module crashes this Verus build; the manual impl is what the
            # derive expands to for an enum without fields.)
            if k != "enum" or any(v.get("fields") for v in it["variants"]):
                raise Undecided("%s: structural equality requested for a type that is not a field-less enum" % path)
            if not any(a["name"] == "derive" and "PartialEq" in a["text"] for a in it["attrs"]):
                raise Undecided("%s: no longer derives PartialEq" % path)
            keep_derive = tuple(keep_derive) + ("PartialEq",)
            extra_attrs = "#[derive(Eq)]\n" + extra_attrs
            self.rule("E2", "%s: field-less enum deriving PartialEq: added Eq + Structural" % path)
        edits = self._attr_edits(sf, it, keep_derive)
        start = self._after_attrs(sf, it)
        if k in ("struct", "enum", "const", "static", "type", "fn"):
            edits += self._vis_edits(sf, it, start, make_pub)
        elif k in ("impl_const",):
            edits += self._vis_edits(sf, it, start, make_pub and self._impl_depth_trait == 0)
        if k == "struct":
            for f in it["fields"]:
                fs = f["span"][0]
                for a in f["attrs"]:
                    edits.append((a["span"][0], a["span"][1], "", "rule", "E2"))
                    fs = max(fs, a["span"][1])
                while sf.b[fs:fs + 1] in (b" ", b"\n", b"\t", b"\r"):
                    fs += 1
                if f["name"] is None:
                    # tuple struct field
                    if f["vis"] is None:
                        edits.append((fs, fs, "pub ", "rule", "E2"))
                    continue
                if f["vis"] is None:
                    edits.append((fs, fs, "pub ", "rule", "E2"))
                else:
                    v = f["vis"]
                    if sf.s(v[0], v[1]) != "pub":
                        edits.append((v[0], v[1], "pub", "rule", "E2"))
        if k == "enum":
            for v in it["variants"]:
                cfgs = [re.sub(r"\s+", "", a["text"]) for a in v["attrs"] if a["name"] == "cfg"]
                if any(c in ("#[cfg(windows)]", "#[cfg(test)]") for c in cfgs):
                    # E2: variant only present on windows: dropped together with its trailing comma
                    end = v["span"][1]
                    while sf.b[end:end + 1] in (b" ", b"\n", b"\t", b"\r"):
                        end += 1
                    if sf.b[end:end + 1] == b",":
                        end += 1
                    edits.append((v["span"][0], end, "", "rule", "E2"))
                    self.rule("E2", "%s: variant %s under cfg(windows) dropped" % (path, v["name"]))
                    continue
                for a in v["attrs"]:
                    edits.append((a["span"][0], a["span"][1], "", "rule", "E2"))
                for f in v.get("fields", []):
                    for a in f["attrs"]:
                        edits.append((a["span"][0], a["span"][1], "", "rule", "E2"))
        if k in ("const", "impl_const"):
            ty = it["ty"]
            if sf.s(ty[0], ty[1]).replace(" ", "") == "&str":
                edits.append((ty[0], ty[1], "&'static str", "rule", "E3"))
                self.rule("E3", path)
        if extra_attrs:
            self.emit(extra_attrs, "glue", "E2")
        self.pieces += apply_edits(sf, it["span"][0], it["span"][1], edits)
        self.emit("", "glue")
        self._note_emitted(it["name"])
        if structural:
            self.emit("unsafe impl Structural for %s {}" % it["name"], "rule", "E2")
        self.rule("E1", "%s %s  <- %s:%d" % (k, path, sf.rel, sf.line_of(it["span"][0])))
        return it

    def take_all_consts(self, sf, names=None):
        for it in sf.index["items"]:
            if it["kind"] == "const" and (names is None or it["name"] in names):
                self.take(sf, it["path"], "const")

    # ---- body helpers -----------------------------------------------------
    @staticmethod
    def find_anchor(sf, lo, hi, anchor, ordinal=None, what=""):
        body = sf.s(lo, hi)
        idxs = [m.start() for m in re.finditer(re.escape(anchor), body)]
        if ordinal is None:
            if len(idxs) != 1:
                raise Undecided("anchor %r matches %d places in %s (%s)" % (anchor, len(idxs), sf.rel, what))
            i = idxs[0]
        else:
            if ordinal >= len(idxs):
                raise Undecided("anchor %r ordinal %d not found in %s (%s)" % (anchor, ordinal, sf.rel, what))
            i = idxs[ordinal]
        a = lo + len(body[:i].encode("utf-8"))
        return a, a + len(anchor.encode("utf-8"))

    @staticmethod
    def enclosing_stmt(it, pos):
        """innermost statement span (of any block of the fn) containing pos"""
        best = None
        for b in it["blocks"]:
            for s in b["stmts"]:
                if s[0] <= pos < s[1]:
                    if best is None or (s[1] - s[0]) < (best[1] - best[0]):
                        best = s
        if best is None:
            raise Undecided("no statement encloses byte %d in %s" % (pos, it["path"]))
        return best

    def _cfg_stmt_edits(self, sf, it):
        """statement-level #[cfg(windows)] removal / #[cfg(not(windows))] attr removal (E2)"""
        edits = []
        seen = set()
        for b in it["blocks"]:
            for s in b["stmts"]:
                t = sf.s(s[0], s[1])
                m = re.match(r"\s*#\[cfg\(([^\]]*)\)\]", t)
                if not m or tuple(s) in seen:
                    continue
                seen.add(tuple(s))
                c = re.sub(r"\s+", "", m.group(1))
                if c in ("windows", "test"):
                    # make sure the statement's trailing ';' goes too
                    e = s[1]
                    edits.append((s[0], e, "", "rule", "E2"))
                    self.rule("E2", "%s: statement under cfg(%s) dropped" % (it["path"], c))
                elif c in ("not(windows)", "unix", "not(test)"):
                    edits.append((s[0], s[0] + len(m.group(0).encode()), "", "rule", "E2"))
                    self.rule("E2", "%s: cfg(%s) attr dropped, statement kept" % (it["path"], c))
                else:
                    raise Undecided("%s: statement under cfg(%s)" % (it["path"], c))
        # drop edits nested inside other dropped statements
        outer = [e for e in edits if e[2] == "" and e[1] - e[0] > 0]
        res = []
        for e in edits:
            if any(o is not e and o[0] <= e[0] and e[1] <= o[1] and (o[1] - o[0]) > (e[1] - e[0]) for o in outer):
                continue
            res.append(e)
        return res

    # ---- take_fn ----------------------------------------------------------------
    def take_fn(self, sf, path, contract="", ret="r", pre_body="", loops=None, loop_attrs=None, hints=(),
                e9=(), ghost=None, ghost_calls=(), loop_ends=None, external_body=False, keep_attrs=(), make_pub=True,
                rename=None, drop_body=False, e10=True, extra_attrs="", under_contract=True, sig_edits=(),
                lift_closures=(), loop_iter_names=None, desugar_for=None, e6=()):
        """Extract one function verbatim and splice contract text into it.
        contract   : text placed between signature and body (requires/ensures/decreases)
        ret        : name given to the return value ('-> T' becomes '-> (r: T)')
        pre_body   : ghost text placed right after the opening brace of the body
        loops      : {ordinal: 'invariant ...'} placed before the loop body's opening brace
        loop_attrs : {ordinal: '#[verifier::...]'} placed before the loop keyword
        hints      : [(anchor, ordinal|None, 'before'|'after', ghost text)]
        e9         : [(anchor, ordinal|None, params, args, ret_type, stub_contract)] expression redirection
        ghost      : text appended to the parameter list (E4), ghost_calls: [(callee anchor, ordinal, extra arg text)]
        """
        it = sf.item(path, "fn")
        fnname = path
        is_trait_sig = it["body"] is None
        edits = self._attr_edits(sf, it, keep_attrs=keep_attrs)
        start = self._after_attrs(sf, it)
        if it["kind"] == "fn" or (it["kind"] == "impl_fn" and make_pub and not getattr(self, "_in_trait_impl", False)):
            if make_pub:
                edits += self._vis_edits(sf, it, start, True)
        applied = []
        # return value naming (E7)
        if it["output"] is not None and ret:
            o = it["output"]
            edits.append((o[0], o[0], "(%s: " % ret, "rule", "E7"))
            edits.append((o[1], o[1], ")", "rule", "E7"))
        if it["output"] is None and it["is_async"] and "ensures" in contract and not any("->" in t for (_, _, t) in sig_edits):
            # this Verus drops the ensures of an async fn without a declared return type at call sites: name the unit return
            edits.append((it["sig"][1], it["sig"][1], " -> (r: ())", "rule", "E7"))
        # E10 async mut params
        e10_lets = ""
        if it["is_async"] and e10:
            for p in it["params"]:
                if p.get("mut"):
                    ms = p["mut_span"]
                    # remove 'mut ' token
                    end = ms[1]
                    while sf.b[end:end + 1] == b" ":
                        end += 1
                    edits.append((ms[0], end, "", "rule", "E10"))
                    e10_lets += "let mut %s = %s; " % (p["name"], p["name"])
                    self.rule("E10", "%s: param %s" % (path, p["name"]))
                    applied.append("E10")
        # E4 ghost param
        if ghost:
            # insert before the closing paren of the parameter list: find it after last param / after fn name
            sig_s, sig_e = it["sig"]
            if it["params"]:
                p_end = it["params"][-1]["span"][1]
                edits.append((p_end, p_end, ", " + ghost, "rule", "E4"))
            else:
                sigtxt = sf.s(sig_s, sig_e)
                i = sigtxt.index("(")
                pos = sig_s + len(sigtxt[:i + 1].encode())
                edits.append((pos, pos, ghost, "rule", "E4"))
            self.rule("E4", "%s: ghost parameter %s" % (path, ghost))
            applied.append("E4")
        for (a, b, t) in sig_edits:
            edits.append((a, b, t, "rule", "E7"))
        body = it["body"]
        sig_end = it["sig"][1]
        ctext = ""
        if contract.strip():
            ctext = "\n" + contract.rstrip() + "\n"
        if self.twin and under_contract and not is_trait_sig and not (external_body or drop_body):
            # vacuity twin: the body must be reachable under the precondition (and the axioms in scope)
            pre_body = pre_body.rstrip() + "\nproof { assert(false); } // @TWIN\n"
        if is_trait_sig:
            # trait method declaration: 'fn f(..) -> T;'  -> contract goes before ';'
            edits.append((sig_end, sig_end, ctext, "contract", "E7"))
        else:
            edits.append((sig_end, sig_end, ctext, "contract", "E7"))
            lo, hi = body[0] + 1, body[1] - 1
            if external_body or drop_body:
                edits.append((lo, hi, " unimplemented!() ", "rule", "stub"))
            else:
                edits += self._cfg_stmt_edits(sf, it)
                e14 = _underscore_assign_edits(sf, lo, hi)
                if e14:
                    edits += e14
                    applied.append("E14")
                    self.rule("E14", "%s: %d statement(s) `_ = e;` written `let _ = e;`" % (path, len(e14)))
                ins = e10_lets + (("\n" + pre_body.rstrip() + "\n") if pre_body.strip() else "")
                if ins:
                    edits.append((lo, lo, ins, "contract" if not e10_lets else "rule", "E7"))
                for k, nm in (desugar_for or {}).items():
                    # E12: `for P in E BODY` -> rustc's own desugaring, needed because this Verus rejects `continue`
                    # inside `for`:  { let mut NAME = IntoIterator::into_iter(E); loop INV { match NAME.next() {
                    #                  None => { break; } Some(P) => BODY } } }
                    if k >= len(it["loops"]) or it["loops"][k]["kind"] != "for":
                        raise Undecided("%s: loop ordinal %d is not a for loop" % (path, k))
                    L = it["loops"][k]
                    inv = (loops or {}).get(k, "")
                    ptxt = sf.s(L["pat"][0], L["pat"][1])
                    edits.append((L["span"][0], L["pat"][0], "{ let mut %s = IntoIterator::into_iter(" % nm, "rule", "E12"))
                    edits.append((L["pat"][0], L["expr"][0], "", "rule", "E12"))
                    edits.append((L["expr"][1], L["body"][0], "); loop\n" + inv.rstrip() + "\n{ match %s.next() { None => { break; } Some(%s) => " % (nm, ptxt), "rule", "E12"))
                    edits.append((L["body"][1], L["body"][1], " } } }", "rule", "E12"))
                    self.rule("E12", "%s: for loop #%d desugared (iterator %s) [%s:%d]" % (path, k, nm, sf.rel, sf.line_of(L["span"][0])))
                    applied.append("E12")
                for k, inv in (loops or {}).items():
                    if k in (desugar_for or {}):
                        continue
                    if k >= len(it["loops"]):
                        raise Undecided("%s: loop ordinal %d not found (has %d loops)" % (path, k, len(it["loops"])))
                    lb = it["loops"][k]["body"][0]
                    edits.append((lb, lb, "\n" + inv.rstrip() + "\n", "contract", "E7"))
                for k, at in (loop_attrs or {}).items():
                    if k >= len(it["loops"]):
                        raise Undecided("%s: loop ordinal %d not found" % (path, k))
                    ls = it["loops"][k]["span"][0]
                    edits.append((ls, ls, at + " ", "contract", "E7"))
                for k, txt in (loop_ends or {}).items():
                    if k >= len(it["loops"]):
                        raise Undecided("%s: loop ordinal %d not found" % (path, k))
                    le = it["loops"][k]["body"][1] - 1
                    edits.append((le, le, "\n" + txt.rstrip() + "\n", "contract", "E7"))
                for k, nm in (loop_iter_names or {}).items():
                    # E7: Verus' ghost name for the iterator of a `for` loop: `for x in NAME: expr`
                    if k >= len(it["loops"]) or it["loops"][k]["kind"] != "for":
                        raise Undecided("%s: loop ordinal %d is not a for loop" % (path, k))
                    es = it["loops"][k]["expr"][0]
                    edits.append((es, es, nm + ": ", "contract", "E7"))
                for h in hints:
                    anchor, ordinal, where, text = h
                    a, b = self.find_anchor(sf, lo, hi, anchor, ordinal, path)
                    st = self.enclosing_stmt(it, a)
                    pos = st[0] if where == "before" else st[1]
                    if where == "after":
                        # include trailing ';' if the stmt span excludes it
                        if sf.b[pos:pos + 1] == b";":
                            pos += 1
                    edits.append((pos, pos, "\n" + text.rstrip() + "\n", "contract", "E7"))
                for e in e9:
                    edits += self._e9(sf, it, lo, hi, e, path)
                    applied.append("E9")
                for e in e6:
                    edits += self._e6(sf, it, e, path)
                    applied.append("E6")
                for (anchor, ordinal, extra) in ghost_calls:
                    edits += self._ghost_call_edits(sf, it, lo, hi, anchor, ordinal, extra, path)
        if extra_attrs or external_body:
            self.emit((extra_attrs + "\n" if extra_attrs else "") + ("#[verifier::external_body]" if external_body else ""), "glue", "E2")
        pcs = apply_edits(sf, it["span"][0], it["span"][1], edits, fn=fnname)
        self.pieces += pcs
        self.emit("", "glue")
        self._note_emitted(it["name"])
        rec = dict(name=path, rel=sf.rel, line=sf.line_of(it["sig"][0]), rules=sorted(set(applied)),
                   gen_name=it["name"], external_body=bool(external_body or drop_body), under_contract=under_contract and not (external_body or drop_body) and not is_trait_sig)
        # closures left verbatim in the verified body: Verus knows nothing about what an un-annotated closure returns, so an
        # obligation of this function that fails may fail for want of a closure contract (check.py: UNDECIDED, not VIOLATION)
        rec["opaque_closures"] = 0 if (external_body or drop_body or is_trait_sig) else _residual_closures(it, it["span"][0], it["span"][1], edits)
        if not (external_body or drop_body):
            self.covered.append((sf.rel, it["span"][0], it["span"][1]))
        else:
            # a stub: only its signature is in the unit, its body is NOT seen by the verifier
            self.covered.append((sf.rel, it["sig"][0], it["sig"][1]))
        if is_trait_sig:
            self.rule("E1", "trait fn %s (declaration)  <- %s:%d" % (path, sf.rel, rec["line"]))
        elif external_body or drop_body:
            self.stubs.append(rec)
            self.rule("stub", "%s: body replaced by unimplemented!() (external_body; contract assumed)  <- %s:%d" % (path, sf.rel, rec["line"]))
        else:
            self.functions.append(rec)
            self.rule("E1", "fn %s  <- %s:%d" % (path, sf.rel, rec["line"]))
        return it

    def _ghost_call_edits(self, sf, it, lo, hi, anchor, ordinal, extra, path):
        """E4: append ghost argument text to call(s) of `anchor` (method name or path text) inside [lo,hi)."""
        def callee_name(c):
            t = c["callee"].replace(" ", "")
            return t
        calls = [c for c in it["calls"] if lo <= c["span"][0] and c["span"][1] <= hi
                 and (callee_name(c) == anchor or callee_name(c).endswith("::" + anchor) or callee_name(c).endswith("." + anchor))]
        calls.sort(key=lambda c: c["callee_span"][0])
        if ordinal == "all":
            sel = calls
            if not sel:
                raise Undecided("%s: no call of %r found for ghost argument" % (path, anchor))
        elif ordinal is None:
            if len(calls) != 1:
                raise Undecided("%s: ghost call anchor %r matches %d calls" % (path, anchor, len(calls)))
            sel = calls
        else:
            if ordinal >= len(calls):
                raise Undecided("%s: ghost call anchor %r ordinal %d not found" % (path, anchor, ordinal))
            sel = [calls[ordinal]]
        out = []
        for c in sel:
            close = c["span"][1] - 1
            if sf.b[close:close + 1] != b")":
                raise Undecided("%s: call at %r does not end with ')'" % (path, anchor))
            txt = (", " if c["args"] else "") + extra
            j = close - 1
            while sf.b[j:j + 1] in (b" ", b"\n", b"\t", b"\r"):
                j -= 1
            if sf.b[j:j + 1] == b",":
                txt = extra
            out.append((close, close, txt, "rule", "E4"))
            self.rule("E4", "%s: ghost argument at call %r [%s:%d]" % (path, anchor, sf.rel, sf.line_of(c["span"][0])))
        return out

    def _twin_contract(self, ctext):
        # vacuity twin: add 'ensures false' so that the function must FAIL
        if re.search(r"\bensures\b", ctext):
            # append a clause to the ensures list: find the end of ensures section (before 'decreases' if after)
            m = re.search(r"\bensures\b", ctext)
            return ctext[:m.end()] + " false /*@TWIN*/," + ctext[m.end():]
        # place before decreases if any
        m = re.search(r"\bdecreases\b", ctext)
        if m:
            return ctext[:m.start()] + " ensures false /*@TWIN*/,\n" + ctext[m.start():]
        return ctext + " ensures false /*@TWIN*/,\n"

    def _e9(self, sf, it, lo, hi, e, path):
        anchor, ordinal, params, args, ret_type, stub_contract = e[:6]
        opts = e[6] if len(e) > 6 else {}
        spans = []
        if isinstance(anchor, (tuple, list)):
            # anchor given as a byte span computed from the syn index (calls / closures / matches)
            a, b = anchor
            if not (lo <= a <= b <= hi):
                raise Undecided("%s: E9 span outside the function body" % path)
            anchor = sf.s(a, b)
            spans = [(a, b)]
        elif ordinal == "all":
            body = sf.s(lo, hi)
            for m in re.finditer(re.escape(anchor), body):
                # token boundary: do not match inside a longer identifier
                nxt = body[m.end():m.end() + 1]
                if nxt and (nxt.isalnum() or nxt == "_"):
                    continue
                a = lo + len(body[:m.start()].encode("utf-8"))
                spans.append((a, a + len(anchor.encode("utf-8"))))
            if not spans and not opts.get("optional"):
                raise Undecided("anchor %r matches 0 places in %s (%s)" % (anchor, sf.rel, path))
        else:
            spans = [self.find_anchor(sf, lo, hi, anchor, ordinal, path)]
        if not spans:
            return []
        name = opts.get("name")
        if not name:
            self.e9_n += 1
            name = "vx_e9_%s_%d" % (re.sub(r"\W+", "_", it["name"]), self.e9_n)
        is_async = opts.get("is_async", False)
        body_text = opts.get("body") or (opts.get("body_prefix", "") + anchor + opts.get("body_suffix", ""))
        wrap = opts.get("wrap")  # E11
        if wrap:
            body_text = "%s(%s)" % (wrap, body_text)
        stub = "#[verifier::external_body]\npub %sfn %s%s(%s)%s\n%s\n{ %s }\n" % (
            "async " if is_async else "", name, opts.get("generics", ""), params,
            (" -> (r: %s)" % ret_type) if ret_type else "", stub_contract.rstrip(), body_text)
        if name not in self._e9_names:
            self._e9_names[name] = stub
            if opts.get("local") and self._local_stub_stack:
                self._local_stub_stack[-1].append(stub)
            else:
                self.e9_stubs.append(stub)
        elif self._e9_names[name] != stub:
            raise Undecided("E9 stub %s defined twice with different text" % name)
        rid = "E11" if wrap else "E9"
        call = "%s(%s)%s" % (name, args, ".await" if is_async and not opts.get("no_await") else "")
        if opts.get("prefix"):
            call = opts["prefix"] + call
        if opts.get("replacement"):
            # statement-range redirection: the removed statements become the stub's body, the site gets this text
            call = opts["replacement"].replace("$CALL", call)
        out = []
        for (a, b) in spans:
            self.holes.append((sf.rel, a, b))   # text moved into an external_body stub: not seen by the verifier
            self.rule(rid, "%s: `%s` -> %s(%s)  [%s:%d]" % (path, anchor if len(anchor) < 80 else anchor[:77] + "...", name, args, sf.rel, sf.line_of(a)))
            out.append((a, b, call, "rule", rid))
        return out

    @staticmethod
    def parse_format_macro(text):
        """text = 'format!( "lit", a, b )' -> (segments, [arg texts]); only `{}` placeholders are supported"""
        i = text.index("(")
        j = text.rindex(")")
        inner = text[i + 1:j]
        k = 0
        while inner[k] in " \n\t\r":
            k += 1
        if inner[k] != '"':
            raise Undecided("format! literal is not a plain string literal")
        k += 1
        lit = []
        while True:
            ch = inner[k]
            if ch == "\\":
                nx = inner[k + 1]
                lit.append({"n": "\n", "t": "\t", "\\": "\\", '"': '"', "r": "\r", "0": "\0", "'": "'"}.get(nx))
                if lit[-1] is None:
                    raise Undecided("unsupported escape in format! literal")
                k += 2
                continue
            if ch == '"':
                k += 1
                break
            lit.append(ch)
            k += 1
        lit = "".join(lit)
        rest = inner[k:]
        # split args on top-level commas
        args, depth, cur, instr = [], 0, "", False
        for ch in rest:
            if instr:
                cur += ch
                if ch == '"':
                    instr = False
                continue
            if ch == '"':
                instr = True
                cur += ch
            elif ch in "([{":
                depth += 1
                cur += ch
            elif ch in ")]}":
                depth -= 1
                cur += ch
            elif ch == "," and depth == 0:
                args.append(cur.strip())
                cur = ""
            else:
                cur += ch
        if cur.strip():
            args.append(cur.strip())
        args = [a for a in args if a]
        segs, cur, n = [], "", 0
        k = 0
        while k < len(lit):
            if lit.startswith("{{", k):
                cur += "{"
                k += 2
            elif lit.startswith("}}", k):
                cur += "}"
                k += 2
            elif lit.startswith("{}", k):
                segs.append(cur)
                cur = ""
                n += 1
                k += 2
            elif lit[k] in "{}":
                raise Undecided("format! literal uses a placeholder other than {}")
            else:
                cur += lit[k]
                k += 1
        segs.append(cur)
        if n != len(args):
            raise Undecided("format!: %d placeholders, %d arguments" % (n, len(args)))
        return segs, args

    def _e6(self, sf, it, e, path):
        """E6: after `let VAR = format!(LIT, args..)` emit assume(VAR@ == lit0 + spec(arg0) + lit1 ...), generated
        from the literal in the tree. e = (var, ordinal|None, [spec expression per argument])"""
        var, ordinal, argspecs = e
        cands = []
        for l in it["lets"]:
            if sf.s(l["pat"][0], l["pat"][1]).split(":")[0].strip() == var and l["init"] is not None:
                t = sf.s(l["init"][0], l["init"][1]).lstrip()
                if t.startswith("format!"):
                    cands.append(l)
        if ordinal is None and len(cands) != 1 or ordinal is not None and ordinal >= len(cands):
            raise Undecided("%s: E6 anchor `let %s = format!(..)` found %d times" % (path, var, len(cands)))
        l = cands[ordinal or 0]
        segs, args = self.parse_format_macro(sf.s(l["init"][0], l["init"][1]))
        if len(argspecs) != len(args):
            raise Undecided("%s: E6 for %s: contract gives %d argument specs, format! has %d arguments" % (path, var, len(argspecs), len(args)))

        def q(x):
            return '"' + x.replace("\\", "\\\\").replace('"', '\\"').replace("\n", "\\n") + '"@'
        parts = []
        for i, sg in enumerate(segs):
            parts.append(q(sg))
            if i < len(args):
                parts.append("(" + argspecs[i].replace("$", args[i]) + ")")
        pos = l["span"][1]
        if sf.b[pos:pos + 1] == b";":
            pos += 1
        txt = "\nproof { assume(%s@ == %s); } // E6 (generated from the literal in the tree)\n" % (var, " + ".join(parts))
        self.rule("E6", "%s: let %s = format!(..) at %s:%d: value assumed to be the literal's segments with %d displayed arguments" % (path, var, sf.rel, sf.line_of(l["span"][0]), len(args)))
        return [(pos, pos, txt, "rule", "E6")]

    def flush_e9(self):
        for s in self.e9_stubs:
            self.emit(s, "rule", "E9")
        self.e9_stubs = []

    # ---- E5 slices -------------------------------------------------------
    def slice_fn(self, sf, path, name, lo, hi, params, ret_type="", contract="", is_async=False, pre_body="",
                 replacements=(), hints=(), e9=(), tail="", what="", ghost_calls=()):
        """turn the byte range [lo,hi) of function `path` into the body of a generated fn `name`.
        replacements: [(anchor, ordinal, new_text)] limited to `continue`->`return` style control rewrites (E5)."""
        it = sf.item(path, "fn")
        edits = []
        for (anchor, ordinal, new) in replacements:
            if ordinal == "all":
                body = sf.s(lo, hi)
                for m in re.finditer(re.escape(anchor), body):
                    a = lo + len(body[:m.start()].encode())
                    edits.append((a, a + len(anchor.encode()), new, "rule", "E5"))
            else:
                a, b = self.find_anchor(sf, lo, hi, anchor, ordinal, path)
                edits.append((a, b, new, "rule", "E5"))
        for h in hints:
            anchor, ordinal, where, text = h
            a, b = self.find_anchor(sf, lo, hi, anchor, ordinal, path)
            st = self.enclosing_stmt(it, a)
            pos = st[0] if where == "before" else st[1]
            if where == "after" and sf.b[pos:pos + 1] == b";":
                pos += 1
            edits.append((pos, pos, "\n" + text.rstrip() + "\n", "contract", "E7"))
        for e in e9:
            edits += self._e9(sf, it, lo, hi, e, path + "[" + name + "]")
        for (anchor, ordinal, extra) in ghost_calls:
            edits += self._ghost_call_edits(sf, it, lo, hi, anchor, ordinal, extra, path)
        # statement-level cfg
        for e in self._cfg_stmt_edits(sf, it):
            if lo <= e[0] and e[1] <= hi:
                edits.append(e)
        e14 = _underscore_assign_edits(sf, lo, hi)
        if e14:
            edits += e14
            self.rule("E14", "%s[%s]: %d statement(s) `_ = e;` written `let _ = e;`" % (path, name, len(e14)))
        ctext = ("\n" + contract.rstrip() + "\n") if contract.strip() else ""
        if self.twin:
            pre_body = pre_body.rstrip() + "\nproof { assert(false); } // @TWIN\n"
        head = "pub %sfn %s(%s)%s%s{\n%s" % ("async " if is_async else "", name, params,
                                            (" -> (r: %s)" % ret_type) if ret_type else "", ctext, pre_body)
        self.emit(head, "rule", "E5", fn=path + "[" + name + "]")
        self.pieces += apply_edits(sf, lo, hi, edits, fn=path + "[" + name + "]")
        self.emit("\n" + tail + "}\n", "rule", "E5", fn=path + "[" + name + "]")
        line = sf.line_of(lo)
        self.rule("E5", "%s: bytes %d..%d (lines %d..%d) lifted into fn %s(%s) %s" % (path, lo, hi, line, sf.line_of(hi), name, params, what))
        self.functions.append(dict(name=path + "[" + name + "]", rel=sf.rel, line=line, rules=["E5"], gen_name=name,
                                   external_body=False, under_contract=True, opaque_closures=_residual_closures(it, lo, hi, edits)))
        self.covered.append((sf.rel, lo, hi))

    # ---- render -----------------------------------------------------------
    def render(self, header_extra=""):
        self.flush_e9()
        self._resolve_auto_uses()
        body = "".join(p.text for p in self.pieces)
        hdr = ["// GENERATED by /verif/tools/vxlib.py for unit '%s' -- do not edit." % self.name,
               "// Source text is copied byte-for-byte from %s; differences are exactly the rule applications below." % self.repo.root]
        for r in sorted(self.rules):
            hdr.append("// rule %s fired %d time(s)" % (r, len(self.rules[r])))
            for w in self.rules[r]:
                if r not in ("E2",) or "doc" not in w:
                    hdr.append("//    %s: %s" % (r, w))
        # every unit: println!/eprintln! (std::io::_print/_eprint) are console output only; specified centrally so that an edit
        # that adds a console line is decided on its merits instead of being UNDECIDED ("not supported")
        if "print_internals" not in self.features:
            self.features.append("print_internals")
        if "pattern" not in self.features:
            self.features.append("pattern")
        std_print = ("\n// ---- console output (all units) ----\n"
                     "pub assume_specification [std::io::_eprint] (_0: core::fmt::Arguments<'_>);\n"
                     "pub assume_specification [std::io::_print] (_0: core::fmt::Arguments<'_>);\n")
        if "std::io::_eprint]" in body:
            std_print = ""
        body = body + std_print
        # std functions that edits are likely to introduce: NAMED by uninterpreted spec functions (nothing can be proved from
        # them except congruence), added only where the unit does not specify the function itself. With them an edited body is
        # decided on its merits (a clause that would need the function's meaning fails) instead of being UNDECIDED.
        auto = []
        specs = list(AUTO_STD_SPECS)
        if re.search(r"struct\s+\w+\s*\(\s*std::path::Path\s*\)", body):
            # only where the unit knows the type std::path::Path: queries of the path / of the file system, results not constrained
            specs += AUTO_PATH_SPECS
        for (path, sig, ens) in specs:
            if not re.search(r"assume_specification\s*(<[^\[]*>)?\s*\[\s*%s\s*\]" % re.escape(path), body):
                gen = ""
                if sig.startswith("<"):
                    gen, sig = sig[:sig.index(">") + 1], sig[sig.index(">") + 1:].lstrip()
                wh = ""
                if " where " in sig:
                    sig, wh = sig.split(" where ", 1)
                    wh = "\n    where " + wh
                auto.append("pub assume_specification%s [%s] %s%s%s;" % (gen, path, sig, wh, ("\n    ensures %s" % ens) if ens else ""))
        if auto:
            body = body + "\n// ---- std functions named by uninterpreted spec functions (all units, only where not specified by the unit) ----\n" + AUTO_STD_DECLS + "\n".join(auto) + "\n"
        feats = "".join("#![feature(%s)]\n" % f for f in self.features)
        prefix = "\n".join(hdr) + "\n" + feats + "#![allow(unused_imports, unused_variables, dead_code, unused_mut, non_snake_case, unused_assignments, unreachable_code, unused_parens, non_camel_case_types, non_upper_case_globals)]\n" + \
            "use vstd::prelude::*;\n" + header_extra
        ext_text = "".join(p.text for p in self.ext_pieces)
        mid = "verus! {\n"
        suffix = "\n} // verus!\nfn main() {}\n"
        text = prefix + ext_text + mid + body + suffix
        off2piece = []
        pos = len(prefix.encode())
        for p in self.ext_pieces:
            n = len(p.text.encode())
            off2piece.append((pos, pos + n, p))
            pos += n
        pos += len(mid.encode())
        for p in self.pieces:
            n = len(p.text.encode())
            off2piece.append((pos, pos + n, p))
            pos += n
        self._off2piece = off2piece
        self._text = text
        return text

    def locate(self, byte_off):
        """map a byte offset of the generated file to provenance"""
        for (a, b, p) in self._off2piece:
            if a <= byte_off < b:
                d = dict(kind=p.kind, rule=p.rule, fn=p.fn)
                if p.kind == "src":
                    sf = self.repo.files[p.rel]
                    src_off = p.off + (byte_off - a)
                    d.update(rel=p.rel, line=sf.line_of(src_off))
                elif p.rel:
                    sf = self.repo.files[p.rel]
                    d.update(rel=p.rel, line=sf.line_of(p.off))
                return d
        return dict(kind="prelude")

    def fn_at(self, byte_off):
        """name of the extracted function whose generated text contains byte_off"""
        last = None
        for (a, b, p) in self._off2piece:
            if p.fn:
                last = (p.fn, a, b)
            if a <= byte_off < b:
                if p.fn:
                    return p.fn
                # contract piece inside a function: attribute to neighbouring fn piece
                return last[0] if last and byte_off - last[2] < 4000 else None
        return None
