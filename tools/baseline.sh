#!/bin/bash
# run the repository's pinned suite (guard off) and check that every stable_pass test of BASELINE.json passes
cd /repo && CARGO_NET_OFFLINE=true cargo test --workspace --no-fail-fast --offline > /verif/build/baseline.log 2>&1
python3 - <<'PY'
import json,re
b=json.load(open('/root/.vp/BASELINE.json'))
log=open('/verif/build/baseline.log').read()
ok=set(re.findall(r"^test (\S+) \.\.\. ok", log, re.M))
missing=[]
for t in b['stable_pass']:
    name=t.split('::',2)[-1] if '::bin/' in t else t.split('::',1)[-1]
    name=re.sub(r"^bin/[^:]+::","",name)
    if name not in ok: missing.append(t)
print("stable tests passing: %d/%d" % (len(b['stable_pass'])-len(missing), len(b['stable_pass'])))
for m in missing: print("  MISSING", m)
PY
