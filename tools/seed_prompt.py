#!/usr/bin/env python3
"""print the prompt given to an independent sub-agent that seeds a property-breaking change (gets only the property text)"""
import json, sys
pid = sys.argv[1]
variant = sys.argv[2] if len(sys.argv) > 2 else "a"
p = [json.loads(l) for l in open('/verif/properties.jsonl') if json.loads(l)['id'] == pid][0]
wt = "/tmp/seed_%s%s" % (pid, variant)
print(f"""You are testing how robust a Rust code base is against subtle regressions. The repository is Azure/GuestProxyAgent (a Rust service that intercepts metadata-service HTTP traffic via eBPF, authorizes callers against RBAC rules, and HMAC-signs forwarded requests). You get your OWN scratch git worktree of it; first create it:

    git -C /repo worktree add --detach {wt} HEAD

Work ONLY inside {wt} (never edit /repo itself, never look at or touch /verif, never commit to /repo's branches). The sandbox has no network: always use `cargo ... --offline` (CARGO_NET_OFFLINE=true). Use `CARGO_TARGET_DIR={wt}/target`.

Here is a semantic property the code base is supposed to satisfy:

  id: {p['id']} — {p['title']}
  statement: {p['statement']}
  quantified over: {p['quantifier']['text']}
  relevant files: {', '.join(p['anchors']['files'])}

YOUR TASK: produce ONE realistic change to the repository's source (the kind of regression a hurried maintainer or a refactoring could plausibly introduce — not sabotage with an obviously weird marker) that BREAKS this property while (1) the workspace still compiles, and (2) the existing test suite still passes exactly as before. The existing suite is run with `cd {wt} && cargo test --workspace --no-fail-fast --offline` ; note that 7 tests fail already on the unmodified tree (poll_secure_channel_status_tests, provision_state_test, provision_status_tag_file_test, test_authorization_rules_for_logging, direct_request_test, ip_to_string_test, test_event_reader_thread) and logger_manager_test is flaky — those do not count; every test that passes on the unmodified tree must still pass with your change (run the suite before and after and compare the lists of passing tests).
{"Variant hint: make this change DIFFERENT in mechanism and location from the most obvious one — pick a second, less obvious site or mechanism the property depends on." if variant != "a" else ""}
Prefer a change that needs something SPECIFIC to manifest — a particular interleaving, a crash or fault at a particular point, a multi-step sequence of operations, an unusual input (corner-case value, unusual letter case, duplicate or prefix keys, boundary size, uid != gid, saturated counter …), or two cooperating sites that each look fine alone — not one that ordinary use would expose at once.

Also produce a DEMONSTRATION: a test (a `#[test]`/`#[tokio::test]` added in a NEW file or appended test module, or a small program) that FAILS with your change and PASSES without it, exercising the real code. Tip for tests inside the `proxy_agent` binary crate: its clap argument parser reads the test binary's arguments, so name such a test `console_<something>` and run it with `cargo test --offline -p azure-proxy-agent --bin azure-proxy-agent -- --nocapture console` . For C code (linux-ebpf) a demonstration may be a small C program compiled with gcc that includes the file with stubbed helpers.

Deliverables, all written into the directory {wt}/SEED/ (create it):
  - patch.diff : `git -C {wt} diff` of the property-breaking change ONLY (source files, not the demonstration), applicable with `git apply` at the repository root;
  - demo.diff (or demo files) : the demonstration, as a separate patch/file set, plus demo_cmd.txt with the exact command to run it;
  - meta.json : {{"property": "{p['id']}", "summary": "...what the change does...", "needs_to_manifest": "...the specific input/sequence/interleaving...", "files_changed": [...], "existing_tests_before": <n passing>, "existing_tests_after": <n passing>, "demo_fails_with_change": true/false, "demo_passes_without_change": true/false}}

Verify everything yourself: build, run the whole suite before/after, run the demo with and without the change. When done, leave the worktree in place with the change applied and the SEED directory filled, and reply with a short summary (what you changed, where, why it breaks the property, what it needs to manifest, and the verification results). Do not delete the worktree.""")
