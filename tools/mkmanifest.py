#!/usr/bin/env python3
"""regenerate /verif/MANIFEST.json from contracts/registry.py"""
import json, os, sys
HERE = os.path.dirname(os.path.abspath(__file__))
VERIF = os.path.dirname(HERE)
sys.path.insert(0, HERE)
import check
reg = check.load_registry()
props = [json.loads(l) for l in open(os.path.join(VERIF, "properties.jsonl"))]
checks, na = [], []
for p in props:
    pid = p["id"]
    if pid in reg.PROPERTIES:
        i = reg.PROPERTIES[pid]
        checks.append(dict(
            property_id=pid,
            quick_cmd="./check %s --tier quick" % pid,
            thorough_cmd="./check %s --tier thorough" % pid,
            evidence_file="/verif/evidence/%s.json" % pid,
            replay_cmd_template="./check %s --replay {path}" % pid,
            engine="+".join(sorted(set(reg.UNITS[u]["engine"] for u in i["units"]))),
            level_claimed=dict(category=i.get("category", "proof"), text=i["level_text"], design_ref=i.get("design_ref", "DESIGN.md")),
            level_note=i["level_note"],
            technique=i["technique"],
        ))
    elif pid in reg.NOT_APPLICABLE:
        na.append(dict(property_id=pid, reason=reg.NOT_APPLICABLE[pid]))
    else:
        na.append(dict(property_id=pid, reason=reg.NOT_YET))
engines = []
for u, d in reg.UNITS.items():
    engines.append(dict(name=u, path="contracts/%s" % u if d["engine"] == "verus" else d.get("path", "contracts/%s" % u),
                        serves_properties=d["serves"], kind_free_text=d.get("kind", "%s unit: contracts on functions extracted from /repo on every run" % d["engine"])))
m = dict(
    version=1,
    setup_cmd="./setup.sh",
    hooks=dict(guard="azure_guestproxyagent_verif", enable="none needed: extraction reads /repo's working tree; no hook commits",
               baseline_off_cmd="cd /repo && cargo test --workspace --no-fail-fast --offline", source_commits=[], add_only=True),
    engines=engines,
    checks=checks,
    not_applicable=na,
    notes="Contract-based deductive verification of the real code: see DESIGN.md. On an edited tree where the proof can no longer be re-established (restructured function, lost anchor, unsupported construct) the check falls back to the property's bounded witness generators (witness/*.rs, compiled into a scratch copy of the tree): a concrete failing input is a VIOLATION (exit 1), a complete run without contradiction prints PROOF-UNDECIDED + OK-BOUNDED and exits 0 with evidence level `exploration` (nothing claimed proved), anything else exits 2 = UNDECIDED. Exit 2 never occurs on the unchanged tree. Checks may run concurrently.",
)
json.dump(m, open(os.path.join(VERIF, "MANIFEST.json"), "w"), indent=1)
print("MANIFEST.json: %d checks, %d not_applicable" % (len(checks), len(na)))
