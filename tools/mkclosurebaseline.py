#!/usr/bin/env python3
"""contracts/closure_baseline.json: per unit and function under contract, the number of closures left verbatim in the verified
body ON THE PINNED TREE (/repo as committed). Those closures are irrelevant to the proofs (the proofs go through). check.py
treats a failed obligation as not decided by the proof only when the function under test has MORE un-annotated closures than
recorded here (the edit introduced a closure the verifier cannot see through). Regenerate after changing a unit: python3 tools/mkclosurebaseline.py"""
import json, os, sys
sys.path.insert(0, os.path.dirname(os.path.abspath(__file__)))
sys.path.insert(0, os.path.join(os.path.dirname(os.path.dirname(os.path.abspath(__file__))), "contracts"))
import check, registry as reg
from vxlib import Repo
out = {}
for un, info in sorted(reg.UNITS.items()):
    if info["engine"] != "verus":
        continue
    mod, u, text, path = check.build_unit(un, False, Repo("/repo"))
    out[un] = {f["name"]: f.get("opaque_closures", 0) for f in u.functions if f.get("opaque_closures")}
check.publish_rundir()
json.dump(out, open(os.path.join(check.VERIF, "contracts", "closure_baseline.json"), "w"), indent=1, sort_keys=True)
print({k: len(v) for k, v in out.items() if v})
