"""Non-Verus back ends. check.py calls run_unit(name, unitinfo, tier, seed, pid) and expects the same
result dictionary shape as check.run_verus_unit:

  dict(unit=<name>, engine='cbmc'|'kani'|'cbmc+kani',
       failures=[dict(label='C06.connect4.logon_id_is_uid', fn='connect4', msg=<back-end message>,
                      src='linux-ebpf/ebpf_cgroup.c:75' or None, clause=<clause text>, rendered=<back-end output excerpt>,
                      counterexample=<dict of input values or None>)],
       undecided=[<reason string>...],         # tool/anchor/type problems: never an alarm
       functions=[dict(name=, rel=, line=, rules=[...])],   # real functions under contract
       stubs=[], obligations=<int, counted by the back end>, discharged=<int>,
       solver_s=<float>, wall_s=<float>, trusted=[<assumption strings>], rules={}, samples=[<str>...],
       cmds=[<command lines run>], bounded=[dict(harness=, bound=, result=)], assumptions=[...], extra={...})
"""
import importlib.util
import os

HERE = os.path.dirname(os.path.abspath(__file__))
VERIF = os.path.dirname(HERE)


def _load(name, info):
    p = os.path.join(VERIF, info["path"], "engine.py")
    spec = importlib.util.spec_from_file_location("engine_" + name, p)
    m = importlib.util.module_from_spec(spec)
    spec.loader.exec_module(m)
    return m


def covered_files(name, info):
    """source files that the engine takes in as a WHOLE (every byte is under its contracts)"""
    return list(getattr(_load(name, info), "COVERED_FILES", []))


def run_unit(name, info, tier, seed, pid):
    p = os.path.join(VERIF, info["path"], "engine.py")
    spec = importlib.util.spec_from_file_location("engine_" + name, p)
    m = importlib.util.module_from_spec(spec)
    spec.loader.exec_module(m)
    # one run of an engine at a time per tree under test: the engines keep their generated crates / goto binaries / cargo target
    # in a work directory keyed by the tree, and two concurrent checks (e.g. C13 and C14 both run panic_bytes, or the quick and
    # the thorough command of one property) must not build into it at the same time
    import fcntl
    import hashlib
    tag = hashlib.sha1(os.path.abspath(os.environ.get("VERIF_REPO", "/repo")).encode()).hexdigest()[:8]
    ld = os.path.join(VERIF, "build", "locks")
    os.makedirs(ld, exist_ok=True)
    with open(os.path.join(ld, "%s_%s.lock" % (name, tag)), "w") as lk:
        fcntl.flock(lk, fcntl.LOCK_EX)
        try:
            r = m.run(tier=tier, seed=seed, pid=pid)
            r["covered_files"] = list(getattr(m, "COVERED_FILES", []))
            return r
        finally:
            fcntl.flock(lk, fcntl.LOCK_UN)
