#!/usr/bin/env python3
"""for every seeded change: does the bounded witness ALONE (no proof side) find a failing input? -> seeded/witness_only.json"""
import glob, json, os, subprocess, sys, shutil
VERIF = os.path.dirname(os.path.dirname(os.path.abspath(__file__)))
out = os.path.join(VERIF, "seeded", "witness_only.json")
res = json.load(open(out)) if os.path.exists(out) else {}
only = sys.argv[1:]
for d in sorted(glob.glob(os.path.join(VERIF, "seeded", "C*"))):
    sid = os.path.basename(d)
    if (only and sid not in only) or (not only and sid in res):
        continue
    pid = sid[:3]
    S = "/var/tmp/wo.%s" % sid
    shutil.rmtree(S, ignore_errors=True)
    os.makedirs(S)
    subprocess.run(["rsync", "-a", "--exclude", "target", "--exclude", ".git", "/repo/", S + "/repo/"], check=True)
    p = subprocess.run("patch -p1 -s < %s/patch.diff" % d, shell=True, cwd=S + "/repo")
    if p.returncode != 0:
        res[sid] = dict(error="patch failed")
    else:
        r = subprocess.run([sys.executable, os.path.join(VERIF, "tools", "witness.py"), pid, S + "/repo"], capture_output=True, text=True)
        summ = [l for l in r.stdout.splitlines() if l.startswith("SUMMARY")]
        res[sid] = dict(rc=r.returncode, summary=summ)
    shutil.rmtree(S, ignore_errors=True)
    json.dump(res, open(out, "w"), indent=1, sort_keys=True)
    print(sid, res[sid], flush=True)
