#!/usr/bin/env python3
"""false-alarm test: apply every semantics-preserving patch under harmless/<group>/hN.diff (made by independent sub-agents that
never saw /verif) to a scratch copy and run the quick checks of ALL properties against it. A VIOLATION is a false alarm.
usage: harmless_report.py [--witness] [group/hN ...]     (default: proof side only, VERIF_NO_WITNESS=1)"""
import glob, json, os, re, subprocess, sys, concurrent.futures
VERIF = os.path.dirname(os.path.dirname(os.path.abspath(__file__)))
PROPS = ["C%02d" % i for i in range(1, 21) if i != 12]


def run(patch, props, witness):
    env = dict(os.environ)
    if not witness:
        env["VERIF_NO_WITNESS"] = "1"
    pr = subprocess.run([os.path.join(VERIF, "tools", "mutest.sh"), patch] + props, capture_output=True, text=True, env=env)
    res = {}
    cur = None
    for line in pr.stdout.splitlines():
        m = re.match(r"== (C\d+) rc=(\d+)", line)
        if m:
            cur = m.group(1)
            res[cur] = dict(rc=int(m.group(2)), lines=[])
        elif cur and re.match(r"VIOLATION|UNDECIDED|PROOF-UNDECIDED|OK-BOUNDED", line):
            res[cur]["lines"].append(line[:300])
    return res


def main():
    witness = "--witness" in sys.argv
    only = [a for a in sys.argv[1:] if not a.startswith("--")]
    jobs = []
    for p in sorted(glob.glob(os.path.join(VERIF, "harmless", "*", "h*.diff"))):
        key = os.path.relpath(p, os.path.join(VERIF, "harmless"))[:-5]
        if only and key not in only:
            continue
        txt = open(p).read()
        props = [x for x in PROPS if x != "C06" or re.search(r"linux-ebpf|redirector", txt)]
        jobs.append((key, p, props))
    out = os.path.join(VERIF, "harmless", "results.json")
    allres = json.load(open(out)) if os.path.exists(out) else {}
    with concurrent.futures.ThreadPoolExecutor(5) as ex:
        futs = {ex.submit(run, p, props, witness): key for (key, p, props) in jobs}
        for f in concurrent.futures.as_completed(futs):
            key = futs[f]
            r = f.result()
            allres[key] = {k: dict(verdict={0: "OK", 1: "VIOLATION", 2: "UNDECIDED"}.get(v["rc"], "?"), lines=v["lines"][:4]) for k, v in r.items()}
            bad = [k for k, v in r.items() if v["rc"] == 1]
            und = [k for k, v in r.items() if v["rc"] == 2 or any(l.startswith("PROOF-UNDECIDED") for l in v["lines"])]
            print("%-8s VIOLATION(false alarm): %s   undecided: %s" % (key, ",".join(bad) or "-", ",".join(und) or "-"), flush=True)
            json.dump(allres, open(out, "w"), indent=1, sort_keys=True)


if __name__ == "__main__":
    main()
