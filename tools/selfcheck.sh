#!/bin/bash
# run before every commit: every quick check must PROVE its property on the unchanged tree (last line `OK property=...`);
# OK-BOUNDED / UNDECIDED / VIOLATION on the unchanged tree = broken machinery.   usage: tools/selfcheck.sh [--fast]  (--fast skips C06)
cd /verif || exit 2
bad=0
for p in C01 C02 C03 C04 C05 C06 C07 C08 C09 C10 C11 C13 C14 C15 C16 C17 C18 C19 C20; do
  if [ "$1" = "--fast" ] && [ "$p" = "C06" ]; then continue; fi
  o=$(./check "$p" 2>&1 | grep -v conda)
  if echo "$o" | grep -q "^note: property="; then echo "BASELINE STALE: $p consulted the witnesses on the unchanged tree (run tools/mkcoverbaseline.py)"; bad=1; fi
  l=$(echo "$o" | grep -v "^KNOWN-FINDING" | tail -1)
  case "$l" in
    "OK property="*) ;;
    *) echo "NOT PROVED: $p: ${l:0:200}"; bad=1 ;;
  esac
  # the evidence record of a proof must have every claimed obligation discharged (an ignored format!-Display precondition once left 4 open)
  python3 - "$p" <<'PY' || bad=1
import json, sys
d = json.load(open("/verif/evidence/%s.json" % sys.argv[1]))
c = d["coverage"]
if d["level"] == "proof" and c["discharged"] != c["obligations"]:
    print("EVIDENCE INCONSISTENT: %s discharged %s of %s obligations" % (sys.argv[1], c["discharged"], c["obligations"]))
    sys.exit(1)
PY
done
[ "$bad" = 0 ] && echo "selfcheck: all proved"
exit $bad
