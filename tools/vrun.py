#!/usr/bin/env python3
"""dev aid: vrun.py FILE.rs [verus args]  -- run verus on a generated unit with the extdeps externs"""
import sys, os, subprocess
sys.path.insert(0, os.path.dirname(os.path.abspath(__file__)))
import check, vxlib
u = vxlib.Unit("x")
cmd = ["verus", sys.argv[1], "--triggers-mode", "silent"] + check.externs_for(u) + sys.argv[2:]
sys.exit(subprocess.run(cmd).returncode)
