/* model.h -- abstract state + ASSUMED helper semantics for linux-ebpf/ebpf_cgroup.c.
 *
 * Included AFTER the unmodified ebpf_cgroup.c by every generated harness, both by the CBMC harnesses
 * (goto-cc, symbolic) and by the gcc replay program (-DREPLAY, executable).  One text, two uses, so the
 * model the proof is relative to is the model the counterexample is replayed against.
 *
 * Abstract state: per map ONE cell (present, key, value), fully symbolic at entry.  A hook invocation
 * touches at most one key per map; the model checks that (MODEL_LIMIT) instead of assuming it.  Every
 * other entry of the real kernel map is untouched because the documented helpers only affect the key
 * they are given -- that is the helper contract assumed here.
 *
 * Assumed helper contracts (Linux bpf-helpers(7)):
 *   bpf_map_lookup_elem(map,key)   -> pointer to the value stored under key, or NULL
 *   bpf_map_update_elem(map,k,v,0) -> stores v under k (insert or overwrite), returns 0
 *   bpf_map_delete_elem(map,k)     -> removes k, 0 / -ENOENT
 *   bpf_get_current_uid_gid()      -> gid << 32 | uid
 *   bpf_get_current_pid_tgid()     -> tgid << 32 | pid
 *   bpf_probe_read(dst,n,src)      -> copies n bytes of kernel memory, 0 / negative errno
 */
#ifndef C06_MODEL_H
#define C06_MODEL_H

struct cell_pol  { _Bool present; destination_entry key, val; };
struct cell_skip { _Bool present; sock_addr_skip_process_entry key, val; };
struct cell_loc  { _Bool present; __u64 key; sock_addr_local_entry val; };
struct cell_aud  { _Bool present; sock_addr_audit_key key; sock_addr_audit_entry val; };

struct world {
  struct bpf_sock_addr ctx;      /* the connect4 context object                         */
  struct cell_pol  pol;          /* policy_map                                          */
  struct cell_skip skip;         /* skip_process_map                                    */
  struct cell_loc  loc;          /* local_map                                           */
  struct cell_aud  aud;          /* audit_map                                           */
  __u64 pid_tgid, uid_gid;       /* what the current-task helpers return                */
  __u64 cookie;
  struct sock_common skc;        /* kernel socket the kprobe argument points to         */
  _Bool probe_ok;                /* whether bpf_probe_read succeeds                     */
};

/* ghost: which key of each map this invocation already touched (one-cell model limit) */
struct ghost {
  _Bool pol_t, skip_t, loc_t, aud_t;
  destination_entry pol_k; __u32 skip_k; __u64 loc_k; sock_addr_audit_key aud_k;
};

#ifdef REPLAY
#include <stdio.h>
#include <stdlib.h>
#include <string.h>
struct world W0, PRE0; struct world *Wp = &W0;
#define W (*Wp)
/* OLD(e): evaluate e in the snapshot taken before the hook ran (Wp is shadowed) */
#define OLD(e) ({ struct world *Wp = &PRE0; (void)Wp; (e); })
const char *ASSUME_VIOLATED = 0; const char *MODEL_LIMIT_HIT = 0;
#define MODEL_ASSUME(c, why)  do { if (!(c)) ASSUME_VIOLATED = (why); } while (0)
#define MODEL_LIMIT(c, msg)   do { if (!(c)) MODEL_LIMIT_HIT = (msg); } while (0)
#define VAC_POINT(s)          ((void)0)
#else
struct world W;
#define OLD(e) __CPROVER_old(e)
#define MODEL_ASSUME(c, why)  __CPROVER_assume(c)
#define MODEL_LIMIT(c, msg)   __CPROVER_assert((c), "model-limit: " msg)
#ifdef VACUITY_TWIN
#define VAC_POINT(s)          __CPROVER_assert(0, "vacuity: " s)
#else
#define VAC_POINT(s)          ((void)0)
#endif
#endif

#define CTX  (W.ctx)
#define POL  (W.pol)
#define SKIP (W.skip)
#define LOC  (W.loc)
#define AUD  (W.aud)
#define SKC  (W.skc)
struct ghost GH;
struct probe_sock SK_OBJ;       /* address handed to the kprobe; never dereferenced directly by BPF code */

#define IMPLIES(a, b) (!(a) || (b))

static _Bool dest_eq(const destination_entry *a, const destination_entry *b) {
  return a->destination_ip.ipv6[0] == b->destination_ip.ipv6[0] && a->destination_ip.ipv6[1] == b->destination_ip.ipv6[1] &&
         a->destination_ip.ipv6[2] == b->destination_ip.ipv6[2] && a->destination_ip.ipv6[3] == b->destination_ip.ipv6[3] &&
         a->destination_port == b->destination_port && a->protocol == b->protocol; }

/* ---- one-key-per-map bookkeeping ---- */
static void touch_pol(const destination_entry *k) {
  /* ASSUMPTION (union tail): map keys built on the BPF stack are fully initialised.  ISO C leaves the bytes of
     the ip_address union beyond .ipv4 indeterminate after `= {0}` (CBMC models that); clang zero-fills and the
     in-kernel verifier rejects programs that pass uninitialised stack bytes as a key. */
  MODEL_ASSUME(k->destination_ip.ipv6[1] == 0 && k->destination_ip.ipv6[2] == 0 && k->destination_ip.ipv6[3] == 0, "union tail of policy key not zero");
  VAC_POINT("after union-tail assume in policy lookup");
  MODEL_LIMIT(!GH.pol_t || dest_eq(k, &GH.pol_k), "second key on policy_map in one invocation");
  GH.pol_t = 1; GH.pol_k = *k; }
static void touch_skip(__u32 k) { MODEL_LIMIT(!GH.skip_t || GH.skip_k == k, "second key on skip_process_map in one invocation"); GH.skip_t = 1; GH.skip_k = k; }
static void touch_loc(__u64 k)  { MODEL_LIMIT(!GH.loc_t || GH.loc_k == k, "second key on local_map in one invocation"); GH.loc_t = 1; GH.loc_k = k; }
static void touch_aud(const sock_addr_audit_key *k) {
  MODEL_LIMIT(!GH.aud_t || (GH.aud_k.protocol == k->protocol && GH.aud_k.source_port == k->source_port), "second key on audit_map in one invocation");
  GH.aud_t = 1; GH.aud_k = *k; }
static void ghost_reset(void) { GH.pol_t = 0; GH.skip_t = 0; GH.loc_t = 0; GH.aud_t = 0; }

/* ---- helper model ---- */
void *bpf_map_lookup_elem(void *map, const void *key) {
  if (map == (void *)&policy_map) { touch_pol((const destination_entry *)key);
    return (POL.present && dest_eq((const destination_entry *)key, &POL.key)) ? (void *)&POL.val : NULL; }
  if (map == (void *)&skip_process_map) { __u32 k = ((const sock_addr_skip_process_entry *)key)->pid; touch_skip(k);
    return (SKIP.present && SKIP.key.pid == k) ? (void *)&SKIP.val : NULL; }
  if (map == (void *)&local_map) { __u64 k = *(const __u64 *)key; touch_loc(k);
    return (LOC.present && LOC.key == k) ? (void *)&LOC.val : NULL; }
  if (map == (void *)&audit_map) { const sock_addr_audit_key *k = (const sock_addr_audit_key *)key; touch_aud(k);
    return (AUD.present && AUD.key.protocol == k->protocol && AUD.key.source_port == k->source_port) ? (void *)&AUD.val : NULL; }
  MODEL_LIMIT(0, "lookup on an object that is not one of the four maps"); return NULL; }

/* flags as documented for bpf_map_update_elem: BPF_ANY(0) create or update; BPF_NOEXIST(1) create only, -EEXIST(-17) if the key
   exists; BPF_EXIST(2) update only, -ENOENT(-2) if it does not. `has` = the map holds an element under exactly this key. */
#define UPD_FLAGS(has) do { MODEL_LIMIT(flags <= 2, "update flags other than BPF_ANY / BPF_NOEXIST / BPF_EXIST"); \
    if (flags == 1 && (has)) return -17; if (flags == 2 && !(has)) return -2; } while (0)
long bpf_map_update_elem(void *map, const void *key, const void *value, __u64 flags) {
  /* A write to a map is a write to its cell; whether the hook MAY write it is decided by the assigns clause
     of the contract (label .frame), not here. */
  if (map == (void *)&local_map) { touch_loc(*(const __u64 *)key);
    UPD_FLAGS(LOC.present && LOC.key == *(const __u64 *)key);
    LOC.present = 1; LOC.key = *(const __u64 *)key; LOC.val = *(const sock_addr_local_entry *)value; return 0; }
  if (map == (void *)&audit_map) { touch_aud((const sock_addr_audit_key *)key);
    UPD_FLAGS(AUD.present && AUD.key.protocol == ((const sock_addr_audit_key *)key)->protocol && AUD.key.source_port == ((const sock_addr_audit_key *)key)->source_port);
    AUD.present = 1; AUD.key = *(const sock_addr_audit_key *)key; AUD.val = *(const sock_addr_audit_entry *)value; return 0; }
  if (map == (void *)&policy_map) { touch_pol((const destination_entry *)key);
    UPD_FLAGS(POL.present && dest_eq((const destination_entry *)key, &POL.key));
    POL.present = 1; POL.key = *(const destination_entry *)key; POL.val = *(const destination_entry *)value; return 0; }
  if (map == (void *)&skip_process_map) { touch_skip(((const sock_addr_skip_process_entry *)key)->pid);
    UPD_FLAGS(SKIP.present && SKIP.key.pid == ((const sock_addr_skip_process_entry *)key)->pid);
    SKIP.present = 1; SKIP.key = *(const sock_addr_skip_process_entry *)key; SKIP.val = *(const sock_addr_skip_process_entry *)value; return 0; }
  MODEL_LIMIT(0, "update on an object that is not one of the four maps"); return -1; }

long bpf_map_delete_elem(void *map, const void *key) {
  if (map == (void *)&local_map) { __u64 k = *(const __u64 *)key; touch_loc(k);
    if (LOC.present && LOC.key == k) { LOC.present = 0; return 0; } return -2; }
  if (map == (void *)&audit_map) { const sock_addr_audit_key *k = (const sock_addr_audit_key *)key; touch_aud(k);
    if (AUD.present && AUD.key.protocol == k->protocol && AUD.key.source_port == k->source_port) { AUD.present = 0; return 0; } return -2; }
  if (map == (void *)&policy_map) { touch_pol((const destination_entry *)key);
    if (POL.present && dest_eq((const destination_entry *)key, &POL.key)) { POL.present = 0; return 0; } return -2; }
  if (map == (void *)&skip_process_map) { __u32 k = ((const sock_addr_skip_process_entry *)key)->pid; touch_skip(k);
    if (SKIP.present && SKIP.key.pid == k) { SKIP.present = 0; return 0; } return -2; }
  MODEL_LIMIT(0, "delete on an object that is not one of the four maps"); return -1; }

__u64 bpf_get_current_pid_tgid(void) { return W.pid_tgid; }   /* tgid << 32 | pid */
__u64 bpf_get_current_uid_gid(void)  { return W.uid_gid; }    /* gid  << 32 | uid */
__u64 bpf_get_socket_cookie(void *c) { return W.cookie; }
long bpf_probe_read(void *dst, __u32 n, const void *src) {
  MODEL_LIMIT(n == sizeof(struct sock_common), "bpf_probe_read with a size other than sizeof(struct sock_common)");
  MODEL_LIMIT(src == (const void *)&SK_OBJ.__sk_common, "bpf_probe_read from an address other than &sk->__sk_common");
  if (!W.probe_ok) return -14;
  *(struct sock_common *)dst = SKC; return 0; }

/* ---- all symbolic inputs, flat, in ONE object so they are easy to find in a counterexample trace ---- */
#define INPUT_FIELDS(X) \
  X(__u32, ctx_user_family) X(__u32, ctx_user_ip4) X(__u32, ctx_user_ip6_0) X(__u32, ctx_user_ip6_1) X(__u32, ctx_user_ip6_2) X(__u32, ctx_user_ip6_3) \
  X(__u32, ctx_user_port) X(__u32, ctx_family) X(__u32, ctx_type) X(__u32, ctx_protocol) X(__u32, ctx_msg_src_ip4) \
  X(__u32, ctx_msg_src_ip6_0) X(__u32, ctx_msg_src_ip6_1) X(__u32, ctx_msg_src_ip6_2) X(__u32, ctx_msg_src_ip6_3) \
  X(__u32, uid) X(__u32, gid) X(__u32, pid) X(__u32, tgid) X(__u64, cookie) \
  X(_Bool, pol_present) X(__u32, pol_key_ip0) X(__u32, pol_key_ip1) X(__u32, pol_key_ip2) X(__u32, pol_key_ip3) X(__u32, pol_key_port) X(__u32, pol_key_protocol) \
  X(__u32, pol_val_ip0) X(__u32, pol_val_ip1) X(__u32, pol_val_ip2) X(__u32, pol_val_ip3) X(__u32, pol_val_port) X(__u32, pol_val_protocol) \
  X(_Bool, skip_present) X(__u32, skip_pid) X(__u32, skip_val_pid) \
  X(_Bool, loc_present) X(__u64, loc_key) X(__u32, loc_logon_id) X(__u32, loc_process_id) X(__u32, loc_is_root) X(__u32, loc_destination_ipv4) X(__u32, loc_destination_port) X(__u32, loc_protocol) \
  X(_Bool, aud_present) X(__u32, aud_key_protocol) X(__u32, aud_key_source_port) X(__u32, aud_logon_id) X(__u32, aud_process_id) X(__u32, aud_is_root) X(__u32, aud_destination_ipv4) X(__u32, aud_destination_port) \
  X(_Bool, probe_ok) X(__u32, skc_daddr) X(__u32, skc_rcv_saddr) X(__u32, skc_hash) X(__u16, skc_dport) X(__u16, skc_num) X(__u16, skc_family) \
  X(_Bool, mid_loc_present) X(__u64, mid_loc_key) X(__u32, mid_loc_logon_id) X(__u32, mid_loc_process_id) X(__u32, mid_loc_is_root) X(__u32, mid_loc_destination_ipv4) X(__u32, mid_loc_destination_port) X(__u32, mid_loc_protocol) \
  X(_Bool, mid_aud_present) X(__u32, mid_aud_key_protocol) X(__u32, mid_aud_key_source_port) X(__u32, mid_aud_logon_id) X(__u32, mid_aud_process_id) X(__u32, mid_aud_is_root) X(__u32, mid_aud_destination_ipv4) X(__u32, mid_aud_destination_port)

struct inputs {
#define X(t, n) t n;
  INPUT_FIELDS(X)
#undef X
};
struct inputs IN;

static void load_inputs(void) {
  CTX.user_family = IN.ctx_user_family; CTX.user_ip4 = IN.ctx_user_ip4;
  CTX.user_ip6[0] = IN.ctx_user_ip6_0; CTX.user_ip6[1] = IN.ctx_user_ip6_1; CTX.user_ip6[2] = IN.ctx_user_ip6_2; CTX.user_ip6[3] = IN.ctx_user_ip6_3;
  CTX.user_port = IN.ctx_user_port; CTX.family = IN.ctx_family; CTX.type = IN.ctx_type; CTX.protocol = IN.ctx_protocol; CTX.msg_src_ip4 = IN.ctx_msg_src_ip4;
  CTX.msg_src_ip6[0] = IN.ctx_msg_src_ip6_0; CTX.msg_src_ip6[1] = IN.ctx_msg_src_ip6_1; CTX.msg_src_ip6[2] = IN.ctx_msg_src_ip6_2; CTX.msg_src_ip6[3] = IN.ctx_msg_src_ip6_3;
  W.uid_gid = ((__u64)IN.gid << 32) | IN.uid;       /* helper contract: gid << 32 | uid */
  W.pid_tgid = ((__u64)IN.tgid << 32) | IN.pid;     /* helper contract: tgid << 32 | pid */
  W.cookie = IN.cookie;
  POL.present = IN.pol_present;
  POL.key.destination_ip.ipv6[0] = IN.pol_key_ip0; POL.key.destination_ip.ipv6[1] = IN.pol_key_ip1; POL.key.destination_ip.ipv6[2] = IN.pol_key_ip2; POL.key.destination_ip.ipv6[3] = IN.pol_key_ip3;
  POL.key.destination_port = IN.pol_key_port; POL.key.protocol = IN.pol_key_protocol;
  POL.val.destination_ip.ipv6[0] = IN.pol_val_ip0; POL.val.destination_ip.ipv6[1] = IN.pol_val_ip1; POL.val.destination_ip.ipv6[2] = IN.pol_val_ip2; POL.val.destination_ip.ipv6[3] = IN.pol_val_ip3;
  POL.val.destination_port = IN.pol_val_port; POL.val.protocol = IN.pol_val_protocol;
  SKIP.present = IN.skip_present; SKIP.key.pid = IN.skip_pid; SKIP.val.pid = IN.skip_val_pid;
  LOC.present = IN.loc_present; LOC.key = IN.loc_key; LOC.val.logon_id = IN.loc_logon_id; LOC.val.process_id = IN.loc_process_id; LOC.val.is_root = IN.loc_is_root;
  LOC.val.destination_ipv4 = IN.loc_destination_ipv4; LOC.val.destination_port = IN.loc_destination_port; LOC.val.protocol = IN.loc_protocol;
  AUD.present = IN.aud_present; AUD.key.protocol = IN.aud_key_protocol; AUD.key.source_port = IN.aud_key_source_port; AUD.val.logon_id = IN.aud_logon_id;
  AUD.val.process_id = IN.aud_process_id; AUD.val.is_root = IN.aud_is_root; AUD.val.destination_ipv4 = IN.aud_destination_ipv4; AUD.val.destination_port = IN.aud_destination_port;
  W.probe_ok = IN.probe_ok; SKC.skc_daddr = IN.skc_daddr; SKC.skc_rcv_saddr = IN.skc_rcv_saddr; SKC.skc_hash = IN.skc_hash;
  SKC.skc_dport = IN.skc_dport; SKC.skc_num = IN.skc_num; SKC.skc_family = IN.skc_family;
  ghost_reset();
}

/* ---- the code under contract: what each harness executes (shared by CBMC wrappers and the replay) ---- */
static int body_connect4(void) { int r = connect4(&CTX); VAC_POINT("end of connect4 body"); return r; }
static int body_kprobe(void)   { int r = tcp_v4_connect((struct pt_regs *)0, &SK_OBJ); VAC_POINT("end of kprobe body"); return r; }
static int body_twostep(void) {
  /* step 1: thread T runs the cgroup hook */
  (void)connect4(&CTX);
  ghost_reset();
  /* interleaving: hooks run by other threads T' != T.  By the per-call contracts (frame + key clauses) they can
     write/delete local[T'] and audit[*] only; skip and policy are written by the agent, not by hooks.  So every
     cell except local[T], skip, policy is havocked.  The local cell keeps its content iff it IS local[T];
     otherwise it may become any cell that is not local[T] (conditional havoc, no assume). */
  if (!(LOC.present && LOC.key == W.pid_tgid)) {
    if (!(IN.mid_loc_present && IN.mid_loc_key == W.pid_tgid)) {
      LOC.present = IN.mid_loc_present; LOC.key = IN.mid_loc_key; LOC.val.logon_id = IN.mid_loc_logon_id; LOC.val.process_id = IN.mid_loc_process_id;
      LOC.val.is_root = IN.mid_loc_is_root; LOC.val.destination_ipv4 = IN.mid_loc_destination_ipv4; LOC.val.destination_port = IN.mid_loc_destination_port;
      LOC.val.protocol = IN.mid_loc_protocol; } }
  AUD.present = IN.mid_aud_present; AUD.key.protocol = IN.mid_aud_key_protocol; AUD.key.source_port = IN.mid_aud_key_source_port;
  AUD.val.logon_id = IN.mid_aud_logon_id; AUD.val.process_id = IN.mid_aud_process_id; AUD.val.is_root = IN.mid_aud_is_root;
  AUD.val.destination_ipv4 = IN.mid_aud_destination_ipv4; AUD.val.destination_port = IN.mid_aud_destination_port;
  /* step 2: the same thread T reaches tcp_connect with source port SKC.skc_num */
  int r = tcp_v4_connect((struct pt_regs *)0, &SK_OBJ);
  VAC_POINT("end of two-step body");
  return r; }
#endif
