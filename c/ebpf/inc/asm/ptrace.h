#pragma once
