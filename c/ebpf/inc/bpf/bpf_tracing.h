#pragma once
struct pt_regs;
#define BPF_KPROBE(name, args...) name(struct pt_regs *ctx, ##args)
