#pragma once
#include <stddef.h>
#define SEC(name)
#define __uint(name, val) int (*name)[val]
#define __type(name, val) typeof(val) *name
#ifndef __always_inline
#define __always_inline inline __attribute__((always_inline))
#endif
void *bpf_map_lookup_elem(void *map, const void *key);
long bpf_map_update_elem(void *map, const void *key, const void *value, __u64 flags);
long bpf_map_delete_elem(void *map, const void *key);
__u64 bpf_get_current_pid_tgid(void);
__u64 bpf_get_current_uid_gid(void);
__u64 bpf_get_socket_cookie(void *ctx);
long bpf_probe_read(void *dst, __u32 size, const void *unsafe_ptr);
#define bpf_printk(fmt, ...) ((void)0)
