#!/usr/bin/env python3
"""Unit `ebpf_c` (property C06, kernel half): CBMC 6.11 function contracts (DFCC) on the UNMODIFIED
$VERIF_REPO/linux-ebpf/ebpf_cgroup.c.

  run(tier, seed, pid) -> result dictionary of /verif/tools/engines.py
  python3 engine.py --replay <label> name=value ...   re-runs a witness against the real C (gcc), exit 1 = clause violated
  python3 engine.py [quick|thorough]                  prints the result dictionary

What is generated on every run (into /verif/build/ebpf_c/<run>/, nothing is kept between runs):
  h_connect4.c h_kprobe.c h_twostep.c   `#include "<repo>/linux-ebpf/ebpf_cgroup.c"` + model.h + clauses.h + one
                                        __CPROVER_ensures line per labelled clause of clauses.h, enforced with
                                        goto-instrument --dfcc --enforce-contract
  v_*.c                                 vacuity twins (-DVACUITY_TWIN): assert(0) after every assume / at the end of every
                                        body and `ensures(!CASE)` for every case antecedent; all of them must FAIL
  h_layout.c                            offsetof/sizeof/slot assertions generated from layout.json
  replay.c                              gcc program: same C file, same model.h (executable), same clause macros

Classification:  failed CBMC property on an ensures line -> its label; propertyClass `assigns` -> C06.<h>.frame;
`model-limit:` assertions, tool errors, timeouts, missing functions -> undecided; everything else -> C06.<h>.safety.
"""
import concurrent.futures
import hashlib
import json
import os
import re
import shlex
import subprocess
import sys
import time

# source files taken in as a whole (tools/check.py uncovered_fingerprint)
COVERED_FILES = ["linux-ebpf/ebpf_cgroup.c", "linux-ebpf/socket.h"]


HERE = os.path.dirname(os.path.abspath(__file__))
VERIF = os.path.dirname(os.path.dirname(HERE))
UNIT = "ebpf_c"
REL_C = "linux-ebpf/ebpf_cgroup.c"
HARNESSES = ["connect4", "kprobe", "twostep"]
# case antecedents whose satisfiability is checked by the vacuity twin (ensures(!CASE) must FAIL)
CASES = {
    "connect4": ["C4_ACT", "!C4_ACT", "O_SKIPPED && O_POLHIT(OLD(CTX.user_ip4), OLD(CTX.user_port), OLD(CTX.protocol))"],
    "kprobe": ["!KP_ACTIVE", "KP_LOCAL", "KP_FALLBACK", "KP_NOPOLICY", "O_SKIPPED && KP_HAD_LOCAL"],
    "twostep": ["TS_ACT", "O_SKIPPED", "!TS_ACT"],
}
ENTRY = {"connect4": "connect4", "kprobe": "tcp_v4_connect", "twostep": "connect4+tcp_v4_connect"}
# real functions executed under each contract (looked up in the C file at run time)
REAL_FUNCS = {
    "connect4": ["connect4", "authorize_v4", "update_local_map_entry", "check_skip_process_map_entry"],
    "kprobe": ["tcp_v4_connect", "trace_v4", "update_audit_map_entry_sk", "check_skip_process_map_entry"],
}
TRUSTED = [
    "assumed BPF helper model (c/ebpf/model.h): bpf_map_lookup_elem returns the value stored under the key or NULL; bpf_map_update_elem(..,0) "
    "inserts/overwrites exactly that key and returns 0; bpf_map_delete_elem removes exactly that key; bpf_get_current_uid_gid() = gid<<32|uid; "
    "bpf_get_current_pid_tgid() = tgid<<32|pid; bpf_probe_read copies the kernel sock_common or fails",
    "one symbolic cell (present,key,value) per map stands for the entry the hook touches; all other entries are unchanged because the helpers "
    "only affect the key they are given (the model reports model-limit, i.e. undecided, if a hook touches two keys of one map)",
    "map keys built on the BPF stack are fully initialised: the tail of the ip_address union after `= {0}` is zero (assume inside the policy "
    "lookup model; ISO C leaves it indeterminate, clang zero-fills and the in-kernel verifier rejects uninitialised key bytes)",
    "little-endian host; CBMC's x86_64 data model for the C types (layout harness also run with --32 in the thorough tier)",
    "no LRU eviction of a local_map/audit_map entry while fewer connections are in flight than the map holds (capacity(local_map) >= capacity(audit_map) is checked: C06.maps.local_map)",
    "two-step harness: each connect4 hit by thread T is followed by T's tcp_connect probe before T's next connect; uid/gid/pid_tgid of T do not "
    "change in between; hooks of other threads obey the per-call contracts (frame + key clauses) proved here",
    "not covered: the in-kernel verifier and JIT, clang's BPF code generation, aya's loader, cgroup/kprobe attachment",
    "CBMC 6.11 (goto-cc, goto-instrument --dfcc, MiniSat/CaDiCaL/kissat) and, for replays, gcc",
]
ASSUMPTIONS = [
    "helper model of c/ebpf/model.h (documented BPF helper semantics) is assumed, not verified",
    "union tail of destination_entry keys is zero-initialised (single __CPROVER_assume, in touch_pol of model.h)",
    "bpf_map_update_elem on the two LRU maps succeeds (returns 0)",
]


def repo():
    return os.path.abspath(os.environ.get("VERIF_REPO", "/repo"))


def workdir():
    tag = hashlib.sha1(repo().encode()).hexdigest()[:8]
    d = os.path.join(VERIF, "build", "ebpf_c", "run_" + tag)
    os.makedirs(d, exist_ok=True)
    return d


def sh(cmd, cwd, timeout, cmds=None):
    """run; returns (rc, stdout, stderr, seconds); rc None on timeout"""
    if cmds is not None:
        cmds.append("cd %s && %s" % (cwd, " ".join(shlex.quote(c) for c in cmd)))
    t0 = time.time()
    try:
        p = subprocess.run(cmd, cwd=cwd, stdout=subprocess.PIPE, stderr=subprocess.PIPE, timeout=timeout, text=True, errors="replace")
        return p.returncode, p.stdout, p.stderr, time.time() - t0
    except subprocess.TimeoutExpired as e:
        return None, (e.stdout or b"").decode("utf8", "replace") if isinstance(e.stdout, bytes) else (e.stdout or ""), "timeout after %ss" % timeout, time.time() - t0
    except OSError as e:
        return -127, "", "cannot execute %s: %s" % (cmd[0], e), time.time() - t0


# ------------------------------------------------------------------ clause table
def read_clauses():
    s = open(os.path.join(HERE, "clauses.h")).read()
    out = []
    for m in re.finditer(r"/\* @(C06\.(\w+)\.(\w+)) : (.*?) \*/\n#define (CL_(\w+?)__(\w+)) (.*)", s):
        label, h, c, text, macro, h2, c2, body = m.groups()
        if (h, c) != (h2, c2):
            raise RuntimeError("clauses.h: label %s does not match macro %s" % (label, macro))
        out.append(dict(label=label, harness=h, clause=c, text=text, macro=macro, body=body.strip()))
    return out


def read_layout():
    return json.load(open(os.path.join(HERE, "layout.json")))


def find_functions(cfile):
    """name -> line of the definition in the real C file"""
    res = {}
    try:
        lines = open(cfile, errors="replace").read().split("\n")
    except OSError:
        return res
    names = sorted(set(sum(REAL_FUNCS.values(), [])))
    for i, l in enumerate(lines):
        for n in names:
            if n in res:
                continue
            if re.match(r"^\s*(int\s+)?(BPF_KPROBE\(\s*)?%s\s*[\(,]" % re.escape(n), l) and not l.rstrip().endswith(";"):
                # definition line: `int connect4(`, `check_skip_process_map_entry(__u32 pid)` after the `static ... int` line, `int BPF_KPROBE(tcp_v4_connect,`
                res[n] = i + 1
    return res


# ------------------------------------------------------------------ generation
def gen_prefix(defs=()):
    c = repo() + "/" + REL_C
    out = ["/* GENERATED by c/ebpf/engine.py -- do not edit */"]
    out += ["#define %s 1" % d for d in defs]
    out += ["#include <linux/bpf.h>", "#include <stddef.h>",
            '#include "%s"   /* the unmodified program */' % c,
            '#include "%s/model.h"' % HERE, '#include "%s/clauses.h"' % HERE]
    return out


def gen_harness(h, clauses, twin):
    out = gen_prefix(["VACUITY_TWIN"] if twin else [])
    out.append("struct inputs nondet_inputs(void);")
    out.append("int contract_%s(void)" % h)
    out.append("__CPROVER_assigns(ASSIGNS_%s)" % h)
    linemap = {}
    for c in clauses:
        if c["harness"] == h:
            out.append("__CPROVER_ensures(%s) /* @%s */" % (c["macro"], c["label"]))
            linemap[len(out)] = c["label"]
    if twin:
        for k, case in enumerate(CASES[h]):
            out.append("__CPROVER_ensures(!(%s)) /* @vacuity.%s.case%d */" % (case, h, k))
            linemap[len(out)] = "vacuity.%s.case%d: %s" % (h, k, case)
        out.append("__CPROVER_ensures(0) /* @vacuity.%s.ensures_false */" % h)
        linemap[len(out)] = "vacuity.%s.ensures_false" % h
    out.append("{ return body_%s(); }" % h)
    out.append("void main_h(void) { IN = nondet_inputs(); load_inputs(); contract_%s(); }" % h)
    return "\n".join(out) + "\n", linemap


def gen_layout(layout, twin):
    out = ["/* GENERATED from c/ebpf/layout.json by c/ebpf/engine.py */", "#include <linux/bpf.h>", "#include <stddef.h>",
           '#include "%s/%s"' % (repo(), REL_C), "__u32 nondet_u32(void);", "void main_h(void) {"]
    for s in layout["structs"]:
        t, lab = s["c_type"], "C06.layout." + s["name"]
        out.append('  __CPROVER_assert(sizeof(%s) == %d, "%s: sizeof(%s) == %d");' % (t, s["size"], lab, t, s["size"]))
        out.append('  __CPROVER_assert(sizeof(%s) == 4 * %d, "%s: %s is %d u32 slots");' % (t, s["array_len"], lab, t, s["array_len"]))
        for f in s["fields"]:
            out.append('  __CPROVER_assert(offsetof(%s, %s) == %d, "%s: offsetof(%s) == %d");' % (t, f["c_expr"], f["offset"], lab, f["c_expr"], f["offset"]))
            out.append('  __CPROVER_assert(sizeof(((%s *)0)->%s) == %d, "%s: sizeof(%s) == %d");' % (t, f["c_expr"], f["size"], lab, f["c_expr"], f["size"]))
            if f["size"] == 4:
                v = "v_%s_%s" % (s["name"], re.sub(r"\W", "_", f["c_expr"]))
                out.append('  { %s o; __u32 %s = nondet_u32(); o.%s = %s; __CPROVER_assert(((__u32 *)&o)[%d] == %s, "%s: u32 slot %d holds %s"); }'
                           % (t, v, f["c_expr"], v, f["slot"], v, lab, f["slot"], f["c_expr"]))
    for m in layout.get("maps", []):
        n, lab = m["name"], "C06.maps." + m["name"]
        cap = "(sizeof(*%s.max_entries) / sizeof(int))" % n
        out.append('  __CPROVER_assert(sizeof(*%s.key) == sizeof(%s), "%s: declared key size is sizeof(%s)");' % (n, m["key"], lab, m["key"]))
        out.append('  __CPROVER_assert(sizeof(*%s.value) == sizeof(%s), "%s: declared value size is sizeof(%s)");' % (n, m["value"], lab, m["value"]))
        out.append('  __CPROVER_assert(%s, "%s: map type is %s");' % (" || ".join("sizeof(*%s.type) / sizeof(int) == %s" % (n, k) for k in m["kind"]), lab, " or ".join(m["kind"])))
        out.append('  __CPROVER_assert(%s >= 1, "%s: holds at least one entry");' % (cap, lab))
        if m.get("at_least_as_large_as"):
            o = m["at_least_as_large_as"]
            out.append('  __CPROVER_assert(%s >= (sizeof(*%s.max_entries) / sizeof(int)), "%s: holds one entry for each of up to capacity(%s) connections in flight between the two hooks");' % (cap, o, lab, o))
    if twin:
        out.append('  __CPROVER_assert(0, "vacuity: end of layout harness");')
    out.append("}")
    return "\n".join(out) + "\n"


def gen_replay(clauses, layout):
    out = gen_prefix(["REPLAY"])
    out.append("#define AS_CONNECT4 1\n#define AS_KPROBE 2\n#define AS_TWOSTEP 3")
    out.append(r'''
static int frame_ok(int h) {   /* everything outside the assigns clause of the harness is unchanged */
  struct world a = PRE0, b = W0;
  if (h != AS_KPROBE) { a.ctx.user_ip4 = b.ctx.user_ip4; a.ctx.user_port = b.ctx.user_port; }
  memcpy(&a.loc, &b.loc, sizeof a.loc);
  if (h != AS_CONNECT4) memcpy(&a.aud, &b.aud, sizeof a.aud);
  return memcmp(&a, &b, sizeof a) == 0; }
static int set_input(const char *n, const char *v) {
  unsigned long long x = strtoull(v, 0, 0);
#define X(t, f) if (!strcmp(n, #f)) { IN.f = (t)x; return 1; }
  INPUT_FIELDS(X)
#undef X
  return 0; }
static int layout_check(const char *label);
int main(int argc, char **argv) {
  if (argc < 2) { fprintf(stderr, "usage: replay <label> [input=value ...]\n"); return 3; }
  const char *label = argv[1];
  if (!strncmp(label, "C06.layout.", 11) || !strncmp(label, "C06.maps.", 9)) return layout_check(label);
  for (int i = 2; i < argc; i++) { char *eq = strchr(argv[i], '=');
    if (!eq) { fprintf(stderr, "bad argument %s\n", argv[i]); return 3; }
    *eq = 0; if (!set_input(argv[i], eq + 1)) { fprintf(stderr, "unknown input %s\n", argv[i]); return 3; } }
  int h = !strncmp(label, "C06.connect4.", 13) ? AS_CONNECT4 : !strncmp(label, "C06.kprobe.", 11) ? AS_KPROBE : !strncmp(label, "C06.twostep.", 12) ? AS_TWOSTEP : 0;
  if (!h) { fprintf(stderr, "unknown harness in label %s\n", label); return 3; }
  load_inputs(); PRE0 = W0;
  RET = h == AS_CONNECT4 ? body_connect4() : h == AS_KPROBE ? body_kprobe() : body_twostep();
  int ok = -1, fr = frame_ok(h);
''')
    for c in clauses:
        out.append('  if (!strcmp(label, "%s")) ok = (%s) ? 1 : 0;' % (c["label"], c["macro"]))
    out.append(r'''  if (!strcmp(label + strlen(label) - 6, ".frame")) ok = fr;
  printf("{\"ret\": %d, \"ctx.user_ip4\": %u, \"ctx.user_port\": %u, ", RET, CTX.user_ip4, CTX.user_port);
  printf("\"local\": {\"present\": %d, \"key\": %llu, \"logon_id\": %u, \"process_id\": %u, \"is_root\": %u, \"destination_ipv4\": %u, \"destination_port\": %u, \"protocol\": %u}, ",
         LOC.present, (unsigned long long)LOC.key, LOC.val.logon_id, LOC.val.process_id, LOC.val.is_root, LOC.val.destination_ipv4, LOC.val.destination_port, LOC.val.protocol);
  printf("\"audit\": {\"present\": %d, \"key.protocol\": %u, \"key.source_port\": %u, \"logon_id\": %u, \"process_id\": %u, \"is_root\": %u, \"destination_ipv4\": %u, \"destination_port\": %u}, ",
         AUD.present, AUD.key.protocol, AUD.key.source_port, AUD.val.logon_id, AUD.val.process_id, AUD.val.is_root, AUD.val.destination_ipv4, AUD.val.destination_port);
  printf("\"caller\": {\"uid\": %u, \"gid\": %u, \"tgid\": %u, \"pid\": %u}, \"frame_respected\": %s, \"clause\": \"%s\", \"clause_holds\": %s}\n",
         IN.uid, IN.gid, IN.tgid, IN.pid, fr ? "true" : "false", label, ok == 1 ? "true" : ok == 0 ? "false" : "null");
  if (ASSUME_VIOLATED) { fprintf(stderr, "inconclusive: model assumption does not hold in this execution: %s\n", ASSUME_VIOLATED); return 2; }
  if (MODEL_LIMIT_HIT) fprintf(stderr, "note: %s -- this run is the behaviour of the real code on maps holding only the listed entries (a legitimate map state)\n", MODEL_LIMIT_HIT);
  if (ok < 0) { fprintf(stderr, "no executable clause for label %s\n", label); return 3; }
  if (!ok) { fprintf(stderr, "CLAUSE VIOLATED by the real code: %s\n", label); return 1; }
  fprintf(stderr, "clause holds on this input: %s\n", label); return 0; }
static int layout_check(const char *label) { int bad = 0, seen = 0;''')
    for s in layout["structs"]:
        t = s["c_type"]
        out.append('  if (!strcmp(label, "C06.layout.%s")) { seen = 1;' % s["name"])
        out.append('    printf("sizeof(%s) = %%zu (table %d)\\n", sizeof(%s)); bad |= sizeof(%s) != %d;' % (t, s["size"], t, t, s["size"]))
        for f in s["fields"]:
            out.append('    printf("offsetof(%s,%s) = %%zu size %%zu (table %d size %d)\\n", offsetof(%s, %s), sizeof(((%s *)0)->%s)); bad |= offsetof(%s, %s) != %d || sizeof(((%s *)0)->%s) != %d;'
                       % (t, f["c_expr"], f["offset"], f["size"], t, f["c_expr"], t, f["c_expr"], t, f["c_expr"], f["offset"], t, f["c_expr"], f["size"]))
        out.append("  }")
    for m in layout.get("maps", []):
        n = m["name"]
        cap = "(sizeof(*%s.max_entries) / sizeof(int))" % n
        out.append('  if (!strcmp(label, "C06.maps.%s")) { seen = 1;' % n)
        out.append('    printf("%s: type %%zu key size %%zu (table: sizeof(%s) = %%zu) value size %%zu (table: sizeof(%s) = %%zu) max_entries %%zu\\n", sizeof(*%s.type) / sizeof(int), sizeof(*%s.key), sizeof(%s), sizeof(*%s.value), sizeof(%s), %s);'
                   % (n, m["key"], m["value"], n, n, m["key"], n, m["value"], cap))
        out.append('    bad |= sizeof(*%s.key) != sizeof(%s) || sizeof(*%s.value) != sizeof(%s) || %s < 1 || !(%s);'
                   % (n, m["key"], n, m["value"], cap, " || ".join("sizeof(*%s.type) / sizeof(int) == %s" % (n, k) for k in m["kind"])))
        if m.get("at_least_as_large_as"):
            o = m["at_least_as_large_as"]
            out.append('    printf("%s holds %%zu entries, %s holds %%zu: with %%zu connections in flight between the two hooks the oldest hand-off entries are evicted before their kprobe runs\\n", %s, (sizeof(*%s.max_entries) / sizeof(int)), (sizeof(*%s.max_entries) / sizeof(int)));'
                       % (n, o, cap, o, o))
            out.append('    bad |= %s < (sizeof(*%s.max_entries) / sizeof(int));' % (cap, o))
        out.append("  }")
    out.append('  if (!seen) { fprintf(stderr, "unknown layout label %s\\n", label); return 3; }')
    out.append('  if (bad) { fprintf(stderr, "LAYOUT differs from layout.json: %s\\n", label); return 1; } return 0; }')
    return "\n".join(out) + "\n"


# ------------------------------------------------------------------ running CBMC
def parse_cbmc_json(txt):
    """-> (properties list or None, solver seconds, error text)"""
    try:
        doc = json.loads(txt)
    except ValueError as e:
        return None, 0.0, "cbmc output is not JSON (%s): %s" % (e, txt[-400:])
    props, solver, errs = None, 0.0, []
    for e in doc:
        if not isinstance(e, dict):
            continue
        if "result" in e:
            props = e["result"]
        mt = e.get("messageText")
        if mt:
            m = re.match(r"Runtime Solver: ([0-9.eE+-]+)s", mt)
            if m:
                solver += float(m.group(1))
            if e.get("messageType") == "ERROR" or "no body for" in mt:
                errs.append(mt)
    return props, solver, "; ".join(errs)


def build_and_check(wd, name, src, contract, extra_cc, cbmc_opts, timeout, cmds):
    """goto-cc [+ dfcc] + cbmc --json-ui.  -> dict(props=, solver=, error=, wall=)"""
    t0 = time.time()
    path = os.path.join(wd, name + ".c")
    with open(path, "w") as fh:
        fh.write(src)
    gb, gb2 = name + ".gb", name + ".dfcc.gb"
    for f in (gb, gb2):
        try:
            os.remove(os.path.join(wd, f))
        except OSError:
            pass
    rc, so, se, _ = sh(["goto-cc"] + extra_cc + ["-I", os.path.join(HERE, "inc"), name + ".c", "-o", gb, "--function", "main_h"], wd, timeout, cmds)
    if rc != 0 or not os.path.exists(os.path.join(wd, gb)):
        return dict(props=None, solver=0.0, wall=time.time() - t0, error="goto-cc failed on %s.c (rc=%s): %s" % (name, rc, (se + so).strip()[-600:]))
    binf = gb
    if contract:
        rc, so, se, _ = sh(["goto-instrument", "--dfcc", "main_h", "--enforce-contract", contract, gb, gb2], wd, timeout, cmds)
        if rc != 0 or not os.path.exists(os.path.join(wd, gb2)):
            return dict(props=None, solver=0.0, wall=time.time() - t0, error="goto-instrument --dfcc failed on %s (rc=%s): %s" % (name, rc, (se + so).strip()[-600:]))
        binf = gb2
    return run_cbmc(wd, name, binf, cbmc_opts, timeout, cmds, t0)


def run_cbmc(wd, name, binf, cbmc_opts, timeout, cmds, t0=None):
    t0 = t0 or time.time()
    rc, so, se, _ = sh(["cbmc", binf, "--function", "main_h", "--drop-unused-functions", "--json-ui", "--verbosity", "8"] + cbmc_opts, wd, timeout, cmds)
    if rc is None:
        return dict(props=None, solver=0.0, wall=time.time() - t0, error="cbmc timed out on %s after %ss" % (name, timeout))
    props, solver, err = parse_cbmc_json(so)
    if rc in (0, 10) and props is not None and "no body for" in err:
        return dict(props=None, solver=solver, wall=time.time() - t0, error="%s calls a function without a body, nothing is decided: %s" % (name, err[:300]))
    if rc not in (0, 10) or props is None:
        return dict(props=None, solver=solver, wall=time.time() - t0, error="cbmc did not decide %s (rc=%s): %s" % (name, rc, (err or se or so[-400:]).strip()[-600:]))
    return dict(props=props, solver=solver, wall=time.time() - t0, error=None)


def classify(p, h, linemap, hfile):
    """-> (kind, label) with kind in clause|frame|limit|vacuity|safety"""
    sl = p.get("sourceLocation", {}) or {}
    cls = sl.get("propertyClass", "")
    desc = p.get("description", "")
    f = os.path.basename(sl.get("file", ""))
    if desc.startswith("model-limit:") or desc.startswith("no body for callee"):
        return "limit", desc
    if desc.startswith("vacuity:"):
        return "vacuity", desc
    if desc.startswith("C06.layout.") or desc.startswith("C06.maps."):
        return "clause", desc.split(":")[0]
    if cls == "postcondition" and f == hfile:
        lab = linemap.get(int(sl.get("line", "0")))
        if lab is None:
            return "safety", "C06.%s.safety" % h
        if lab.startswith("vacuity."):
            return "vacuity", lab
        return "clause", lab
    if cls == "assigns":
        return "frame", "C06.%s.frame" % h
    return "safety", "C06.%s.safety" % h


def trace_inputs(p):
    vals = {}
    for s in p.get("trace", []) or []:
        if s.get("stepType") == "assignment":
            lhs = s.get("lhs", "")
            if lhs.startswith("IN."):
                v = s.get("value", {})
                d = v.get("data")
                if d is None:
                    continue
                if d in ("TRUE", "FALSE"):
                    vals[lhs[3:]] = 1 if d == "TRUE" else 0
                else:
                    m = re.match(r"^(-?\d+)", str(d))
                    if m:
                        vals[lhs[3:]] = int(m.group(1))
    return vals


def trace_last_real_line(p):
    last = None
    for s in p.get("trace", []) or []:
        sl = s.get("sourceLocation") or {}
        if sl.get("file", "").endswith("ebpf_cgroup.c") and sl.get("line"):
            last = int(sl["line"])
    return last


# ------------------------------------------------------------------ replay
def build_replay(wd, clauses, layout, cmds=None):
    with open(os.path.join(wd, "replay.c"), "w") as fh:
        fh.write(gen_replay(clauses, layout))
    rc, so, se, _ = sh(["gcc", "-O0", "-w", "-I", os.path.join(HERE, "inc"), "replay.c", "-o", "replay"], wd, 120, cmds)
    if rc != 0:
        return None, "gcc could not build the replay program: %s" % (se + so).strip()[-500:]
    return os.path.join(wd, "replay"), None


def replay_cmd(label, inputs):
    args = " ".join("%s=%d" % (k, v) for k, v in sorted(inputs.items()) if v)
    return "VERIF_REPO=%s python3 %s --replay %s %s" % (shlex.quote(repo()), os.path.join(HERE, "engine.py"), label, args)


def do_replay(binary, label, inputs):
    args = ["%s=%d" % (k, v) for k, v in sorted(inputs.items()) if v]
    try:
        p = subprocess.run([binary, label] + args, stdout=subprocess.PIPE, stderr=subprocess.PIPE, text=True, timeout=30)
    except (OSError, subprocess.TimeoutExpired) as e:
        return None, "", str(e)
    return p.returncode, p.stdout.strip(), p.stderr.strip()


def witness_for(binary, berr, label, inputs):
    if binary is None:
        return dict(failing_input=None, note="replay program not available: %s" % berr)
    if label.endswith(".safety"):
        return dict(failing_input=None, note="CBMC safety check (pointer/overflow/bounds); counterexample inputs: %s; no executable clause to replay" % json.dumps({k: v for k, v in inputs.items() if v}))
    rc, out, err = do_replay(binary, label, inputs)
    nz = {k: v for k, v in sorted(inputs.items()) if v}
    if rc == 1:
        # shrink on the REAL code: zero every input the violation does not depend on, then try small values
        cur = dict(nz)
        for k in sorted(cur):
            for cand in (0, 1):
                if cur.get(k) in (None, cand):
                    break
                trial = dict(cur)
                trial[k] = cand
                r2, o2, e2 = do_replay(binary, label, trial)
                if r2 == 1:
                    cur, out = {a: b for a, b in trial.items() if b}, o2
                    break
        inputs, nz = cur, dict(sorted(cur.items()))
        try:
            obs = json.loads(out.split("\n")[-1])
        except ValueError:
            obs = out
        return dict(failing_input=nz, all_other_inputs="0", cmd=replay_cmd(label, inputs), observed=obs,
                    how="gcc build of the unmodified %s + executable helper model (c/ebpf/model.h) run on the CBMC counterexample; the clause macro of c/ebpf/clauses.h evaluated to false" % REL_C)
    return dict(failing_input=None, note="replay of the CBMC counterexample on the gcc build did not contradict the clause (rc=%s): %s %s; counterexample inputs were %s"
                % (rc, err[-300:], out[-300:], json.dumps(nz)))


# ------------------------------------------------------------------ main entry
def run(tier="quick", seed=0, pid="C06"):
    t_start = time.time()
    res = dict(unit=UNIT, engine="cbmc", failures=[], undecided=[], functions=[], stubs=[], obligations=0, discharged=0, solver_s=0.0, wall_s=0.0,
               trusted=list(TRUSTED), rules={}, samples=[], cmds=[], bounded=[], assumptions=list(ASSUMPTIONS), extra={})
    cmds = res["cmds"]
    wd = workdir()
    cfile = os.path.join(repo(), REL_C)
    timeout = 120 if tier == "quick" else 600
    try:
        clauses = read_clauses()
        layout = read_layout()
    except Exception as e:  # framework file broken: not an alarm
        res["undecided"].append("cannot read clauses.h/layout.json: %s" % e)
        res["wall_s"] = time.time() - t_start
        return res
    if not os.path.isfile(cfile):
        res["undecided"].append("anchor missing: %s does not exist" % cfile)
        res["wall_s"] = time.time() - t_start
        return res
    fl = find_functions(cfile)
    for h in ("connect4", "kprobe"):
        for n in REAL_FUNCS[h]:
            if n in fl and not any(f["name"] == n for f in res["functions"]):
                res["functions"].append(dict(name=n, rel=REL_C, line=fl[n], rules=["verbatim-include"]))
    for n in ("connect4", "tcp_v4_connect"):
        if n not in fl:
            res["undecided"].append("anchor missing: function %s not found in %s" % (n, REL_C))

    jobs = {}
    linemaps = {}
    with concurrent.futures.ThreadPoolExecutor(16) as ex:
        for h in HARNESSES:
            need = {"connect4": ["connect4"], "kprobe": ["tcp_v4_connect"], "twostep": ["connect4", "tcp_v4_connect"]}[h]
            if any(n not in fl for n in need):
                continue   # anchor missing (already reported as undecided): a call to an undefined function proves/refutes nothing
            src, lm = gen_harness(h, clauses, False)
            linemaps["h_" + h] = lm
            jobs["h_" + h] = ex.submit(build_and_check, wd, "h_" + h, src, "contract_" + h, [], ["--trace"], timeout, cmds)
            src, lm = gen_harness(h, clauses, True)
            linemaps["v_" + h] = lm
            jobs["v_" + h] = ex.submit(build_and_check, wd, "v_" + h, src, "contract_" + h, [], [], timeout, cmds)
        linemaps["h_layout"] = linemaps["v_layout"] = {}
        jobs["h_layout"] = ex.submit(build_and_check, wd, "h_layout", gen_layout(layout, False), None, [], ["--trace"], timeout, cmds)
        jobs["v_layout"] = ex.submit(build_and_check, wd, "v_layout", gen_layout(layout, True), None, [], [], timeout, cmds)
        if tier == "thorough":
            linemaps["h_layout32"] = {}
            jobs["h_layout32"] = ex.submit(build_and_check, wd, "h_layout32", gen_layout(layout, False), None, ["--32"], ["--trace"], timeout, cmds)
        results = {k: f.result() for k, f in jobs.items()}

    failed_props = {}   # label -> list of (harness, property)
    per_h = {}
    for name in sorted(results):
        r = results[name]
        h = name.split("_", 1)[1]
        hh = "layout" if h.startswith("layout") else h
        res["solver_s"] += r["solver"]
        if r["error"]:
            res["undecided"].append(r["error"])
            continue
        if name.startswith("v_"):
            # vacuity twin: every vacuity property must FAIL (= reachable / satisfiable)
            vac = [(p, classify(p, hh, linemaps[name], name + ".c")) for p in r["props"]]
            vac = [(p, c) for p, c in vac if c[0] == "vacuity"]
            if not vac:
                res["undecided"].append("vacuity twin %s produced no vacuity property" % name)
            for p, c in vac:
                if p["status"] != "FAILURE":
                    res["undecided"].append("vacuity guard: `%s` is %s in twin %s (unreachable code or unsatisfiable case: the harness precondition/model is contradictory)" % (c[1], p["status"], name))
            per_h[name] = dict(vacuity_points=len(vac), all_reachable=all(p["status"] == "FAILURE" for p, c in vac), wall_s=round(r["wall"], 2))
            continue
        n_ok = n_all = 0
        for p in r["props"]:
            kind, lab = classify(p, hh, linemaps[name], name + ".c")
            st = p.get("status")
            if kind == "limit":
                # the model cannot represent this execution: never an alarm, never counted as discharged
                if st != "SUCCESS":
                    res["undecided"].append("%s: %s (%s) -- outside what the helper model / harness can decide" % (name, lab, st))
                n_all += 1
                n_ok += 1 if st == "SUCCESS" else 0
                continue
            n_all += 1
            if st == "SUCCESS":
                n_ok += 1
            elif st == "FAILURE":
                failed_props.setdefault(lab, []).append((name, hh, kind, p))
            else:
                res["undecided"].append("%s: property %s has status %s" % (name, p.get("property"), st))
        per_h[name] = dict(properties=n_all, success=n_ok, solver_s=round(r["solver"], 3), wall_s=round(r["wall"], 2))
        res["obligations"] += n_all
        res["discharged"] += n_ok
        # the contract must have produced one postcondition per clause (guards against a silently dropped clause)
        if name.startswith("h_") and hh in HARNESSES:
            got = set(classify(p, hh, linemaps[name], name + ".c")[1] for p in r["props"] if (p.get("sourceLocation") or {}).get("propertyClass") == "postcondition")
            want = set(c["label"] for c in clauses if c["harness"] == hh)
            if want - got:
                res["undecided"].append("%s: clauses not turned into CBMC properties: %s" % (name, sorted(want - got)))
            if not any((p.get("sourceLocation") or {}).get("propertyClass") == "assigns" and (p.get("sourceLocation") or {}).get("file", "").endswith("ebpf_cgroup.c") for p in r["props"]) and hh == "connect4":
                res["undecided"].append("%s: no assigns (frame) check was generated inside %s" % (name, REL_C))

    # thorough: second opinion from two other SAT solvers on the same instrumented binaries
    if tier == "thorough":
        second = {}
        with concurrent.futures.ThreadPoolExecutor(16) as ex:
            for name in ["h_" + h for h in HARNESSES] + ["h_layout"]:
                if name not in results or results[name]["error"]:
                    continue
                binf = name + (".dfcc.gb" if name != "h_layout" else ".gb")
                second[(name, "cadical")] = ex.submit(run_cbmc, wd, name, binf, ["--sat-solver", "cadical"], timeout, cmds)
                second[(name, "kissat")] = ex.submit(run_cbmc, wd, name, binf, ["--external-sat-solver", "kissat"], timeout, cmds)
            agree = {}
            for (name, solver), f in second.items():
                r2 = f.result()
                res["solver_s"] += r2["solver"]
                if r2["error"]:
                    res["undecided"].append("second solver %s: %s" % (solver, r2["error"]))
                    continue
                a = {p["property"]: p["status"] for p in results[name]["props"]}
                b = {p["property"]: p["status"] for p in r2["props"]}
                diff = sorted(k for k in set(a) | set(b) if a.get(k) != b.get(k))
                agree["%s/%s" % (name, solver)] = "agrees on %d properties" % len(b) if not diff else "DISAGREES on %s" % diff[:5]
                if diff:
                    res["undecided"].append("solver disagreement on %s between minisat and %s: %s" % (name, solver, diff[:5]))
            res["extra"]["second_solver"] = agree

    # failures, with replayed witnesses
    binary, berr = (None, None)
    if failed_props:
        binary, berr = build_replay(wd, clauses, layout, cmds)
    cl_by_label = {c["label"]: c for c in clauses}
    for lab in sorted(failed_props):
        name, hh, kind, p = failed_props[lab][0]
        sl = p.get("sourceLocation") or {}
        inputs = trace_inputs(p)
        fn = ENTRY.get(hh, hh)
        src = None
        if sl.get("file", "").endswith("ebpf_cgroup.c"):
            src = "%s:%s" % (REL_C, sl.get("line"))
        elif kind in ("frame", "safety") and trace_last_real_line(p):
            src = "%s:%d" % (REL_C, trace_last_real_line(p))
        elif fn.split("+")[-1] in fl:
            src = "%s:%d" % (REL_C, fl[fn.split("+")[-1]])
        c = cl_by_label.get(lab)
        if hh == "layout":
            clause_txt = "layout.json %s row for %s" % ("maps" if ".maps." in lab else "structs", lab.split(".")[-1])
            rc, out, err = do_replay(binary, lab, {}) if binary else (None, "", berr)
            if rc == 1:
                w = dict(failing_input=dict(struct=lab.split(".")[-1]), cmd=replay_cmd(lab, {}), observed=out)
            else:
                w = dict(failing_input=None, note="gcc layout check did not confirm (rc=%s): %s" % (rc, (out + err)[-300:]))
        else:
            clause_txt = ("%s  [%s := %s]" % (c["text"], c["macro"], c["body"])) if c else (
                "assigns(%s): the hook writes nothing else" % {"connect4": "ctx->user_ip4, ctx->user_port, local_map cell", "kprobe": "local_map cell, audit_map cell",
                                                               "twostep": "ctx->user_ip4, ctx->user_port, local_map cell, audit_map cell"}.get(hh, "?") if kind == "frame" else "CBMC built-in safety checks")
            w = witness_for(binary, berr, lab, inputs)
        others = ["%s %s" % (q.get("property"), q.get("description", "")[:90]) for (_, _, _, q) in failed_props[lab][1:6]]
        res["failures"].append(dict(
            label=lab, fn=fn, msg="%s: %s [%s, %s]" % (p.get("property"), p.get("description"), name, p.get("status")) + ((" (+%d more: %s)" % (len(failed_props[lab]) - 1, "; ".join(others))) if others else ""),
            src=src, clause=clause_txt,
            rendered="CBMC property %s at %s:%s FAILURE; counterexample inputs (non-zero): %s" % (p.get("property"), os.path.basename(sl.get("file", "?")), sl.get("line"), json.dumps({k: v for k, v in sorted(inputs.items()) if v})),
            counterexample=inputs or None, witness=w))

    for c in clauses[:3] + [c for c in clauses if c["clause"] in ("audit_has_original_destination", "inactive_no_change")]:
        res["samples"].append("%s: ensures %s  -- %s" % (c["label"], c["body"], c["text"]))
    res["samples"].append("C06.connect4.frame: __CPROVER_assigns(ctx->user_ip4, ctx->user_port, local_map cell) enforced by DFCC on every write in %s" % REL_C)
    res["extra"].update(per_harness=per_h, repo=repo(), labels=[c["label"] for c in clauses] + ["C06.%s.frame" % h for h in HARNESSES] + ["C06.%s.safety" % h for h in HARNESSES + ["layout"]]
                        + ["C06.layout." + s["name"] for s in layout["structs"]] + ["C06.maps." + m["name"] for m in layout.get("maps", [])])
    res["wall_s"] = time.time() - t_start
    if repo() != "/repo":   # scratch copies (mutation self-tests): keep sources + replay, drop the goto binaries
        for f in os.listdir(wd):
            if f.endswith(".gb"):
                try:
                    os.remove(os.path.join(wd, f))
                except OSError:
                    pass
    return res


def main(argv):
    if len(argv) >= 2 and argv[1] == "--replay":
        if len(argv) < 3:
            print("usage: engine.py --replay <label> [input=value ...]", file=sys.stderr)
            return 3
        wd = workdir()
        binary, err = build_replay(wd, read_clauses(), read_layout())
        if binary is None:
            print(err, file=sys.stderr)
            return 2
        p = subprocess.run([binary] + argv[2:])
        return p.returncode
    tier = argv[1] if len(argv) > 1 else "quick"
    r = run(tier, 0, "C06")
    for f in r["failures"]:
        f.pop("counterexample", None)
    print(json.dumps(r, indent=1, default=str))
    return 0


if __name__ == "__main__":
    sys.exit(main(sys.argv))
