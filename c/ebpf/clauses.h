/* clauses.h -- the contract clauses of property C06 (kernel half), ONE definition each.
 *
 * The engine reads the `@label : text` comment + the `#define CL_<harness>__<clause>` that follows it and generates
 *   - in the CBMC harness:  one line `__CPROVER_ensures(CL_x)` followed by a label comment per clause (property line -> label),
 *   - in the gcc replay:    `if (!strcmp(label, "...")) ok = (CL_x);`
 * so the proved clause and the replayed clause are the same macro and cannot drift.
 * OLD(e) is __CPROVER_old(e) under CBMC (lvalues only) and "e evaluated in the pre-state snapshot" in the replay.
 * RET is the value returned by the code under contract.
 */
#ifndef C06_CLAUSES_H
#define C06_CLAUSES_H
#ifdef REPLAY
int RET;
#else
#define RET __CPROVER_return_value
#endif

/* ---- vocabulary, all over the PRE-state ---- */
#define O_UID   ((__u32)(OLD(W.uid_gid) & 0xffffffffu))            /* helper contract: uid is the LOW half  */
#define O_TGID  ((__u32)(OLD(W.pid_tgid) >> 32))                   /* helper contract: tgid is the HIGH half */
#define O_SKIPPED (OLD(SKIP.present) && OLD(SKIP.key.pid) == O_TGID)
#define O_POLHIT(ip, port, proto) (OLD(POL.present) && OLD(POL.key.destination_ip.ipv6[0]) == (ip) && OLD(POL.key.destination_ip.ipv6[1]) == 0 \
     && OLD(POL.key.destination_ip.ipv6[2]) == 0 && OLD(POL.key.destination_ip.ipv6[3]) == 0 && OLD(POL.key.destination_port) == (port) && OLD(POL.key.protocol) == (proto))
#define LOC_UNCHANGED (LOC.present == OLD(LOC.present) && LOC.key == OLD(LOC.key) && LOC.val.logon_id == OLD(LOC.val.logon_id) && LOC.val.process_id == OLD(LOC.val.process_id) \
     && LOC.val.is_root == OLD(LOC.val.is_root) && LOC.val.destination_ipv4 == OLD(LOC.val.destination_ipv4) && LOC.val.destination_port == OLD(LOC.val.destination_port) \
     && LOC.val.protocol == OLD(LOC.val.protocol))
#define AUD_UNCHANGED (AUD.present == OLD(AUD.present) && AUD.key.protocol == OLD(AUD.key.protocol) && AUD.key.source_port == OLD(AUD.key.source_port) \
     && AUD.val.logon_id == OLD(AUD.val.logon_id) && AUD.val.process_id == OLD(AUD.val.process_id) && AUD.val.is_root == OLD(AUD.val.is_root) \
     && AUD.val.destination_ipv4 == OLD(AUD.val.destination_ipv4) && AUD.val.destination_port == OLD(AUD.val.destination_port))

/* connect4: the connect is to a protected address and the caller is not the agent */
#define C4_ACT (O_POLHIT(OLD(CTX.user_ip4), OLD(CTX.user_port), OLD(CTX.protocol)) && !O_SKIPPED)
/* kprobe cases */
#define KP_ACTIVE    (OLD(W.probe_ok) && OLD(SKC.skc_family) == AF_INET && !O_SKIPPED)
#define KP_HAD_LOCAL (OLD(LOC.present) && OLD(LOC.key) == OLD(W.pid_tgid))
#define KP_POLHIT    O_POLHIT(OLD(SKC.skc_daddr), OLD(SKC.skc_dport), IPPROTO_TCP)
#define KP_LOCAL     (KP_ACTIVE && KP_HAD_LOCAL)
#define KP_FALLBACK  (KP_ACTIVE && !KP_HAD_LOCAL && KP_POLHIT)
#define KP_NOPOLICY  (KP_ACTIVE && !KP_HAD_LOCAL && !KP_POLHIT)
/* two-step: protected connect by a non-agent thread whose tcp_connect probe is readable and IPv4 */
#define TS_ACT (C4_ACT && OLD(W.probe_ok) && OLD(SKC.skc_family) == AF_INET)

/* ================= connect4 (cgroup/connect4) ================= */
/* @C06.connect4.returns_proceed : connect4 always returns BPF_SOCK_ADDR_VERDICT_PROCEED (1) */
#define CL_connect4__returns_proceed (RET == 1)
/* @C06.connect4.redirect_ip : protected connect by a non-agent process: ctx->user_ip4 becomes the policy value's address */
#define CL_connect4__redirect_ip IMPLIES(C4_ACT, CTX.user_ip4 == OLD(POL.val.destination_ip.ipv4))
/* @C06.connect4.redirect_port : protected connect by a non-agent process: ctx->user_port becomes the policy value's port */
#define CL_connect4__redirect_port IMPLIES(C4_ACT, CTX.user_port == OLD(POL.val.destination_port))
/* @C06.connect4.local_keyed_by_pid_tgid : a local_map entry exists under the caller's pid_tgid */
#define CL_connect4__local_keyed_by_pid_tgid IMPLIES(C4_ACT, LOC.present && LOC.key == OLD(W.pid_tgid))
/* @C06.connect4.process_id_is_tgid : the entry's process_id is the caller's tgid */
#define CL_connect4__process_id_is_tgid IMPLIES(C4_ACT, LOC.val.process_id == O_TGID)
/* @C06.connect4.logon_id_is_uid : the entry's logon_id is the caller's uid */
#define CL_connect4__logon_id_is_uid IMPLIES(C4_ACT, LOC.val.logon_id == O_UID)
/* @C06.connect4.is_root_is_uid_eq_0 : the entry's is_root is 1 iff the caller's uid is 0 */
#define CL_connect4__is_root_is_uid_eq_0 IMPLIES(C4_ACT, LOC.val.is_root == (__u32)(O_UID == 0))
/* @C06.connect4.is_root_matches_recorded_id : the entry's is_root is 1 iff the id recorded in the same entry is 0 */
#define CL_connect4__is_root_matches_recorded_id IMPLIES(C4_ACT, LOC.val.is_root == (__u32)(LOC.val.logon_id == 0))
/* @C06.connect4.records_original_destination : the entry carries the destination the caller asked for (before the rewrite) */
#define CL_connect4__records_original_destination IMPLIES(C4_ACT, LOC.val.destination_ipv4 == OLD(CTX.user_ip4) && LOC.val.destination_port == OLD(CTX.user_port))
/* @C06.connect4.records_protocol : the entry carries ctx->protocol */
#define CL_connect4__records_protocol IMPLIES(C4_ACT, LOC.val.protocol == OLD(CTX.protocol))
/* @C06.connect4.untouched_ctx : any other address, or the agent itself: destination left as the caller set it */
#define CL_connect4__untouched_ctx IMPLIES(!C4_ACT, CTX.user_ip4 == OLD(CTX.user_ip4) && CTX.user_port == OLD(CTX.user_port))
/* @C06.connect4.untouched_no_record : any other address, or the agent itself: local_map not written */
#define CL_connect4__untouched_no_record IMPLIES(!C4_ACT, LOC_UNCHANGED)

/* ================= tcp_v4_connect (kprobe/tcp_v4_connect -> trace_v4) ================= */
/* @C06.kprobe.returns_0 : the probe returns 0 */
#define CL_kprobe__returns_0 (RET == 0)
/* @C06.kprobe.inactive_no_change : agent process, non-AF_INET socket or unreadable socket: no map is changed */
#define CL_kprobe__inactive_no_change IMPLIES(!KP_ACTIVE, AUD_UNCHANGED && LOC_UNCHANGED)
/* @C06.kprobe.local_audit_key : local[pid_tgid] present: audit entry written under (local.protocol, source port) */
#define CL_kprobe__local_audit_key IMPLIES(KP_LOCAL, AUD.present && AUD.key.protocol == OLD(LOC.val.protocol) && AUD.key.source_port == OLD(SKC.skc_num))
/* @C06.kprobe.local_audit_identity : ... carrying the local entry's logon_id, process_id, is_root */
#define CL_kprobe__local_audit_identity IMPLIES(KP_LOCAL, AUD.val.logon_id == OLD(LOC.val.logon_id) && AUD.val.process_id == OLD(LOC.val.process_id) && AUD.val.is_root == OLD(LOC.val.is_root))
/* @C06.kprobe.local_audit_destination : ... and the local entry's (original) destination address and port */
#define CL_kprobe__local_audit_destination IMPLIES(KP_LOCAL, AUD.val.destination_ipv4 == OLD(LOC.val.destination_ipv4) && AUD.val.destination_port == OLD(LOC.val.destination_port))
/* @C06.kprobe.local_entry_removed : ... and local[pid_tgid] is removed (single use) */
#define CL_kprobe__local_entry_removed IMPLIES(KP_LOCAL, !LOC.present)
/* @C06.kprobe.fallback_audit_key : no local entry, socket destination is in the policy: audit entry under (TCP, source port) */
#define CL_kprobe__fallback_audit_key IMPLIES(KP_FALLBACK, AUD.present && AUD.key.protocol == IPPROTO_TCP && AUD.key.source_port == OLD(SKC.skc_num))
/* @C06.kprobe.fallback_process_id_is_tgid : fallback entry's process_id is the caller's tgid */
#define CL_kprobe__fallback_process_id_is_tgid IMPLIES(KP_FALLBACK, AUD.val.process_id == O_TGID)
/* @C06.kprobe.fallback_logon_id_is_uid : fallback entry's logon_id is the caller's uid */
#define CL_kprobe__fallback_logon_id_is_uid IMPLIES(KP_FALLBACK, AUD.val.logon_id == O_UID)
/* @C06.kprobe.fallback_is_root_is_uid_eq_0 : fallback entry's is_root is 1 iff the caller's uid is 0 */
#define CL_kprobe__fallback_is_root_is_uid_eq_0 IMPLIES(KP_FALLBACK, AUD.val.is_root == (__u32)(O_UID == 0))
/* @C06.kprobe.fallback_is_root_matches_recorded_id : fallback entry's is_root is 1 iff the id recorded in the same entry is 0 */
#define CL_kprobe__fallback_is_root_matches_recorded_id IMPLIES(KP_FALLBACK, AUD.val.is_root == (__u32)(AUD.val.logon_id == 0))
/* @C06.kprobe.fallback_destination : fallback entry carries the socket's destination address and port */
#define CL_kprobe__fallback_destination IMPLIES(KP_FALLBACK, AUD.val.destination_ipv4 == OLD(SKC.skc_daddr) && AUD.val.destination_port == OLD(SKC.skc_dport))
/* @C06.kprobe.fallback_local_unchanged : fallback path does not touch local_map */
#define CL_kprobe__fallback_local_unchanged IMPLIES(KP_FALLBACK, LOC_UNCHANGED)
/* @C06.kprobe.nopolicy_no_change : no local entry and destination not protected: no record, nothing changes */
#define CL_kprobe__nopolicy_no_change IMPLIES(KP_NOPOLICY, AUD_UNCHANGED && LOC_UNCHANGED)

/* ================= two-step: connect4 by T ; other threads' hooks ; tcp_v4_connect by T ================= */
/* @C06.twostep.returns_0 : the probe returns 0 */
#define CL_twostep__returns_0 (RET == 0)
/* @C06.twostep.ctx_redirected : the connection was diverted to the policy value (proxy listener) */
#define CL_twostep__ctx_redirected IMPLIES(TS_ACT, CTX.user_ip4 == OLD(POL.val.destination_ip.ipv4) && CTX.user_port == OLD(POL.val.destination_port))
/* @C06.twostep.audit_keyed_by_source_port : audit_map has a record under (protocol of the connect, T's source port) */
#define CL_twostep__audit_keyed_by_source_port IMPLIES(TS_ACT, AUD.present && AUD.key.source_port == OLD(SKC.skc_num) && AUD.key.protocol == OLD(CTX.protocol))
/* @C06.twostep.audit_has_caller_tgid : the record's process_id is T's tgid */
#define CL_twostep__audit_has_caller_tgid IMPLIES(TS_ACT, AUD.val.process_id == O_TGID)
/* @C06.twostep.audit_has_caller_uid : the record's logon_id is T's uid */
#define CL_twostep__audit_has_caller_uid IMPLIES(TS_ACT, AUD.val.logon_id == O_UID)
/* @C06.twostep.audit_is_root_is_uid_eq_0 : the record's is_root is 1 iff T's uid is 0 */
#define CL_twostep__audit_is_root_is_uid_eq_0 IMPLIES(TS_ACT, AUD.val.is_root == (__u32)(O_UID == 0))
/* @C06.twostep.audit_is_root_matches_recorded_id : the record's is_root is 1 iff the id recorded in it is 0 */
#define CL_twostep__audit_is_root_matches_recorded_id IMPLIES(TS_ACT, AUD.val.is_root == (__u32)(AUD.val.logon_id == 0))
/* @C06.twostep.audit_has_original_destination : the record carries the ORIGINAL destination (what T asked for), not the proxy address */
#define CL_twostep__audit_has_original_destination IMPLIES(TS_ACT, AUD.val.destination_ipv4 == OLD(CTX.user_ip4) && AUD.val.destination_port == OLD(CTX.user_port))
/* @C06.twostep.local_consumed : local[T] is removed after it was copied (single use) */
#define CL_twostep__local_consumed IMPLIES(TS_ACT, !LOC.present)
/* @C06.twostep.agent_no_record : connects by the agent itself: ctx untouched and the probe writes no record */
#define CL_twostep__agent_no_record IMPLIES(O_SKIPPED, CTX.user_ip4 == OLD(CTX.user_ip4) && CTX.user_port == OLD(CTX.user_port) && TS_MID_AUD_KEPT && LOC_UNCHANGED_OR_MID)

/* agent_no_record compares with the havocked mid-state, which is an input (IN.mid_*), not a pre-state */
#define TS_MID_AUD_KEPT (AUD.present == IN.mid_aud_present && AUD.key.protocol == IN.mid_aud_key_protocol && AUD.key.source_port == IN.mid_aud_key_source_port \
     && AUD.val.logon_id == IN.mid_aud_logon_id && AUD.val.process_id == IN.mid_aud_process_id && AUD.val.is_root == IN.mid_aud_is_root \
     && AUD.val.destination_ipv4 == IN.mid_aud_destination_ipv4 && AUD.val.destination_port == IN.mid_aud_destination_port)
#define LOC_IS_MID (LOC.present == IN.mid_loc_present && LOC.key == IN.mid_loc_key && LOC.val.logon_id == IN.mid_loc_logon_id && LOC.val.process_id == IN.mid_loc_process_id \
     && LOC.val.is_root == IN.mid_loc_is_root && LOC.val.destination_ipv4 == IN.mid_loc_destination_ipv4 && LOC.val.destination_port == IN.mid_loc_destination_port \
     && LOC.val.protocol == IN.mid_loc_protocol)
#define LOC_UNCHANGED_OR_MID (LOC_UNCHANGED || LOC_IS_MID)

/* frame of each harness = what the real hook may write (checked by DFCC `assigns`; label C06.<harness>.frame) */
#define ASSIGNS_connect4 CTX.user_ip4, CTX.user_port, LOC, GH
#define ASSIGNS_kprobe   LOC, AUD, GH
#define ASSIGNS_twostep  CTX.user_ip4, CTX.user_port, LOC, AUD, GH
#endif
