#!/usr/bin/env python3
"""Mutation self-test for the two C06 units (dev aid; /verif/check's thorough tier has its own driver).

  python3 c/ebpf/selftest.py [--fixed] [--unit ebpf_c|ebpf_rs] [patch ...]

Every patch of c/ebpf/mutations and kani/ebpf_rs/mutations is applied to its own scratch copy of /repo under
$VERIF_SCRATCH (default /var/tmp; never /repo itself; removed afterwards), the unit's engine is run with VERIF_REPO
pointing at the copy, and the failing labels are compared with the `# expect:` line of the patch:
  expect: L1 L2   -> L1 and L2 must be reported as failures, each with a replayed witness (failing_input != None)
  expect: NONE    -> nothing beyond the baseline's failures may be reported (harmless edit)
The baseline (unpatched copy) is run first.  --fixed first applies the uid fix (`>> 32` -> `& 0xFFFFFFFF`) to every copy,
so that mutants of the uid/is_root clauses are not masked by the defect that is present in the unchanged tree.
"""
import concurrent.futures
import importlib.util
import os
import re
import shutil
import subprocess
import sys

HERE = os.path.dirname(os.path.abspath(__file__))
VERIF = os.path.dirname(os.path.dirname(HERE))
SCRATCH = os.environ.get("VERIF_SCRATCH", "/var/tmp")
ENGINES = {"ebpf_c": os.path.join(VERIF, "c/ebpf/engine.py"), "ebpf_rs": os.path.join(VERIF, "kani/ebpf_rs/engine.py")}
MUTDIRS = {"ebpf_c": os.path.join(VERIF, "c/ebpf/mutations"), "ebpf_rs": os.path.join(VERIF, "kani/ebpf_rs/mutations")}


def run_engine(unit, repo):
    # a fresh interpreter per run: the engines read VERIF_REPO from the environment
    code = ("import importlib.util,json,sys;spec=importlib.util.spec_from_file_location('e',%r);m=importlib.util.module_from_spec(spec);"
            "spec.loader.exec_module(m);r=m.run('quick',0,'C06');"
            "print(json.dumps(dict(failures=[dict(label=f['label'],witness=bool((f.get('witness') or {}).get('failing_input')),cmd=(f.get('witness') or {}).get('cmd')) for f in r['failures']],"
            "undecided=r['undecided'],obligations=r['obligations'],discharged=r['discharged'],wall=r['wall_s'])))" % ENGINES[unit])
    p = subprocess.run([sys.executable, "-c", code], env=dict(os.environ, VERIF_REPO=repo), stdout=subprocess.PIPE, stderr=subprocess.PIPE, text=True)
    import json
    try:
        return json.loads(p.stdout.strip().split("\n")[-1])
    except Exception:
        return dict(failures=[], undecided=["engine crashed: " + p.stderr[-500:]], obligations=0, discharged=0, wall=0)


def make_copy(tag, fixed):
    d = os.path.join(SCRATCH, "c06selftest_%d_%s" % (os.getpid(), tag))
    shutil.rmtree(d, ignore_errors=True)
    os.makedirs(d)
    subprocess.run(["rsync", "-a", "--exclude", "target", "--exclude", ".git", "/repo/", d + "/"], check=True)
    if fixed:
        p = os.path.join(d, "linux-ebpf/ebpf_cgroup.c")
        s = open(p).read()
        s2 = s.replace("(__u32)(bpf_get_current_uid_gid() >> 32)", "(__u32)(bpf_get_current_uid_gid() & 0xFFFFFFFF)")
        assert s != s2
        open(p, "w").write(s2)
    return d


def one(unit, patch, fixed, replay_check):
    tag = "base" if patch is None else os.path.basename(patch).replace(".patch", "")
    d = make_copy(unit + "_" + tag, fixed)
    try:
        if patch:
            pr = subprocess.run(["patch", "-p1", "-s", "-F3", "-d", d], stdin=open(patch), stdout=subprocess.PIPE, stderr=subprocess.STDOUT, text=True)
            if pr.returncode != 0:
                return tag, dict(error="patch does not apply: " + pr.stdout[-300:])
        r = run_engine(unit, d)
        # re-run the recorded witness commands while the copy still exists: each must exit non-zero
        if replay_check:
            for f in r["failures"]:
                if f.get("cmd"):
                    rc = subprocess.run(f["cmd"], shell=True, stdout=subprocess.DEVNULL, stderr=subprocess.DEVNULL, cwd=VERIF).returncode
                    f["cmd_rc"] = rc
        return tag, r
    finally:
        shutil.rmtree(d, ignore_errors=True)


def main():
    args = sys.argv[1:]
    fixed = "--fixed" in args
    args = [a for a in args if a != "--fixed"]
    units = list(ENGINES)
    if "--unit" in args:
        i = args.index("--unit")
        units = [args[i + 1]]
        del args[i:i + 2]
    only = [os.path.basename(a).replace(".patch", "") for a in args]
    rc = 0
    for unit in units:
        if not os.path.exists(ENGINES[unit]):
            continue
        patches = sorted(os.path.join(MUTDIRS[unit], f) for f in os.listdir(MUTDIRS[unit]) if f.endswith(".patch"))
        if only:
            patches = [p for p in patches if os.path.basename(p).replace(".patch", "") in only]
        par = 8 if unit == "ebpf_c" else 3
        with concurrent.futures.ThreadPoolExecutor(par) as ex:
            futs = [ex.submit(one, unit, None, fixed, False)] + [ex.submit(one, unit, p, fixed, True) for p in patches]
            res = [f.result() for f in futs]
        base = res[0][1]
        base_labels = set(f["label"] for f in base.get("failures", []))
        print("== %s baseline (%s): obligations=%s discharged=%s undecided=%s failing=%s wall=%.1fs" % (
            unit, "uid fix applied" if fixed else "unchanged tree", base.get("obligations"), base.get("discharged"), base.get("undecided"), sorted(base_labels), base.get("wall", 0)))
        for p, (tag, r) in zip(patches, res[1:]):
            exp = re.search(r"^# expect: (.*)$", open(p).read(), re.M).group(1).split()
            if "error" in r:
                print("-- %-34s ERROR %s" % (tag, r["error"]))
                rc = 1
                continue
            got = {f["label"]: f for f in r["failures"]}
            new = sorted(set(got) - base_labels)
            if exp == ["NONE"]:
                ok = not new and not r["undecided"]
                verdict = "accepted (nothing new reported)" if ok else "FALSE ALARM"
            else:
                missing = [e for e in exp if e not in got]
                nowit = [e for e in exp if e in got and not got[e]["witness"]]
                badcmd = [e for e in exp if e in got and got[e].get("cmd_rc") == 0]
                ok = not missing and not nowit and not badcmd and not r["undecided"]
                verdict = "killed, witness replayed" if ok else "NOT OK missing=%s no-witness=%s witness-cmd-exit-0=%s" % (missing, nowit, badcmd)
            if not ok:
                rc = 1
            print("-- %-34s %s | expected=%s new failing=%s undecided=%s obligations=%s/%s wall=%.1fs" % (
                tag, verdict, exp, new, r["undecided"], r["discharged"], r["obligations"], r["wall"]))
    return rc


if __name__ == "__main__":
    sys.exit(main())
