// assumed specifications of std / dependency functions used by the signing code (trusted, written from their docs)
use vstd::std_specs::hash::*;
use vstd::std_specs::iter::*;

// ---- byte views of `impl AsRef<[u8]>` arguments ----
pub uninterp spec fn as_ref_bytes<T>(t: T) -> Seq<u8>;
#[verifier::external_body]
pub broadcast proof fn axiom_as_ref_bytes_str(s: &str) ensures #[trigger] as_ref_bytes::<&str>(s) == utf8(s@) {}
#[verifier::external_body]
pub broadcast proof fn axiom_as_ref_bytes_slice(s: &[u8]) ensures #[trigger] as_ref_bytes::<&[u8]>(s) == s@ {}
#[verifier::external_body]
pub broadcast proof fn axiom_as_ref_bytes_vec(s: Vec<u8>) ensures #[trigger] as_ref_bytes::<Vec<u8>>(s) == s@ {}
#[verifier::external_body]
pub broadcast proof fn axiom_as_ref_bytes_arr32(s: [u8; 32]) ensures #[trigger] as_ref_bytes::<[u8; 32]>(s) == s@ {}
pub broadcast group group_as_ref_bytes { axiom_as_ref_bytes_str, axiom_as_ref_bytes_slice, axiom_as_ref_bytes_vec, axiom_as_ref_bytes_arr32 }

// ---- hex ----
#[verifier::external_type_specification] #[verifier::external_body]
pub struct ExFromHexError(hex::FromHexError);
// hex::decode: "Decodes a hex string into raw bytes"; Err if the input is not an even-length string of hex digits
pub assume_specification<T> [hex::decode] (data: T) -> (r: std::result::Result<std::vec::Vec<u8>, hex::FromHexError>)
    where T: std::convert::AsRef<[u8]>,
    ensures (r matches Ok(v) ==> unhex_bytes(as_ref_bytes(data)) == Some(v@)),
            (r is Err ==> unhex_bytes(as_ref_bytes(data)) is None);
// hex::encode: "Encodes data as hex string using lowercase characters"
pub assume_specification<T> [hex::encode] (data: T) -> (r: std::string::String)
    where T: std::convert::AsRef<[u8]>,
    ensures r@ == hex_text(as_ref_bytes(data));

// ---- hmac_sha256::HMAC (incremental interface): key fixed by new, message = concatenation of the updates ----
#[verifier::external_type_specification] #[verifier::external_body]
pub struct ExHMAC(hmac_sha256::HMAC);
pub uninterp spec fn hmac_key(h: hmac_sha256::HMAC) -> Seq<u8>;
pub uninterp spec fn hmac_msg(h: hmac_sha256::HMAC) -> Seq<u8>;
pub assume_specification<K: std::convert::AsRef<[u8]>> [hmac_sha256::HMAC::new] (k: K) -> (r: hmac_sha256::HMAC)
    ensures hmac_key(r) == as_ref_bytes(k), hmac_msg(r) == Seq::<u8>::empty();
pub assume_specification<I: std::convert::AsRef<[u8]>> [hmac_sha256::HMAC::update] (h: &mut hmac_sha256::HMAC, input: I)
    ensures hmac_key(*final(h)) == hmac_key(*old(h)), hmac_msg(*final(h)) == hmac_msg(*old(h)) + as_ref_bytes(input);
pub assume_specification [hmac_sha256::HMAC::finalize] (h: hmac_sha256::HMAC) -> (r: [u8; 32])
    ensures r@ == hmac_sha256(hmac_key(h), hmac_msg(h));

// ---- core::str ----
pub assume_specification [str::to_lowercase] (s: &str) -> (r: String)
    ensures r@ == lower(s@);

// ---- http::Method / http::Uri ----
// Display for Uri writes the URI as given (scheme://authority path ?query as present)
#[verifier::external_body]
pub broadcast proof fn axiom_to_string_uri(t: &http::Uri, s: String)
    ensures #[trigger] vstd::string::to_string_from_display_ensures::<http::Uri>(t, s) <==> s@ == uri_text(*t) {}
// a Method is determined by its text (Method::as_str); `&Method == Method` compares the two methods
pub assume_specification<'a> [<&'a http::Method as PartialEq<http::Method>>::eq] (a: &&'a http::Method, b: &http::Method) -> (r: bool)
    ensures r == (method_text(**a) == method_text(*b));
proof fn lits_skip()
    ensures "/vmagentlog"@ != "/machine/?comp=telemetrydata"@, "PUT"@ != "POST"@,
{
    reveal_strlit("/vmagentlog"); reveal_strlit("/machine/?comp=telemetrydata"); reveal_strlit("PUT"); reveal_strlit("POST");
    assert("/vmagentlog"@.len() == 11); assert("/machine/?comp=telemetrydata"@.len() == 28);
    assert("PUT"@.len() == 3); assert("POST"@.len() == 4);
}
#[verifier::external_type_specification] #[verifier::external_body]
pub struct ExReqBuilder(http::request::Builder);
// a request::Builder holds Ok(parts) or the first error met ("When builder has error returns None")
pub uninterp spec fn builder_parts(b: http::request::Builder) -> Option<http::request::Parts>;
pub open spec fn opt_bytes(b: Option<Vec<u8>>) -> Seq<u8> { match b { Some(v) => v@, None => Seq::<u8>::empty() } }
pub assume_specification [http::request::Builder::method_ref] (b: &http::request::Builder) -> (r: std::option::Option<&http::Method>)
    ensures match r { Some(m) => builder_parts(*b) matches Some(p) && *m == parts_method(p), None => builder_parts(*b) is None };
pub assume_specification [http::request::Builder::uri_ref] (b: &http::request::Builder) -> (r: std::option::Option<&http::Uri>)
    ensures match r { Some(u) => builder_parts(*b) matches Some(p) && *u == parts_uri(p), None => builder_parts(*b) is None };
pub assume_specification [http::request::Builder::headers_ref] (b: &http::request::Builder) -> (r: std::option::Option<&http::HeaderMap<http::HeaderValue>>)
    ensures match r { Some(h) => builder_parts(*b) matches Some(p) && *h == parts_headers(p), None => builder_parts(*b) is None };
pub assume_specification [http::Method::as_str] (m: &http::Method) -> (r: &str)
    ensures r@ == method_text(*m);
#[verifier::external_body]
pub broadcast proof fn axiom_to_string_method(t: &http::Method, s: String)
    ensures #[trigger] vstd::string::to_string_from_display_ensures::<http::Method>(t, s) <==> s@ == method_text(*t) {}

// ---- bytes of strings, byte vectors ----
pub assume_specification [std::string::String::as_bytes] (s: &std::string::String) -> (r: &[u8])
    ensures r@ == utf8(s@);
pub uninterp spec fn clone_is_copy<T>() -> bool;                                // T::clone returns an equal value
#[verifier::external_body]
pub broadcast proof fn axiom_clone_is_copy_u8() ensures #[trigger] clone_is_copy::<u8>() {}
pub assume_specification<T> [<[T]>::to_vec] (s: &[T]) -> (r: std::vec::Vec<T>)
    where T: std::clone::Clone,
    ensures clone_is_copy::<T>() ==> r@ == s@;
// Vec::extend appends every item the argument yields, in order. items_of(i) = those items (by value).
pub uninterp spec fn items_of<I, T>(i: I) -> Seq<T>;
#[verifier::external_body]
pub broadcast proof fn axiom_items_of_slice(s: &[u8]) ensures #[trigger] items_of::<&[u8], u8>(s) == s@ {}        // slice::Iter
#[verifier::external_body]
pub broadcast proof fn axiom_items_of_vec(s: Vec<u8>) ensures #[trigger] items_of::<Vec<u8>, u8>(s) == s@ {}        // vec::IntoIter
#[verifier::external_body]
pub broadcast proof fn axiom_items_of_bytes(s: hyper::body::Bytes) ensures #[trigger] items_of::<hyper::body::Bytes, u8>(s) == bytes_view(s) {}   // bytes::buf::IntoIter<Bytes>
pub broadcast group group_items_of { axiom_items_of_slice, axiom_items_of_vec, axiom_items_of_bytes }
pub assume_specification<'a, T, A, I> [<std::vec::Vec<T, A> as std::iter::Extend<&'a T>>::extend] (v: &mut std::vec::Vec<T, A>, i: I)
    where A: std::alloc::Allocator, I: std::iter::IntoIterator<Item = &'a T>, T: std::marker::Copy + 'a,
    ensures final(v)@ == old(v)@ + items_of::<I, T>(i);
pub assume_specification<T, A, I> [<std::vec::Vec<T, A> as std::iter::Extend<T>>::extend] (v: &mut std::vec::Vec<T, A>, i: I)
    where A: std::alloc::Allocator, I: std::iter::IntoIterator<Item = T>,
    ensures final(v)@ == old(v)@ + items_of::<I, T>(i);

// ---- http header names / values ----
// HeaderName: "represents an HTTP header field name ... normalized to lower case": lower-case ASCII
#[verifier::external_body]
pub broadcast proof fn axiom_header_name_is_ascii_lower(k: http::header::HeaderName) ensures is_ascii_lower(#[trigger] hn_view(k)) {}
// Display for HeaderName writes the (lower-case) name
#[verifier::external_body]
pub broadcast proof fn axiom_to_string_header_name(t: &http::header::HeaderName, s: String)
    ensures #[trigger] vstd::string::to_string_from_display_ensures::<http::header::HeaderName>(t, s) <==> s@ == hn_view(*t) {}
// str::to_lowercase of ASCII text is the ASCII lower-casing
#[verifier::external_body]
pub broadcast proof fn axiom_lower_ascii(s: Seq<char>)
    requires forall|i: int| 0 <= i < s.len() ==> (#[trigger] s[i] as u32) < 128,
    ensures #[trigger] lower(s) == ascii_lower(s) {}
// HeaderValue::to_str: "Yields a &str slice if the HeaderValue only contains visible ASCII chars" (else Err)
// (hv_visible_ascii, ToStrError and the specification of HeaderValue::to_str are in contracts/common/http.rs)
pub assume_specification [str::trim] (s: &str) -> (r: &str)
    ensures r@ == trim(s@);
pub assume_specification [str::eq_ignore_ascii_case] (a: &str, b: &str) -> (r: bool)
    ensures r == (ascii_lower(a@) == ascii_lower(b@));

// ---- E11 transparent iterator newtypes ----
#[verifier::external_body]
pub struct VxHdrIter<'a>(http::header::Iter<'a, http::header::HeaderValue>);
pub uninterp spec fn vx_hdr_remaining<'a>(it: &VxHdrIter<'a>) -> Seq<(&'a http::header::HeaderName, &'a http::header::HeaderValue)>;
impl<'a> VxHdrIter<'a> {
    // delegates to http::header::Iter::next; contract = Iterator::next on the remaining items
    #[verifier::external_body]
    pub fn next(&mut self) -> (r: Option<(&'a http::header::HeaderName, &'a http::header::HeaderValue)>)
        ensures
            vx_hdr_remaining(old(self)).len() == 0 ==> r is None && vx_hdr_remaining(final(self)) == vx_hdr_remaining(old(self)),
            vx_hdr_remaining(old(self)).len() > 0 ==> r == Some(vx_hdr_remaining(old(self))[0]) && vx_hdr_remaining(final(self)) == vx_hdr_remaining(old(self)).drop_first(),
    { self.0.next() }
}
impl<'a> Iterator for VxHdrIter<'a> {
    type Item = (&'a http::header::HeaderName, &'a http::header::HeaderValue);
    #[verifier::external_body]
    fn next(&mut self) -> (r: Option<(&'a http::header::HeaderName, &'a http::header::HeaderValue)>) { self.0.next() }
}
pub open spec fn hdr_pairs<'a>(s: Seq<(&'a http::header::HeaderName, &'a http::header::HeaderValue)>) -> Seq<(Seq<char>, http::header::HeaderValue)> {
    Seq::new(s.len(), |i: int| (hn_view(*s[i].0), *s[i].1))
}
#[verifier::external_body]
pub struct VxSortedKeys<'a>(std::vec::IntoIter<&'a String>);
pub uninterp spec fn vx_keys_remaining<'a>(it: &VxSortedKeys<'a>) -> Seq<&'a String>;
impl<'a> VxSortedKeys<'a> {
    // delegates to vec::IntoIter::next
    #[verifier::external_body]
    pub fn next(&mut self) -> (r: Option<&'a String>)
        ensures
            vx_keys_remaining(old(self)).len() == 0 ==> r is None && vx_keys_remaining(final(self)) == vx_keys_remaining(old(self)),
            vx_keys_remaining(old(self)).len() > 0 ==> r == Some(vx_keys_remaining(old(self))[0]) && vx_keys_remaining(final(self)) == vx_keys_remaining(old(self)).drop_first(),
    { self.0.next() }
}
impl<'a> Iterator for VxSortedKeys<'a> {
    type Item = &'a String;
    #[verifier::external_body]
    fn next(&mut self) -> (r: Option<&'a String>) { self.0.next() }
}
pub open spec fn key_views<'a>(s: Seq<&'a String>) -> Seq<Seq<char>> { Seq::new(s.len(), |i: int| s[i]@) }
// the order in which HeaderMap::iter() / `keys().sorted()` yield (a function of the map; unconstrained beyond the stubs' contracts)
pub uninterp spec fn hdr_iter_pairs(h: http::HeaderMap) -> Seq<(http::header::HeaderName, http::header::HeaderValue)>;
pub open spec fn hdr_iter_views(h: http::HeaderMap) -> Seq<(Seq<char>, http::header::HeaderValue)> {
    Seq::new(hdr_iter_pairs(h).len(), |i: int| (hn_view(hdr_iter_pairs(h)[i].0), hdr_iter_pairs(h)[i].1))
}
pub uninterp spec fn sorted_keys_of<V>(m: Map<String, V>) -> Seq<String>;
pub open spec fn string_views(s: Seq<String>) -> Seq<Seq<char>> { Seq::new(s.len(), |i: int| s[i]@) }
// every character sequence is the content of some String
pub uninterp spec fn string_of(s: Seq<char>) -> String;
#[verifier::external_body]
pub broadcast proof fn axiom_string_of(s: Seq<char>) ensures (#[trigger] string_of(s))@ == s {}
proof fn lits_auth()
    ensures crate::common::constants::AUTHORIZATION_HEADER@ == AUTH_H(), is_ascii_lower(AUTH_H()), ascii_lower(AUTH_H()) == AUTH_H(), lower(AUTH_H()) == AUTH_H(),
{
    reveal_strlit("x-ms-azure-host-authorization");
    assert(AUTH_H().len() == 29);
    assert(is_ascii_lower(AUTH_H()));
    lemma_ascii_lower_id(AUTH_H());
    axiom_lower_ascii(AUTH_H());
}
// String::from(&str) copies the characters
#[verifier::external_body]
pub broadcast proof fn axiom_string_from_str_obeys() ensures #[trigger] <String as vstd::std_specs::convert::FromSpec<&str>>::obeys_from_spec() {}
#[verifier::external_body]
pub broadcast proof fn axiom_string_from_str(s: &str) ensures (#[trigger] <String as vstd::std_specs::convert::FromSpec<&str>>::from_spec(s))@ == s@ {}
// String as a hash-table key: Hash and Eq of String are functions of its characters (DESIGN 2.5 item 4)
#[verifier::external_body]
pub broadcast proof fn axiom_string_obeys_key_model() ensures #[trigger] obeys_key_model::<String>() {}
// lower is idempotent (Unicode lower-casing of an already lower-cased string changes nothing)
#[verifier::external_body]
pub broadcast proof fn axiom_lower_idempotent(s: Seq<char>)
    ensures #[trigger] lower(lower(s)) == lower(s) {}
pub assume_specification [http::Uri::path] (u: &http::Uri) -> (r: &str)
    ensures r@ == uri_path(*u);
pub uninterp spec fn box_body_bytes(b: http_body_util::combinators::BoxBody<hyper::body::Bytes, hyper::Error>) -> Seq<u8>;   // all bytes the body yields
pub uninterp spec fn into_bytes_view<T>(t: T) -> Seq<u8>;    // Into<Bytes>

// ---- http::request::Builder (agent's own requests) ----
#[verifier::external_type_specification] #[verifier::external_body]
pub struct ExPathAndQuery(http::uri::PathAndQuery);
#[verifier::external_type_specification] #[verifier::external_body]
pub struct ExHttpError(http::Error);
pub assume_specification [http::Request::<()>::builder] () -> (r: http::request::Builder)
    ensures builder_parts(r) matches Some(p) && hm_view(parts_headers(p)) == Map::<Seq<char>, Seq<http::header::HeaderValue>>::empty();
pub assume_specification [http::Uri::path_and_query] (u: &http::Uri) -> std::option::Option<&http::uri::PathAndQuery>;
pub assume_specification [http::uri::PathAndQuery::as_str] (p: &http::uri::PathAndQuery) -> &str;
// method / uri: set one part, keep the headers (an invalid argument puts the builder into its error state)
pub assume_specification<T> [http::request::Builder::method] (b: http::request::Builder, m: T) -> (r: http::request::Builder)
    where <http::Method as std::convert::TryFrom<T>>::Error: std::convert::Into<http::Error>, http::Method: std::convert::TryFrom<T>,
    ensures builder_parts(r) matches Some(p2) ==> builder_parts(b) matches Some(p1) && parts_headers(p2) == parts_headers(p1);
pub assume_specification<T> [http::request::Builder::uri] (b: http::request::Builder, u: T) -> (r: http::request::Builder)
    where <http::Uri as std::convert::TryFrom<T>>::Error: std::convert::Into<http::Error>, http::Uri: std::convert::TryFrom<T>,
    ensures builder_parts(r) matches Some(p2) ==> builder_parts(b) matches Some(p1) && parts_headers(p2) == parts_headers(p1);
// header: "Appends a header to this request builder. This function will append the provided key/value as a header to the
// internal HeaderMap being constructed." Name and value are converted with TryFrom; on failure the builder keeps the error.
pub uninterp spec fn value_text<V>(v: V) -> Seq<char>;        // the text a String / &String / &str value argument carries
#[verifier::external_body]
pub broadcast proof fn axiom_value_text_string(v: String) ensures #[trigger] value_text::<String>(v) == v@ {}
#[verifier::external_body]
pub broadcast proof fn axiom_value_text_string_ref(v: &String) ensures #[trigger] value_text::<&String>(v) == v@ {}
#[verifier::external_body]
pub broadcast proof fn axiom_key_view_string(k: String) ensures #[trigger] key_view::<String>(k) == ascii_lower(k@) {}   // HeaderName::try_from lower-cases
pub open spec fn hm_appended(hm: HMap, n: Seq<char>, v: http::header::HeaderValue) -> HMap {
    hm.insert(n, if hm.contains_key(n) { hm[n].push(v) } else { seq![v] })
}
pub assume_specification<K, V> [http::request::Builder::header] (b: http::request::Builder, k: K, v: V) -> (r: http::request::Builder)
    where <http::HeaderName as std::convert::TryFrom<K>>::Error: std::convert::Into<http::Error>,
          <http::HeaderValue as std::convert::TryFrom<V>>::Error: std::convert::Into<http::Error>,
          http::HeaderName: std::convert::TryFrom<K>, http::HeaderValue: std::convert::TryFrom<V>,
    ensures builder_parts(r) matches Some(p2) ==> builder_parts(b) matches Some(p1) && parts_method(p2) == parts_method(p1) && parts_uri(p2) == parts_uri(p1)
                && exists|val: http::header::HeaderValue| hv_view(val) == value_text(v)
                    && #[trigger] hm_appended(hm_view(parts_headers(p1)), key_view(k), val) == hm_view(parts_headers(p2));
// body: "Consumes this builder, using the provided body to return a constructed Request"; Err if the builder holds an error
pub assume_specification<T> [http::request::Builder::body] (b: http::request::Builder, body: T) -> (r: std::result::Result<http::Request<T>, http::Error>)
    ensures r matches Ok(q) ==> builder_parts(b) matches Some(p) && req_method(q) == parts_method(p) && req_uri(q) == parts_uri(p)
                && req_headers(q) == parts_headers(p) && req_body(q) == body;
#[verifier::external_body] pub broadcast proof fn axiom_fmt_http_error() ensures #[trigger] vstd::std_specs::fmt::fmt_req_all::<http::Error>() {}
#[verifier::external_body]
pub broadcast proof fn axiom_into_bytes_vec(v: Vec<u8>) ensures #[trigger] into_bytes_view::<Vec<u8>>(v) == v@ {}      // Bytes::from(Vec<u8>)

// ---- header value bytes read as text (fix F6e: String::from_utf8_lossy(value.as_bytes())) ----
pub uninterp spec fn hv_bytes(v: http::header::HeaderValue) -> Seq<u8>;          // HeaderValue::as_bytes
pub uninterp spec fn utf8_lossy(b: Seq<u8>) -> Seq<char>;                        // String::from_utf8_lossy (invalid sequences -> U+FFFD)
pub assume_specification [http::header::HeaderValue::as_bytes] (v: &http::header::HeaderValue) -> (r: &[u8])
    ensures r@ == hv_bytes(*v);
// a visible-ASCII value is valid UTF-8 and its lossy reading is its text (the &str HeaderValue::to_str yields); for other
// values the text is unconstrained
#[verifier::external_body]
pub broadcast proof fn axiom_hv_text_visible_ascii(v: http::header::HeaderValue)
    requires hv_visible_ascii(v),
    ensures #[trigger] utf8_lossy(hv_bytes(v)) == hv_view(v) {}
pub assume_specification [http::StatusCode::is_success] (s: &http::StatusCode) -> (r: bool)
    ensures r == (200 <= status_code(*s) < 300);
pub uninterp spec fn cow_text(c: std::borrow::Cow<'_, str>) -> Seq<char>;       // the str a Cow<str> holds (borrowed or owned)
// String::from_utf8_lossy: "Converts a slice of bytes to a string, including invalid characters" (never fails)
pub assume_specification [std::string::String::from_utf8_lossy] (v: &[u8]) -> (r: std::borrow::Cow<'_, str>)
    ensures cow_text(r) == utf8_lossy(v@);
#[verifier::external_body]
pub broadcast proof fn axiom_to_string_cow(t: &std::borrow::Cow<'_, str>, s: String)
    ensures #[trigger] vstd::string::to_string_from_display_ensures::<std::borrow::Cow<'_, str>>(t, s) <==> s@ == cow_text(*t) {}

// http::Uri::query (same contract as in unit authz): the text after the first '?', if any
pub assume_specification [http::Uri::query] (u: &http::Uri) -> (r: Option<&str>)
    ensures match r { Some(q) => uri_query(*u) == Some(q@), None => uri_query(*u) is None };
