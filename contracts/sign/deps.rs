// assumed specifications of std / dependency functions used by the signing code (trusted, written from their docs)
use vstd::std_specs::hash::*;
use vstd::std_specs::iter::*;

// ---- byte views of `impl AsRef<[u8]>` arguments ----
pub uninterp spec fn as_ref_bytes<T>(t: T) -> Seq<u8>;
#[verifier::external_body]
pub broadcast proof fn axiom_as_ref_bytes_str(s: &str) ensures #[trigger] as_ref_bytes::<&str>(s) == utf8(s@) {}
#[verifier::external_body]
pub broadcast proof fn axiom_as_ref_bytes_slice(s: &[u8]) ensures #[trigger] as_ref_bytes::<&[u8]>(s) == s@ {}
#[verifier::external_body]
pub broadcast proof fn axiom_as_ref_bytes_vec(s: Vec<u8>) ensures #[trigger] as_ref_bytes::<Vec<u8>>(s) == s@ {}
#[verifier::external_body]
pub broadcast proof fn axiom_as_ref_bytes_arr32(s: [u8; 32]) ensures #[trigger] as_ref_bytes::<[u8; 32]>(s) == s@ {}
pub broadcast group group_as_ref_bytes { axiom_as_ref_bytes_str, axiom_as_ref_bytes_slice, axiom_as_ref_bytes_vec, axiom_as_ref_bytes_arr32 }

// ---- hex ----
#[verifier::external_type_specification] #[verifier::external_body]
pub struct ExFromHexError(hex::FromHexError);
// hex::decode: "Decodes a hex string into raw bytes"; Err if the input is not an even-length string of hex digits
pub assume_specification<T> [hex::decode] (data: T) -> (r: std::result::Result<std::vec::Vec<u8>, hex::FromHexError>)
    where T: std::convert::AsRef<[u8]>,
    ensures (r matches Ok(v) ==> unhex_bytes(as_ref_bytes(data)) == Some(v@)),
            (r is Err ==> unhex_bytes(as_ref_bytes(data)) is None);
// hex::encode: "Encodes data as hex string using lowercase characters"
pub assume_specification<T> [hex::encode] (data: T) -> (r: std::string::String)
    where T: std::convert::AsRef<[u8]>,
    ensures r@ == hex_text(as_ref_bytes(data));

// ---- hmac_sha256::HMAC (incremental interface): key fixed by new, message = concatenation of the updates ----
#[verifier::external_type_specification] #[verifier::external_body]
pub struct ExHMAC(hmac_sha256::HMAC);
pub uninterp spec fn hmac_key(h: hmac_sha256::HMAC) -> Seq<u8>;
pub uninterp spec fn hmac_msg(h: hmac_sha256::HMAC) -> Seq<u8>;
pub assume_specification<K: std::convert::AsRef<[u8]>> [hmac_sha256::HMAC::new] (k: K) -> (r: hmac_sha256::HMAC)
    ensures hmac_key(r) == as_ref_bytes(k), hmac_msg(r) == Seq::<u8>::empty();
pub assume_specification<I: std::convert::AsRef<[u8]>> [hmac_sha256::HMAC::update] (h: &mut hmac_sha256::HMAC, input: I)
    ensures hmac_key(*final(h)) == hmac_key(*old(h)), hmac_msg(*final(h)) == hmac_msg(*old(h)) + as_ref_bytes(input);
pub assume_specification [hmac_sha256::HMAC::finalize] (h: hmac_sha256::HMAC) -> (r: [u8; 32])
    ensures r@ == hmac_sha256(hmac_key(h), hmac_msg(h));

// ---- core::str ----
pub assume_specification [str::to_lowercase] (s: &str) -> (r: String)
    ensures r@ == lower(s@);

// ---- http::Method / http::Uri ----
// Display for Uri writes the URI as given (scheme://authority path ?query as present)
#[verifier::external_body]
pub broadcast proof fn axiom_to_string_uri(t: &http::Uri, s: String)
    ensures #[trigger] vstd::string::to_string_from_display_ensures::<http::Uri>(t, s) <==> s@ == uri_text(*t) {}
// a Method is determined by its text (Method::as_str); `&Method == Method` compares the two methods
pub assume_specification<'a> [<&'a http::Method as PartialEq<http::Method>>::eq] (a: &&'a http::Method, b: &http::Method) -> (r: bool)
    ensures r == (method_text(**a) == method_text(*b));
proof fn lits_skip()
    ensures "/vmagentlog"@ != "/machine/?comp=telemetrydata"@, "PUT"@ != "POST"@,
{
    reveal_strlit("/vmagentlog"); reveal_strlit("/machine/?comp=telemetrydata"); reveal_strlit("PUT"); reveal_strlit("POST");
    assert("/vmagentlog"@.len() == 11); assert("/machine/?comp=telemetrydata"@.len() == 28);
    assert("PUT"@.len() == 3); assert("POST"@.len() == 4);
}
#[verifier::external_type_specification] #[verifier::external_body]
pub struct ExReqBuilder(http::request::Builder);
// a request::Builder holds Ok(parts) or the first error met ("When builder has error returns None")
pub uninterp spec fn builder_parts(b: http::request::Builder) -> Option<http::request::Parts>;
pub open spec fn opt_bytes(b: Option<Vec<u8>>) -> Seq<u8> { match b { Some(v) => v@, None => Seq::<u8>::empty() } }
pub assume_specification [http::request::Builder::method_ref] (b: &http::request::Builder) -> (r: std::option::Option<&http::Method>)
    ensures match r { Some(m) => builder_parts(*b) matches Some(p) && *m == parts_method(p), None => builder_parts(*b) is None };
pub assume_specification [http::request::Builder::uri_ref] (b: &http::request::Builder) -> (r: std::option::Option<&http::Uri>)
    ensures match r { Some(u) => builder_parts(*b) matches Some(p) && *u == parts_uri(p), None => builder_parts(*b) is None };
pub assume_specification [http::request::Builder::headers_ref] (b: &http::request::Builder) -> (r: std::option::Option<&http::HeaderMap<http::HeaderValue>>)
    ensures match r { Some(h) => builder_parts(*b) matches Some(p) && *h == parts_headers(p), None => builder_parts(*b) is None };
pub assume_specification [http::Method::as_str] (m: &http::Method) -> (r: &str)
    ensures r@ == method_text(*m);
#[verifier::external_body]
pub broadcast proof fn axiom_to_string_method(t: &http::Method, s: String)
    ensures #[trigger] vstd::string::to_string_from_display_ensures::<http::Method>(t, s) <==> s@ == method_text(*t) {}

// ---- bytes of strings, byte vectors ----
pub assume_specification [std::string::String::as_bytes] (s: &std::string::String) -> (r: &[u8])
    ensures r@ == utf8(s@);
pub uninterp spec fn clone_is_copy<T>() -> bool;                                // T::clone returns an equal value
#[verifier::external_body]
pub broadcast proof fn axiom_clone_is_copy_u8() ensures #[trigger] clone_is_copy::<u8>() {}
pub assume_specification<T> [<[T]>::to_vec] (s: &[T]) -> (r: std::vec::Vec<T>)
    where T: std::clone::Clone,
    ensures clone_is_copy::<T>() ==> r@ == s@;
