# unit `sign` (C04, C10): hyper_client.rs canonical string + exemption list, helpers.rs compute_signature, signing call sites
import os
from vxlib import Undecided
HERE = os.path.dirname(os.path.abspath(__file__))
CON = os.path.dirname(HERE)
COMMON = os.path.join(CON, "common")

ASSUMPTIONS = []
FN_PROPS = {}


def build(u):
    hc = u.src("proxy_agent/src/common/hyper_client.rs")
    hp = u.src("proxy_agent/src/common/helpers.rs")
    consts = u.src("proxy_agent/src/common/constants.rs")
    err = u.src("proxy_agent/src/common/error.rs")
    u.features += ["allocator_api", "sized_hierarchy", "pattern", "const_destruct", "const_trait_impl"]
    for f in ("str_axioms.rs", "ext_types.rs", "std_string.rs", "http.rs"):
        u.raw(open(os.path.join(COMMON, f)).read())
    u.raw_file("spec.rs")
    u.raw_file("deps.rs")
    with u.mod("common"):
        with u.mod("error"):
            u.take_ext(err, ["Error", "HyperErrorType", "WireServerErrorType", "KeyErrorType", "AclErrorType", "BpfErrorType"], "vx_ext_error", uses="use http::{uri::InvalidUri, StatusCode};")
        with u.mod("result", uses="use super::error::Error;"):
            u.raw("pub type Result<T> = core::result::Result<T, Error>;")
        with u.mod("constants"):
            for n in ("CLAIMS_IS_ROOT", "CLAIMS_HEADER", "AUTHORIZATION_HEADER", "DATE_HEADER", "AUTHORIZATION_SCHEME"):
                u.take(consts, n, "const")
        with u.mod("helpers", uses="use super::error::Error;\nuse super::result::Result;"):
            u.take_fn(hp, "compute_signature",
                pre_body="broadcast use group_as_ref_bytes;",
                e9=[("Error::Hex(hex_encoded_key.to_string(), e)", None, "hex_encoded_key: &str, e: hex::FromHexError", "hex_encoded_key, e", "Error", "",
                     dict(name="vx_e9_hex_error", local=True))],
                contract="""
        ensures r matches Ok(s) ==> s@ == mac_spec(hex_encoded_key@, input_to_sign@),  // @C04.compute_signature.mac_is_hex_hmac_sha256_under_the_key
""")
        with u.mod("hyper_client", uses="use super::error::{Error, HyperErrorType};\nuse super::result::Result;\nuse super::{constants, helpers};\nuse http::request::Builder;\nuse http::request::Parts;\nuse http::Method;\nuse hyper::body::Bytes;\nuse hyper::Request;\nuse hyper::Uri;\nuse std::collections::HashMap;"):
            u.take(hc, "LF", "const")
            u.take_fn(hc, "headers_to_canonicalized_string", external_body=True, contract="""
        ensures r@ == canon_h(hm_view(*headers)),
""")
            u.take_fn(hc, "get_path_and_canonicalized_parameters", external_body=True, contract="""
        ensures r.0@ == uri_path(*url), r.1@ == canon_p(url_pairs(*url)),
""")
            u.take_fn(hc, "as_sig_input",
                e9=[("head.method.to_string()", None, "head: &Parts", "&head", "String", "    ensures r@ == method_text(parts_method(*head)),", dict(name="vx_e9_parts_method_text", local=True)),
                    ("&head.headers", None, "head: &Parts", "&head", "&hyper::HeaderMap", "    ensures *r == parts_headers(*head),", dict(name="vx_e9_parts_headers", local=True)),
                    ("&head.uri", None, "head: &Parts", "&head", "&Uri", "    ensures *r == parts_uri(*head),", dict(name="vx_e9_parts_uri", local=True))],
                contract="""
        ensures r@ == sig_input_spec(parts_method(head), parts_uri(head), parts_headers(head), bytes_view(body)),  // @C04.as_sig_input.canonical_string_of_the_forwarded_parts
""")
            u.take_fn(hc, "request_to_sign_input",
                e9=[("""Error::Hyper(HyperErrorType::RequestBuilder(
                "Failed to get method from request builder".to_string(),
            ))""", "all", "", "", "Error", "", dict(name="vx_e9_builder_error", local=True))],
                contract="""
        ensures r matches Ok(d) ==> builder_parts(*request_builder) matches Some(p) && d@ == sig_input_spec(parts_method(p), parts_uri(p), parts_headers(p), opt_bytes(body)),  // @C04.request_to_sign_input.same_canonical_string_of_the_builders_parts
""")
            u.take_fn(hc, "should_skip_sig",
                pre_body="broadcast use axiom_to_string_uri;\nproof { lits_skip(); }",
                e9=[("hyper::Method::PUT", None, "", "", "hyper::Method", "    ensures method_text(r) == \"PUT\"@,", dict(name="vx_e9_method_put", local=True)),
                    ("hyper::Method::POST", None, "", "", "hyper::Method", "    ensures method_text(r) == \"POST\"@,", dict(name="vx_e9_method_post", local=True))],
                contract="""
        ensures r == skip_spec(*method, *relative_uri),  // @C04.should_skip_sig.exactly_the_two_documented_uploads
""")
