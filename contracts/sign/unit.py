# unit `sign` (C04, C10): hyper_client.rs canonical string + exemption list, helpers.rs compute_signature, signing call sites
import os
import re
from vxlib import Undecided
HERE = os.path.dirname(os.path.abspath(__file__))
CON = os.path.dirname(HERE)
COMMON = os.path.join(CON, "common")

ASSUMPTIONS = [
    "the host's canonicaliser is the one of the source comment / DESIGN C04 oracle (method LF body LF canonH path LF canonP); hyper serialises the HeaderMap/URI it is given",
    "hmac_sha256::HMAC is HMAC-SHA256 over key and the concatenated updates; hex::decode/encode are (un)hex (uninterpreted hmac_sha256, unhex_bytes, hex_text)",
    "http: HeaderMap::iter yields every (name, value) once per value, values of one name in order; HeaderName is lower-case ASCII; HeaderValue::as_bytes / String::from_utf8_lossy read a visible-ASCII value as its text (hv_view), any other value as some text (never panic); "
    "request::Builder::header appends (name lower-cased) or keeps an error, method/uri keep the headers, body() yields the builder's parts; Builder::*_ref are Some iff no error",
    "std: str::to_lowercase is `lower` (idempotent; ASCII lower-casing on ASCII text), str::trim is `trim`, eq_ignore_ascii_case compares ASCII-lower-cased text, Vec::extend appends the yielded items, "
    "String Ord (Itertools::sorted on &String) is the lexicographic order on chars, String is a lawful HashMap key, format! concatenates literal pieces and displayed String/&str/bool arguments "
    "(stub contracts generated from the literals in the tree)",
    "query_pairs satisfies the contract proved in unit authz (same text)",
    "C10: KeyKeeperSharedState::get_current_key_value / get_current_key_guid each send ONE GetKey message and project one field of the reply (unit actors); "
    "key_record(k) is introduced only by those stubs' postconditions and by attest_key's precondition (its caller passes the one record the host issued)",
    "send_request / build_http_sender (hyper client plumbing) are outside verus!{}: the write primitive of the agent's own calls, reached only through stubs whose precondition is the signed request",
]
FN_PROPS = {
    "should_skip_sig": ["C04", "C15"], "compute_signature": ["C04"], "as_sig_input": ["C04"], "request_to_sign_input": ["C04"],
    "headers_to_canonicalized_string": ["C04"], "get_path_and_canonicalized_parameters": ["C04"],
    "build_request": ["C04", "C10"], "get": ["C04", "C10"],
    "WireServerClient::get_goalstate": ["C10"], "WireServerClient::get_shared_config": ["C10"], "ImdsClient::get_imds_instance_info": ["C10"],
    "attest_key": ["C10"], "ProxyServer::handle_request_with_signature": ["C10"],
}


SORTED_KEYS_ENS = """
    ensures vx_keys_remaining(&r).len() == sorted_keys_of(map@).len(),
            forall|i: int| 0 <= i < vx_keys_remaining(&r).len() ==> *(#[trigger] vx_keys_remaining(&r)[i]) == sorted_keys_of(map@)[i],
            ascending(string_views(sorted_keys_of(map@))),
            sorted_keys_of(map@).to_set() == map@.dom(),"""

HDR_PRE = """broadcast use vstd::std_specs::hash::group_hash_axioms;
broadcast use axiom_string_obeys_key_model, axiom_to_string_cow, axiom_to_string_header_name, axiom_header_name_is_ascii_lower, axiom_lower_ascii, axiom_string_of, axiom_string_ext, axiom_string_from_str_obeys, axiom_string_from_str;
proof { reveal_strlit("\\n"); reveal_strlit(""); reveal_strlit(":"); assert(""@ =~= Seq::<char>::empty()); lits_auth(); }
let ghost hm = hm_view(*headers);
let ghost S = hdr_iter_pairs(*headers);
let ghost SV = hdr_iter_views(*headers);
let ghost mut K: Seq<String> = Seq::empty();
let ghost mut KV: Seq<Seq<char>> = Seq::empty();
let ghost mut acc: Seq<Seq<char>> = Seq::empty();
"""
HDR_INV0 = """
        invariant
            vx_hdr_remaining(&vx_it0).len() <= S.len(),
            forall|j: int| 0 <= j < vx_hdr_remaining(&vx_it0).len() ==> *(#[trigger] vx_hdr_remaining(&vx_it0)[j]).0 == S[S.len() - vx_hdr_remaining(&vx_it0).len() + j].0
                && *vx_hdr_remaining(&vx_it0)[j].1 == S[S.len() - vx_hdr_remaining(&vx_it0).len() + j].1,
            forall|k: String| #[trigger] map@.contains_key(k) <==> values_named(SV.subrange(0, S.len() - vx_hdr_remaining(&vx_it0).len()), k@).len() > 0,
            forall|k: String| #[trigger] map@.contains_key(k) ==> map@[k].1@ == hv_text(values_named(SV.subrange(0, S.len() - vx_hdr_remaining(&vx_it0).len()), k@).last()) && is_ascii_lower(k@),
        decreases vx_hdr_remaining(&vx_it0).len(),
"""
HDR_H1 = """
        proof {
            let i0 = S.len() - vx_hdr_remaining(&vx_it0).len() - 1;
            assert(*value == S[i0].1 && key@ == SV[i0].0);
        }"""
HDR_H2 = """
        proof {
            let i0 = S.len() - vx_hdr_remaining(&vx_it0).len() - 1;
            let n = SV[i0].0;
            assert(is_ascii_lower(n));
            lemma_ascii_lower_id(n);
            assert(key_lower_case@ == n);
            assert(SV.subrange(0, i0 + 1).drop_last() =~= SV.subrange(0, i0));
            assert(SV.subrange(0, i0 + 1).last() == SV[i0]);
            assert forall|k: String| #[trigger] map@.contains_key(k) <==> values_named(SV.subrange(0, i0 + 1), k@).len() > 0 by {
                if k@ == n { assert(k == key_lower_case); }
            }
            assert forall|k: String| #[trigger] map@.contains_key(k) implies map@[k].1@ == hv_text(values_named(SV.subrange(0, i0 + 1), k@).last()) && is_ascii_lower(k@) by {
                if k@ == n { assert(k == key_lower_case); }
            }
        }"""
HDR_H3 = """
    proof {
        assert(SV.subrange(0, S.len() as int) =~= SV);
        assert forall|k: String| #[trigger] map@.contains_key(k) <==> hm.contains_key(k@) by {
            if map@.contains_key(k) { lemma_values_named_nonempty(SV, k@); }
            if hm.contains_key(k@) { assert(values_named(SV, k@) == hm[k@]); }
        }
        K = sorted_keys_of(map@);
        KV = string_views(K);
    }"""
HDR_INV1 = """
        invariant
            K == sorted_keys_of(map@), KV == string_views(K), ascending(KV), K.to_set() == map@.dom(),
            forall|k: String| #[trigger] map@.contains_key(k) <==> hm.contains_key(k@),
            forall|k: String| #[trigger] map@.contains_key(k) ==> map@[k].1@ == hv_text(signed_value(hm[k@])) && is_ascii_lower(k@),
            vx_keys_remaining(&vx_it1).len() <= K.len(),
            forall|j: int| 0 <= j < vx_keys_remaining(&vx_it1).len() ==> *(#[trigger] vx_keys_remaining(&vx_it1)[j]) == K[K.len() - vx_keys_remaining(&vx_it1).len() + j],
            ascending(acc),
            forall|x: Seq<char>| #[trigger] acc.contains(x) <==> lower(x) != AUTH_H() && exists|i: int| 0 <= i < K.len() - vx_keys_remaining(&vx_it1).len() && #[trigger] KV[i] == x,
            canonicalized_headers@ == header_lines(acc, hm),
            separator@ == lf(),
        decreases vx_keys_remaining(&vx_it1).len(),
"""
HDR_H3B = """
        proof {
            let i0 = K.len() - vx_keys_remaining(&vx_it1).len() - 1;
            assert(*key == K[i0] && key@ == KV[i0]);
            assert(K.to_set().contains(K[i0]));
            assert(map@.contains_key(*key));
        }"""
HDR_H4 = """
        proof {
            let i0 = K.len() - vx_keys_remaining(&vx_it1).len() - 1;
            assert(*key == K[i0] && key@ == KV[i0]);
            assert(K.to_set().contains(K[i0]));
            lemma_ascii_lower_id(key@);
            assert(lower(key@) == key@);
            lemma_header_lines_push(acc, key@, hm);
            assert(h@ =~= header_line(key@, signed_value(hm[key@])));  // @C04.headers_to_canonicalized_string.line_is_lower_name_colon_trimmed_value_lf
            let acc0 = acc;
            acc = acc.push(key@);
            assert forall|p: int, q: int| 0 <= p < q < acc.len() implies lex_lt(#[trigger] acc[p], #[trigger] acc[q]) by {
                if q == acc0.len() {
                    assert(acc0.contains(acc0[p]));
                    let i = choose|i: int| 0 <= i < i0 && #[trigger] KV[i] == acc0[p];
                    assert(lex_lt(KV[i], KV[i0]));
                } else { assert(lex_lt(acc0[p], acc0[q])); }
            }
            assert forall|x: Seq<char>| #[trigger] acc.contains(x) <==> lower(x) != AUTH_H() && exists|i: int| 0 <= i < i0 + 1 && #[trigger] KV[i] == x by {  // @C04.headers_to_canonicalized_string.every_other_header_is_signed
                if acc.contains(x) {
                    let j = choose|j: int| 0 <= j < acc.len() && acc[j] == x;
                    if j < acc0.len() { assert(acc0[j] == x); assert(acc0.contains(x)); } else { assert(KV[i0] == x); }
                }
                if lower(x) != AUTH_H() && exists|i: int| 0 <= i < i0 + 1 && #[trigger] KV[i] == x {
                    let i = choose|i: int| 0 <= i < i0 + 1 && #[trigger] KV[i] == x;
                    if i < i0 { assert(acc0.contains(x)); let j = choose|j: int| 0 <= j < acc0.len() && acc0[j] == x; assert(acc[j] == x); } else { assert(acc[acc0.len() as int] == x); }
                }
            }
        }"""
HDR_H4C = """
            proof {
                let i0 = K.len() - vx_keys_remaining(&vx_it1).len() - 1;
                assert(*key == K[i0] && key@ == KV[i0]);
                assert(K.to_set().contains(K[i0]));
                lemma_ascii_lower_id(key@);
                assert(lower(key@) == AUTH_H());  // @C04.headers_to_canonicalized_string.only_the_authorization_header_is_skipped
            }"""
HDR_H5 = """
    proof {
        assert forall|x: Seq<char>| acc.to_set().contains(x) == signed_names(hm).contains(x) by {
            if acc.contains(x) {
                let i = choose|i: int| 0 <= i < K.len() && #[trigger] KV[i] == x;
                assert(K.to_set().contains(K[i]));
                assert(map@.contains_key(K[i]));
            }
            if signed_names(hm).contains(x) {
                let k = string_of(x);
                assert(map@.contains_key(k));
                assert(K.to_set().contains(k));
                let i = choose|i: int| 0 <= i < K.len() && K[i] == k;
                assert(KV[i] == x);
            }
        }
        assert(acc.to_set() =~= signed_names(hm));
        lemma_sorted_names(acc, signed_names(hm));
        if all_values_visible_ascii(hm) {
            assert forall|n: Seq<char>| hm.contains_key(n) implies (#[trigger] hm[n]).len() > 0 by { assert(values_named(SV, n) == hm[n]); }
            lemma_canon_h_exact(hm);
        }
    }"""


PAR_PRE = """broadcast use vstd::std_specs::hash::group_hash_axioms;
broadcast use axiom_string_obeys_key_model, axiom_string_ext, axiom_string_of, axiom_lower_idempotent, axiom_to_string_string;
proof { reveal_strlit(""); reveal_strlit("="); reveal_strlit("&"); assert(""@ =~= Seq::<char>::empty()); assert("&"@ =~= seq!['&']); }
let ghost P = url_pairs(*url);
let ghost mut K: Seq<String> = Seq::empty();
let ghost mut KV: Seq<Seq<char>> = Seq::empty();
let ghost mut segs: Seq<Seq<char>> = Seq::empty();
"""
PAR_H0 = """
    let ghost QP = query_pairs@;
    proof { assert(pairs_view(QP) == P); }
"""
PAR_INV0 = """
            invariant
                it.seq() == QP, pairs_view(QP) == P,
                forall|j: int| 0 <= j < it.index@ ==> pairs@.contains_key(string_of(sort_key(#[trigger] P[j]))),
                forall|sk: String| #[trigger] pairs@.contains_key(sk) ==> entry_for_key(P, it.index@ as int, sk@, pairs@[sk].0@, pairs@[sk].1@),
"""
PAR_H1 = """
            proof {
                let i0 = it.index@ as int;
                assert(it.seq()[i0] == QP[i0]);
                assert(P[i0] == (QP[i0].0@, QP[i0].1@));
                let skey = string_of(sort_key(P[i0]));
                assert(skey@ =~= key@ + value@);  // @C04.get_path_and_canonicalized_parameters.pairs_ordered_by_lower_key_then_value
                assert forall|j: int| 0 <= j < i0 + 1 implies pairs@.contains_key(string_of(sort_key(#[trigger] P[j]))) by {}  // @C04.get_path_and_canonicalized_parameters.pairs_ordered_by_lower_key_then_value
                assert forall|sk: String| #[trigger] pairs@.contains_key(sk) implies entry_for_key(P, i0 + 1, sk@, pairs@[sk].0@, pairs@[sk].1@) by {  // @C04.get_path_and_canonicalized_parameters.entry_is_lower_key_and_value_as_received
                    if sk@ == skey@ { assert(sk == skey); assert(sort_key(P[i0]) == sk@); }
                    else { assert(sk != skey); let j = choose|j: int| 0 <= j < i0 && j < P.len() && sort_key(#[trigger] P[j]) == sk@ && pairs@[sk].0@ == lower(P[j].0) && pairs@[sk].1@ == P[j].1; assert(sort_key(P[j]) == sk@); }
                }
            }"""
PAR_H2 = """
        proof {
            K = sorted_keys_of(pairs@);
            KV = string_views(K);
        }"""
PAR_INV1 = """
            invariant
                K == sorted_keys_of(pairs@), KV == string_views(K), ascending(KV), K.to_set() == pairs@.dom(),
                vx_keys_remaining(&vx_it1).len() <= K.len(),
                forall|j: int| 0 <= j < vx_keys_remaining(&vx_it1).len() ==> *(#[trigger] vx_keys_remaining(&vx_it1)[j]) == K[K.len() - vx_keys_remaining(&vx_it1).len() + j],
                forall|j: int| 0 <= j < P.len() ==> pairs@.contains_key(string_of(sort_key(#[trigger] P[j]))),
                forall|sk: String| #[trigger] pairs@.contains_key(sk) ==> entry_for_key(P, P.len() as int, sk@, pairs@[sk].0@, pairs@[sk].1@),
                first == (K.len() - vx_keys_remaining(&vx_it1).len() == 0),
                segs.len() == K.len() - vx_keys_remaining(&vx_it1).len(),
                forall|i: int| 0 <= i < segs.len() ==> #[trigger] seg_for_key(P, KV[i], segs[i]),
                canonicalized_parameters@ == join_amp(segs),
            decreases vx_keys_remaining(&vx_it1).len(),
"""
PAR_H3 = """
            proof {
                let i0 = K.len() - vx_keys_remaining(&vx_it1).len() - 1;
                assert(*key == K[i0] && key@ == KV[i0]);
                assert(K.to_set().contains(K[i0]));
            }"""
PAR_H4 = """
            proof {
                let i0 = K.len() - vx_keys_remaining(&vx_it1).len() - 1;
                assert(entry_for_key(P, P.len() as int, key@, query_pair.0@, query_pair.1@));
                let j = choose|j: int| 0 <= j < P.len() && j < P.len() && sort_key(#[trigger] P[j]) == key@ && query_pair.0@ == lower(P[j].0) && query_pair.1@ == P[j].1;
                if P[j].1.len() == 0 { assert(key@ =~= lower(P[j].0)); }
                assert(p@ =~= segment(P[j]));  // @C04.get_path_and_canonicalized_parameters.segment_is_lower_key_or_lower_key_eq_value
                lemma_join_amp_push(segs, p@);
                let segs0 = segs;
                segs = segs.push(p@);
                assert(seg_for_key(P, KV[i0], segs[i0]));
                assert forall|i: int| 0 <= i < segs.len() implies #[trigger] seg_for_key(P, KV[i], segs[i]) by { if i < i0 { assert(seg_for_key(P, KV[i], segs0[i])); } }
            }"""
PAR_H5 = """
        proof {
            assert forall|j: int| 0 <= j < P.len() implies KV.contains(sort_key(#[trigger] P[j])) by {
                let sk = string_of(sort_key(P[j]));
                assert(K.to_set().contains(sk));
                let i = choose|i: int| 0 <= i < K.len() && K[i] == sk;
                assert(KV[i] == sort_key(P[j]));
            }
            if distinct_sort_keys(P) { lemma_canon_p_by_keys(P, KV, segs); }
        }"""
PAR_H6 = """
    proof {
        if query_pairs@.len() == 0 { assert(P =~= Seq::<QPair>::empty()); assert(segments(sort_pairs(P)) =~= Seq::<Seq<char>>::empty()); }
    }"""


def fmt_e9(u, sf, it, k, params, args, argspecs, name):
    """E9 for the k-th `format!(LIT, a, b..)` of the function: the macro call moves verbatim into a stub whose contract
    (result = the literal's segments with the displayed String arguments in between) is GENERATED from the literal in the tree"""
    a, b = it["macros"][k]["span"]
    segs, fargs = u.parse_format_macro(sf.s(a, b))
    if len(fargs) != len(argspecs):
        raise Undecided("%s: format! #%d has %d arguments, contract expects %d" % (it["name"], k, len(fargs), len(argspecs)))
    def q(x):
        return '"' + x.replace("\\", "\\\\").replace('"', '\\"').replace("\n", "\\n") + '"@'
    parts = []
    for i, sg in enumerate(segs):
        parts.append(q(sg))
        if i < len(fargs):
            parts.append("(" + argspecs[i] + ")")
    return ((a, b), None, params, args, "String", "    ensures r@ == " + " + ".join(parts) + ",", dict(name=name, local=True))


BR_PRE = """broadcast use vstd::std_specs::hash::group_hash_axioms;
broadcast use axiom_string_obeys_key_model, axiom_fmt_http_error, axiom_to_string_string, axiom_value_text_string, axiom_value_text_string_ref, axiom_key_view_string,
    axiom_into_bytes_vec, axiom_clone_is_copy_u8, axiom_string_ext;
proof { reveal_strlit(""); reveal_strlit(" "); assert(""@ =~= Seq::<char>::empty()); lits_auth(); }
"""
BR_INV0 = """
        invariant true,
"""
BR_H2 = """
        let ghost b1 = request_builder;
"""
BR_H3 = """
        proof {
            if builder_parts(request_builder) is Some {
                let p1 = builder_parts(b1)->0;
                let p2 = builder_parts(request_builder)->0;
                assert(ascii_lower(crate::common::constants::AUTHORIZATION_HEADER@) == AUTH_H());
                let val = choose|val: http::header::HeaderValue| hv_view(val) == authorization_value@
                    && #[trigger] hm_appended(hm_view(parts_headers(p1)), AUTH_H(), val) == hm_view(parts_headers(p2));
                assert(hv_view(val) =~= "Azure-HMAC-SHA256"@ + " "@ + key_guid@ + " "@ + mac_spec(key@, sig_input_spec(parts_method(p2), parts_uri(p2), parts_headers(p1), opt_slice(body))));  // @C04+C10.build_request.header_value_is_scheme_key_id_and_mac_under_that_key_over_own_parts
            }
            assert(signed_builder(request_builder, key_guid@, key@, opt_slice(body)));
        }"""


def fmt_e9_pos(u, sf, it, k, types, argspecs, name, wrap=None, arg_subst=()):
    """like fmt_e9, for format! calls whose arguments are arbitrary expressions: the arguments stay at the call site (passed
    by reference, in order), the stub is `format!(LIT, vx_a0, vx_a1, ..)` with LIT copied from the tree and the contract
    generated from LIT ($ in an argspec = the stub parameter)"""
    a, b = it["macros"][k]["span"]
    txt = sf.s(a, b)
    segs, fargs = u.parse_format_macro(txt)
    if len(fargs) != len(argspecs):
        raise Undecided("%s: format! #%d has %d arguments, contract expects %d" % (it["name"], k, len(fargs), len(argspecs)))
    def q(x):
        return '"' + x.replace("\\", "\\\\").replace('"', '\\"').replace("\n", "\\n") + '"@'
    parts = []
    for i, sg in enumerate(segs):
        parts.append(q(sg))
        if i < len(fargs):
            parts.append("(" + argspecs[i].replace("$", "vx_a%d" % i) + ")")
    lit = txt[txt.index('"'):]
    # the literal token: from the first quote to its closing quote
    j = 1
    while lit[j] != '"' or lit[j - 1] == "\\":
        j += 1
    lit = lit[:j + 1]
    params = ", ".join("vx_a%d: %s" % (i, t) for i, t in enumerate(types))
    if wrap is None:
        wrap = [t.startswith("&") and t != "&str" for t in types]
    for (old, new) in arg_subst:
        # an E9 redirection that lies inside this format! call (vxlib drops nested edits: the outer one wins), applied to the argument text
        if sum(x.count(old) for x in fargs) != 1:
            raise Undecided("%s: format! #%d: nested redirection anchor %r not found exactly once" % (it["name"], k, old))
        fargs = [x.replace(old, new) for x in fargs]
    args = ", ".join(("&(%s)" % x) if wrap[i] else x for i, x in enumerate(fargs))
    body = "format!(%s, %s)" % (lit, ", ".join("vx_a%d" % i for i in range(len(fargs))))
    return ((a, b), None, params, args, "String", "    ensures r@ == " + " + ".join(parts) + ",", dict(name=name, local=True, body=body))


def ext_fns_verbatim(u, sf, modname, uses, fn_paths):
    """E1: functions copied byte-for-byte into a plain-Rust module OUTSIDE verus!{} (rustc checks them against the real
    crates; Verus never looks at them: they are reached only through E9 stubs whose contracts are assumptions)."""
    from vxlib import apply_edits
    saved = u.pieces
    u.pieces = u.ext_pieces
    u.emit("pub mod %s {\n#![allow(unused_imports, dead_code, non_snake_case)]\n%s" % (modname, uses), "glue", "E1")
    for p in fn_paths:
        it = sf.item(p, "fn")
        u.pieces += apply_edits(sf, it["span"][0], it["span"][1], [])
        u.emit("", "glue")
        u.rule("E1", "fn %s kept outside verus! verbatim (not verified)  <- %s:%d" % (p, sf.rel, sf.line_of(it["span"][0])))
    u.emit("} // mod %s" % modname, "glue", "E1")
    u.pieces = saved


SITE_PRE = """broadcast use vstd::std_specs::hash::group_hash_axioms;
broadcast use axiom_string_obeys_key_model;
"""


def site_fn(u, sf, path, ty):
    """one of the agent's own signing sites: reads the (key id, key) pair from the key keeper and calls hyper_client::get"""
    it = sf.item(path, "fn")
    merrs = [c for c in it["calls"] if c["kind"] == "method" and c["callee"] == "map_err"]
    e9 = []
    for n, c in enumerate(merrs):
        recv = sf.s(c["receiver"][0], c["receiver"][1])
        tail = sf.s(c["receiver"][1], c["span"][1])
        if ".parse::<hyper::Uri>()" in recv:
            # E9: String::parse::<Uri>() and the closure building the crate's (opaque) error value; `url` is moved into the closure
            e9.append((tuple(c["span"]), None, "url: String", "url", "Result<hyper::Uri>", "", dict(name="vx_e9_parse_uri_%s" % it["name"], local=True)))
        else:
            # E9: the closure building the crate's (opaque) error value; the receiver (the call of hyper_client::get) stays at the site
            e9.append((tuple(c["span"]), None, "res: Result<%s>" % ty, recv, "Result<%s>" % ty, "", dict(name="vx_e9_wrap_error_%s" % it["name"], local=True, body="res" + tail)))
    u.take_fn(sf, path, pre_body=SITE_PRE, e9=e9, contract="")


def ext_types_and_impls(u, sf, modname, uses, type_paths, impl_paths):
    """E1: type definitions (made pub, E2) and the listed trait impls copied byte-for-byte into a plain-Rust module outside verus!{}"""
    from vxlib import apply_edits
    u.take_ext(sf, type_paths, modname, uses=uses, opaque=False)
    close = u.ext_pieces.pop()
    assert close.text.startswith("} // mod " + modname)
    saved = u.pieces
    u.pieces = u.ext_pieces
    for p in impl_paths:
        it = sf.item(p, "impl")
        u.pieces += apply_edits(sf, it["span"][0], it["span"][1], [])
        u.emit("", "glue")
        u.rule("E1", "impl %s kept outside verus! verbatim  <- %s:%d" % (p, sf.rel, sf.line_of(it["span"][0])))
    u.ext_pieces.append(close)
    u.pieces = saved


ATT_PRE = """broadcast use vstd::std_specs::hash::group_hash_axioms;
broadcast use axiom_string_obeys_key_model, axiom_to_string_string;
proof { assert(latched(key.guid@, key.key@)); }
"""


def build(u):
    hc = u.src("proxy_agent/src/common/hyper_client.rs")
    hp = u.src("proxy_agent/src/common/helpers.rs")
    consts = u.src("proxy_agent/src/common/constants.rs")
    err = u.src("proxy_agent/src/common/error.rs")
    mh = u.src("proxy_agent_shared/src/misc_helpers.rs")
    key = u.src("proxy_agent/src/key_keeper/key.rs")
    lg = u.src("proxy_agent/src/common/logger.rs")
    kkw = u.src("proxy_agent/src/shared_state/key_keeper_wrapper.rs")
    wsc = u.src("proxy_agent/src/host_clients/wire_server_client.rs")
    imc = u.src("proxy_agent/src/host_clients/imds_client.rs")
    gst = u.src("proxy_agent/src/host_clients/goal_state.rs")
    ps = u.src("proxy_agent/src/proxy/proxy_server.rs")
    iin = u.src("proxy_agent/src/host_clients/instance_info.rs")
    u.features += ["allocator_api", "sized_hierarchy", "pattern", "const_destruct", "const_trait_impl"]
    for f in ("str_axioms.rs", "ext_types.rs", "std_string.rs", "http.rs", "http_consts.rs"):
        u.raw(open(os.path.join(COMMON, f)).read())
    u.raw("use vstd::std_specs::hash::*;")
    u.raw(open(os.path.join(COMMON, "hash_iter.rs")).read())
    u.raw_file("spec.rs")
    u.raw_file("deps.rs")
    with u.mod("proxy_agent_shared"):
        with u.mod("misc_helpers"):
            u.take_fn(mh, "get_date_time_rfc1123_string", external_body=True)
    # the upstream write primitive of the agent's own calls (hyper plumbing): outside verus!, reached through vx_e9_send_request
    ext_fns_verbatim(u, hc, "vx_ext_send", "use crate::common::error::{Error, HyperErrorType};\nuse crate::common::result::Result;\nuse hyper::Request;\nuse hyper_util::rt::TokioIo;\nuse tokio::net::TcpStream;",
                     ["send_request", "build_http_sender"])
    with u.mod("key_keeper"):
        with u.mod("key"):
            u.take(key, "Key", "struct")
    with u.mod("common"):
        with u.mod("error"):
            u.take_ext(err, ["Error", "HyperErrorType", "WireServerErrorType", "KeyErrorType", "AclErrorType", "BpfErrorType"], "vx_ext_error", uses="use http::{uri::InvalidUri, StatusCode};")
        with u.mod("result", uses="use super::error::Error;"):
            u.raw("pub type Result<T> = core::result::Result<T, Error>;")
        with u.mod("constants"):
            for n in ("CLAIMS_IS_ROOT", "CLAIMS_HEADER", "AUTHORIZATION_HEADER", "DATE_HEADER", "AUTHORIZATION_SCHEME", "METADATA_HEADER"):
                u.take(consts, n, "const")
        with u.mod("logger"):
            u.take_fn(lg, "write_warning", external_body=True)
        with u.mod("helpers", uses="use super::error::Error;\nuse super::result::Result;"):
            u.take_fn(hp, "compute_signature",
                pre_body="broadcast use group_as_ref_bytes;",
                e9=[("Error::Hex(hex_encoded_key.to_string(), e)", None, "hex_encoded_key: &str, e: hex::FromHexError", "hex_encoded_key, e", "Error", "",
                     dict(name="vx_e9_hex_error", local=True))],
                contract="""
        ensures r matches Ok(s) ==> s@ == mac_spec(hex_encoded_key@, input_to_sign@),  // @C04+C10.compute_signature.mac_is_hex_hmac_sha256_under_the_key
""")
        with u.mod("hyper_client", uses="use super::error::{Error, HyperErrorType};\nuse super::result::Result;\nuse super::{constants, helpers};\nuse http::request::Builder;\nuse http::request::Parts;\nuse http::Method;\nuse hyper::body::Bytes;\nuse hyper::Request;\nuse hyper::Uri;\nuse itertools::Itertools;\nuse std::collections::HashMap;\nuse crate::proxy_agent_shared::misc_helpers;\nuse http_body_util::combinators::BoxBody;\nuse serde::de::DeserializeOwned;\npub use crate::vx_ext_send::send_request;"):
            u.take(hc, "LF", "const")
            hit = hc.item("headers_to_canonicalized_string", "fn")
            if len(hit["loops"]) != 2 or any(l["kind"] != "for" for l in hit["loops"]):
                raise Undecided("headers_to_canonicalized_string: expected two for loops")
            L0, L1 = hit["loops"]
            u.take_fn(hc, "headers_to_canonicalized_string",
                extra_attrs="#[verifier::loop_isolation(false)]",
                contract="""
        ensures r@ == canon_h(hm_view(*headers)),  // @C04.headers_to_canonicalized_string.one_line_per_name_except_authorization_ascending
                all_values_visible_ascii(hm_view(*headers)) ==> r@ == canon_h_exact(hm_view(*headers)),  // @C04.headers_to_canonicalized_string.exact_value_text_when_values_are_visible_ascii
                true,  // @C13.headers_to_canonicalized_string.never_panics   (no precondition: returns for ANY header map)
""",
                pre_body=HDR_PRE,
                desugar_for={0: "vx_it0", 1: "vx_it1"},
                loops={0: HDR_INV0, 1: HDR_INV1},
                e9=[(tuple(L0["expr"]), None, "headers: &'a hyper::HeaderMap", "headers", "VxHdrIter<'a>", """
    ensures vx_hdr_remaining(&r).len() == hdr_iter_pairs(*headers).len(),
            forall|i: int| 0 <= i < vx_hdr_remaining(&r).len() ==> *(#[trigger] vx_hdr_remaining(&r)[i]).0 == hdr_iter_pairs(*headers)[i].0 && *vx_hdr_remaining(&r)[i].1 == hdr_iter_pairs(*headers)[i].1,
            hm_iter_ok(hm_view(*headers), hdr_iter_views(*headers)),""",
                     dict(name="vx_e11_header_iter", generics="<'a>", wrap="VxHdrIter", local=True)),
                    (tuple(L1["expr"]), None, "map: &'a HashMap<String, (String, String)>", "&map", "VxSortedKeys<'a>", SORTED_KEYS_ENS,
                     dict(name="vx_e11_sorted_keys", generics="<'a>", wrap="VxSortedKeys", body="map.keys().sorted()", local=True)),
                     # E9: `map[key]` (std::ops::Index for HashMap: panics if the key is absent) -- vstd has no IndexSpec for HashMap
                    ("map[key]", None, "map: &'a HashMap<String, (String, String)>, key: &String", "&map, key", "&'a (String, String)", """
    requires map@.contains_key(*key),
    ensures *r == map@[*key],""", dict(name="vx_e9_map_index", generics="<'a>", local=True, body="&map[key]")),
                    # the line's text: format! moved into a stub whose contract is generated from the literal in the tree; the
                    # argument expressions (incl. `.trim()`) stay in the verified body
                    fmt_e9_pos(u, hc, hit, 0, ["&String", "&str", "&String"], ["$@", "$@", "$@"], "vx_e9_fmt_header_line", wrap=[False, False, True],
                               arg_subst=[("map[key]", "vx_e9_map_index(&map, key)")])],
                hints=[
                    ("let value = ", None, "before", HDR_H1),
                    ("map.insert(", None, "after", HDR_H2),
                    (hc.s(L1["span"][0], L1["body"][0]), None, "before", HDR_H3),
                    ("let h = format!(", None, "before", HDR_H3B),
                    ("canonicalized_headers.push_str(&h);", None, "after", HDR_H4),
                    ("continue;", None, "before", HDR_H4C),
                    ("canonicalized_headers", -1, "before", HDR_H5),
                ])
            # proved in unit authz (same contract text), assumed here
            u.take_fn(hc, "query_pairs", external_body=True, contract="        ensures pairs_view(r@) == url_pairs(*uri),\n")
            pit = hc.item("get_path_and_canonicalized_parameters", "fn")
            if len(pit["loops"]) != 2 or any(l["kind"] != "for" for l in pit["loops"]) or len(pit["macros"]) != 2:
                raise Undecided("get_path_and_canonicalized_parameters: expected two for loops and two format! calls")
            P0, P1 = pit["loops"]
            u.take_fn(hc, "get_path_and_canonicalized_parameters",
                extra_attrs="#[verifier::loop_isolation(false)]",
                contract="""
        ensures r.0@ == uri_path(*url),  // @C04.get_path_and_canonicalized_parameters.path_as_received
                r.1@ == canon_p(url_pairs(*url)),  // @C04.get_path_and_canonicalized_parameters.all_pairs
                distinct_sort_keys(url_pairs(*url)) ==> r.1@ == canon_p(url_pairs(*url)),  // @C04.get_path_and_canonicalized_parameters.canonical_when_no_two_pairs_collide
""",
                pre_body=PAR_PRE,
                loop_iter_names={0: "it"},
                desugar_for={1: "vx_it1"},
                loops={0: PAR_INV0, 1: PAR_INV1},
                e9=[fmt_e9(u, hc, pit, 0, "key: &String, value: &String", "&key, &value", ["key@", "value@"], "vx_e9_fmt_sort_key"),
                    fmt_e9(u, hc, pit, 1, "query_pair: &(String, String)", "&query_pair", ["query_pair.0@", "query_pair.1@"], "vx_e9_fmt_key_eq_value"),
                    (tuple(P1["expr"]), None, "pairs: &'a HashMap<String, (String, String)>", "&pairs", "VxSortedKeys<'a>", SORTED_KEYS_ENS.replace("map@", "pairs@"),
                     dict(name="vx_e11_sorted_keys_p", generics="<'a>", wrap="VxSortedKeys", body="pairs.keys().sorted()", local=True)),
                    # E9: `pairs[key]` (Index for HashMap) and the built-in Clone of a tuple
                    ("pairs[key].clone()", None, "pairs: &HashMap<String, (String, String)>, key: &String", "&pairs, key", "(String, String)", """
    requires pairs@.contains_key(*key),
    ensures r == pairs@[*key],""", dict(name="vx_e9_map_index_clone", local=True))],
                hints=[
                    ("let mut canonicalized_parameters", None, "before", PAR_H0),
                    ("pairs.insert(", None, "after", PAR_H1),
                    ("let mut first = true;", None, "after", PAR_H2),
                    ("let query_pair = ", None, "before", PAR_H3),
                    ("canonicalized_parameters.push_str(&p);", None, "after", PAR_H4),
                    (hc.s(P1["span"][0], P1["body"][0]), None, "after", PAR_H5),
                    ("(path, canonicalized_parameters)", None, "before", PAR_H6),
                ])
            u.take_fn(hc, "as_sig_input",
                pre_body="broadcast use group_items_of, axiom_clone_is_copy_u8;\nproof { reveal_strlit(\"\\n\"); }",
                e9=[("head.method.to_string()", None, "head: &Parts", "&head", "String", "    ensures r@ == method_text(parts_method(*head)),", dict(name="vx_e9_parts_method_text", local=True)),
                    ("&head.headers", None, "head: &Parts", "&head", "&hyper::HeaderMap", "    ensures *r == parts_headers(*head),", dict(name="vx_e9_parts_headers", local=True)),
                    ("&head.uri", None, "head: &Parts", "&head", "&Uri", "    ensures *r == parts_uri(*head),", dict(name="vx_e9_parts_uri", local=True))],
                contract="""
        ensures r@ == sig_input_spec(parts_method(head), parts_uri(head), parts_headers(head), bytes_view(body)),  // @C04.as_sig_input.canonical_string_of_the_forwarded_parts
""")
            u.take_fn(hc, "request_to_sign_input",
                pre_body="broadcast use group_items_of, axiom_clone_is_copy_u8;\nproof { reveal_strlit(\"\\n\"); }",
                e9=[("""Error::Hyper(HyperErrorType::RequestBuilder(
                "Failed to get method from request builder".to_string(),
            ))""", "all", "", "", "Error", "", dict(name="vx_e9_builder_error", local=True))],
                contract="""
        ensures r matches Ok(d) ==> builder_parts(*request_builder) matches Some(p) && d@ == sig_input_spec(parts_method(p), parts_uri(p), parts_headers(p), opt_bytes(body)),  // @C04.request_to_sign_input.same_canonical_string_of_the_builders_parts
""")
            u.take_fn(hc, "host_port_from_uri", external_body=True)
            u.take_fn(hc, "empty_body", external_body=True, contract="        ensures box_body_bytes(r) == Seq::<u8>::empty(),\n")
            u.take_fn(hc, "full_body", external_body=True, contract="        ensures box_body_bytes(r) == into_bytes_view(chunk),\n")
            bit = hc.item("build_request", "fn")
            if len(bit["macros"]) != 3 or len(bit["closures"]) != 1 or len(bit["loops"]) != 1:
                raise Undecided("build_request: expected 3 format! calls, one closure, one loop")
            clo = bit["closures"][0]
            maps = [c for c in bit["calls"] if c["kind"] == "method" and c["callee"] == "map" and c["span"][0] <= clo["span"][0] and clo["span"][1] <= c["span"][1]]
            if len(maps) != 1:
                raise Undecided("build_request: body.map(closure) not found")
            u.take_fn(hc, "build_request",
                extra_attrs="#[verifier::loop_isolation(false)]",
                pre_body=BR_PRE,
                loop_iter_names={0: "it"},
                loops={0: BR_INV0},
                e9=[("hyper::header::HOST", None, "", "", "hyper::header::HeaderName", "", dict(name="vx_e9_header_host", local=True)),
                    ("hyper::header::CONTENT_LENGTH", None, "", "", "hyper::header::HeaderName", "", dict(name="vx_e9_header_content_length", local=True)),
                    fmt_e9_pos(u, hc, bit, 0, ["&str", "bool"], ["$@", "bool_text($)"], "vx_e9_fmt_claims"),
                    fmt_e9_pos(u, hc, bit, 1, ["&str", "&String", "&String"], ["$@", "$@", "$@"], "vx_e9_fmt_authorization_value"),
                    # E9: Option::map with a closure (slice -> Vec copy)
                    (tuple(maps[0]["span"]), None, "body: Option<&[u8]>", "body", "Option<Vec<u8>>", """
    ensures opt_bytes(r) == opt_slice(body),""", dict(name="vx_e9_body_to_vec", local=True)),
                    ((bit["matches"][3]["arms"][1]["body"][0], bit["matches"][3]["arms"][1]["body"][1]), None, "e: http::Error", "e", "Result<Request<BoxBody<Bytes, hyper::Error>>>", "    ensures r is Err,",
                     dict(name="vx_e9_request_builder_error", local=True)),
                    ],
                hints=[("let input_to_sign = ", None, "before", BR_H2),
                       ("constants::AUTHORIZATION_HEADER.to_string(),", None, "after", BR_H3)],
                contract="""
        requires pair_ok(key_guid, key),  // @C10.build_request.key_id_and_key_latched_together
        ensures r matches Ok(req) ==> box_body_bytes(req_body(req)) == opt_slice(body),  // @C04.build_request.body_sent_is_the_body_signed
                r matches Ok(req) ==> (key is Some && key_guid is Some ==> signed_request(req, key_guid->0@, key->0@, opt_slice(body))),  // @C04+C10.build_request.signed_last_over_own_parts_key_id_paired_with_its_mac
""")
            u.take_fn(hc, "read_response_body", external_body=True)
            git = hc.item("get", "fn")
            sends = [c for c in git["calls"] if c["kind"] == "path" and c["callee"] == "send_request"]
            aw = [a for a in git["awaits"] if sends and a["base"] == sends[0]["span"]]
            gerr = [c for c in git["calls"] if c["kind"] == "path" and c["callee"] == "Err"]
            if len(sends) != 1 or len(aw) != 1 or len(gerr) != 1:
                raise Undecided("get: expected one awaited send_request call and one `return Err(..)`")
            u.take_fn(hc, "get",
                pre_body="broadcast use axiom_to_string_uri;",
                e9=[("Method::GET", "all", "", "", "Method", "", dict(name="vx_e9_method_get", local=True)),
                    # E9: send_request is generic over the body (`B::Error: Into<Box<dyn Error + Send + Sync>>` is not expressible in
                    # Verus); the call moves verbatim into a stub. Its precondition is the capability "what is sent upstream is a
                    # request produced by build_request for this (key id, key)".
                    (tuple(aw[0]["span"]), None, "host: &String, port: u16, request: Request<BoxBody<Bytes, hyper::Error>>, log_fun: F, Ghost(key_guid): Ghost<Option<String>>, Ghost(key): Ghost<Option<String>>",
                     "&host, port, request, log_fun, Ghost(key_guid), Ghost(key)", "Result<hyper::Response<hyper::body::Incoming>>", """
    requires key is Some && key_guid is Some ==> signed_request(request, key_guid->0@, key->0@, Seq::<u8>::empty()) && latched(key_guid->0@, key->0@),  // @C04+C10.get.sends_the_request_signed_by_build_request""",
                     dict(name="vx_e9_send_request", local=True, is_async=True, generics="<F: Fn(String) + Send + 'static>", body="send_request(host, port, request, log_fun).await")),
                    (tuple(gerr[0]["span"]), None, "full_url: &Uri, status: hyper::StatusCode", "full_url, status", "Result<T>", "    ensures r is Err,",
                     dict(name="vx_e9_server_error", local=True, generics="<T>")),
                    ],
                contract="""
        requires pair_ok(key_guid, key),  // @C10.get.key_id_and_key_latched_together
""")
            u.take_fn(hc, "should_skip_sig",
                pre_body="broadcast use axiom_to_string_uri;\nproof { lits_skip(); }",
                e9=[("hyper::Method::PUT", "all", "", "", "hyper::Method", "    ensures method_text(r) == \"PUT\"@,", dict(name="vx_e9_method_put", local=True)),
                    ("hyper::Method::POST", "all", "", "", "hyper::Method", "    ensures method_text(r) == \"POST\"@,", dict(name="vx_e9_method_post", local=True))],
                contract="""
        ensures r == skip_spec(*method, *relative_uri),  // @C04+C15.should_skip_sig.exactly_the_two_documented_uploads
""")

    # ---- C10: the key keeper's shared state as the signing sites see it: ONE actor message per wrapper call ----
    with u.mod("shared_state"):
        with u.mod("key_keeper_wrapper", uses="use crate::common::result::Result;\nuse crate::key_keeper::key::Key;"):
            u.placeholder_ext(kkw, ["KeyKeeperSharedState"], "vx_ph_kkw")
            with u.impl_(kkw, "KeyKeeperSharedState"):
                # each of these sends one GetKey message and projects one field of the reply (key_keeper_wrapper.rs); between two
                # calls the actor may process SetKey messages of the key keeper task, so the two replies are unrelated
                if kkw.has_item("KeyKeeperSharedState::get_current_key_value"):
                    u.take_fn(kkw, "KeyKeeperSharedState::get_current_key_value", external_body=True, contract="""
        ensures r matches Ok(Some(v)) ==> exists|k: Key| key_record(k) && #[trigger] k.key@ == v@,
""")
                if kkw.has_item("KeyKeeperSharedState::get_current_key_guid"):
                    u.take_fn(kkw, "KeyKeeperSharedState::get_current_key_guid", external_body=True, contract="""
        ensures r matches Ok(Some(g)) ==> exists|k: Key| key_record(k) && #[trigger] k.guid@ == g@,
""")
                if kkw.has_item("KeyKeeperSharedState::get_current_key"):
                    # (after the repair of F5) one GetKey message returning the whole record
                    u.take_fn(kkw, "KeyKeeperSharedState::get_current_key", external_body=True, contract="""
        ensures r matches Ok(Some(k)) ==> key_record(k),
""")
    with u.mod("host_clients"):
        with u.mod("goal_state"):
            u.take_ext(gst, [i["path"] for i in gst.index["items"] if i["kind"] == "struct"], "vx_ext_goal_state", uses="use serde_derive::{Deserialize, Serialize};")
        with u.mod("instance_info"):
            u.take_ext(iin, [i["path"] for i in iin.index["items"] if i["kind"] == "struct"], "vx_ext_instance_info", uses="use serde_derive::{Deserialize, Serialize};")
        with u.mod("wire_server_client", uses="use crate::host_clients::goal_state::{GoalState, SharedConfig};\nuse crate::common::{error::{Error, WireServerErrorType}, hyper_client, logger, result::Result};\nuse crate::shared_state::key_keeper_wrapper::KeyKeeperSharedState;\nuse http::Method;\nuse hyper::Uri;\nuse std::collections::HashMap;"):
            u.take(wsc, "WireServerClient", "struct")
            u.take(wsc, "GOALSTATE_URI", "const")
            with u.impl_(wsc, "WireServerClient"):
                site_fn(u, wsc, "WireServerClient::get_goalstate", "GoalState")
                site_fn(u, wsc, "WireServerClient::get_shared_config", "SharedConfig")
        with u.mod("imds_client", uses="use super::instance_info::InstanceInfo;\nuse crate::common::{error::Error, hyper_client, logger, result::Result};\nuse crate::shared_state::key_keeper_wrapper::KeyKeeperSharedState;\nuse hyper::Uri;\nuse std::collections::HashMap;"):
            u.take(imc, "ImdsClient", "struct")
            u.take(imc, "IMDS_URI", "const")
            with u.impl_(imc, "ImdsClient"):
                site_fn(u, imc, "ImdsClient::get_imds_instance_info", "InstanceInfo")

    # ---- C10 at the proxied-request signing site (proxy_server.rs handle_request_with_signature; the rest of that function is
    #      under contract in unit `handler`): E5c slice of the expression that reads the (key, key id) pair ----
    hs = ps.item("ProxyServer::handle_request_with_signature", "fn")
    body_txt = ps.s(hs["body"][0], hs["body"][1])
    head = "if let (Some(key), Some(key_guid)) = "
    one_msg = [l for l in hs["lets"] if l["init"] is not None and ".get_current_key()" in re.sub(r"\s+", "", ps.s(l["init"][0], l["init"][1]))]
    span = None
    if len(one_msg) == 1 and re.sub(r"\s+", "", ps.s(one_msg[0]["pat"][0], one_msg[0]["pat"][1])) == "(current_key_value,current_key_guid)":
        # (after the repair of F5) `let (current_key_value, current_key_guid) = match ...get_current_key().await.. { .. };`
        span = (one_msg[0]["init"][0], one_msg[0]["init"][1])
    elif body_txt.count(head) == 1 and "get_current_key_value()" in body_txt:
        off = hs["body"][0] + len(body_txt[:body_txt.index(head) + len(head)].encode())
        # the tuple expression: from its '(' to the matching ')'
        depth, j = 0, off
        while True:
            ch = ps.b[j:j + 1]
            if ch == b"(":
                depth += 1
            elif ch == b")":
                depth -= 1
                if depth == 0:
                    break
            j += 1
        span = (off, j + 1)
    if span is not None:
        off, j = span[0], span[1] - 1
        with u.mod("shared_state_others"):
            # E13 placeholders for the other actor handles held by ProxyServer (never looked into)
            for (rel, nm) in (("agent_status_wrapper", "AgentStatusSharedState"), ("provision_wrapper", "ProvisionSharedState"), ("redirector_wrapper", "RedirectorSharedState"),
                              ("proxy_server_wrapper", "ProxyServerSharedState"), ("telemetry_wrapper", "TelemetrySharedState")):
                u.placeholder_ext(u.src("proxy_agent/src/shared_state/%s.rs" % rel), [nm], "vx_ph_" + rel)
            u.raw("#[verifier::external_type_specification] #[verifier::external_body]\npub struct ExCancellationToken(tokio_util::sync::CancellationToken);")
        with u.mod("proxy"):
            with u.mod("proxy_server", uses="use crate::shared_state::key_keeper_wrapper::KeyKeeperSharedState;\nuse crate::shared_state_others::*;\nuse tokio_util::sync::CancellationToken;"):
                u.take(ps, "ProxyServer", "struct")
                u.raw("impl ProxyServer {")
                u.slice_fn(ps, "ProxyServer::handle_request_with_signature", "vx_slice_read_key_and_key_id", off, j + 1, "&self", ret_type="(Option<String>, Option<String>)", is_async=True,
                           contract="""
        ensures pair_ok(r.1, r.0),  // @C10.handle_request_with_signature.key_id_and_key_latched_together
""", what="(scrutinee of the `if let (Some(key), Some(key_guid))` that guards the signing block)")
                u.raw("}")
    else:
        raise Undecided("handle_request_with_signature: the expression reading the (key, key id) pair was not found")
        u.notes.append("handle_request_with_signature no longer reads the pair with `if let (Some(key), Some(key_guid)) = (..)`: C10 slice not generated")

    # ---- C10 at the key-attestation call (key.rs attest_key): the pair is the two fields of ONE Key record ----
    ak = key.item("attest_key", "fn")
    merrs = [c for c in ak["calls"] if c["kind"] == "method" and c["callee"] == "map_err"]
    errs = [c for c in ak["calls"] if c["kind"] == "path" and c["callee"] == "Err"]
    if len(merrs) != 2 or len(errs) != 1 or len(ak["awaits"]) != 1:
        raise Undecided("attest_key: call structure changed")
    with u.mod("key_keeper_attest", uses="use crate::common::{constants, error::{Error, KeyErrorType}, hyper_client, logger, result::Result};\nuse crate::key_keeper::key::Key;\nuse http::{Method, StatusCode};\nuse hyper::Uri;\nuse std::collections::HashMap;\nuse hyper::Request;\nuse hyper::body::Bytes;\nuse http_body_util::combinators::BoxBody;"):
        ext_types_and_impls(u, key, "vx_ext_key_action", "use std::fmt::{Display, Formatter};", ["KeyAction"], ["<KeyAction as Display>"])
        u.take(key, "KEY_URL", "const")
        u.take_fn(key, "attest_key",
            pre_body=ATT_PRE,
            e9=[(tuple(merrs[0]["span"]), None, "url: String, base_url: &Uri", "url, base_url", "Result<Uri>", "", dict(name="vx_e9_parse_attest_url", local=True)),
                ("Method::POST", None, "", "", "Method", "", dict(name="vx_e9_method_post2", local=True)),
                (tuple(merrs[1]["span"]), None, "host: &String, port: u16, request: Request<BoxBody<Bytes, hyper::Error>>, Ghost(g): Ghost<Seq<char>>, Ghost(k): Ghost<Seq<char>>",
                 "&host, port, request, Ghost(key.guid@), Ghost(key.key@)", "Result<hyper::Response<hyper::body::Incoming>>", """
    requires signed_request(request, g, k, Seq::<u8>::empty()) && latched(g, k),  // @C04+C10.attest_key.sends_the_request_signed_by_build_request""",
                 dict(name="vx_e9_send_attest_request", local=True, is_async=True)),
                ("StatusCode::OK", None, "", "", "StatusCode", "    ensures status_code(r) == 200,", dict(name="vx_e9_status_ok", local=True)),
                (tuple(errs[0]["span"]), None, "response: &hyper::Response<hyper::body::Incoming>", "&response", "Result<()>", "    ensures r is Err,", dict(name="vx_e9_attest_response_error", local=True)),
                ],
            contract="""
        requires key_record(*key),   // the caller attests ONE key record (the one the host just issued)
""")
