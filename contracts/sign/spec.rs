// Specification of C04 / C10 for the signing code, written from the property statements:
//  C04 "every request relayed upstream (other than the two documented signature-exempt log/telemetry uploads) carries one
//       authorization header 'Azure-HMAC-SHA256 <key id> <hex MAC>' whose MAC is HMAC-SHA256 under the latched key of the
//       canonical string built from the method, body, every header, path and every query parameter of the request exactly
//       as the host receives it ... both signing routes yield the same canonical string for the same request."
//  canonical string (hyper_client.rs comment + DESIGN C04 oracle):
//       method LF body LF canonH(headers) path LF canonP(pairs)
//       canonH = for each header name other than the authorization header, ascending by lower-case name,
//                lower(name) ":" trim(value) LF
//       canonP = one segment per query pair (lower(k) if the value is empty, else lower(k) "=" v), ascending by
//                lower(k) || v, joined by "&"
//  C10 "Every authorization header the agent emits pairs a key id with a MAC computed under that same key ..."

// ---- vocabulary (uninterpreted views of std / dependency values; pinned by the assumed specs in deps.rs) ----
pub uninterp spec fn lower(s: Seq<char>) -> Seq<char>;              // str::to_lowercase
pub uninterp spec fn trim(s: Seq<char>) -> Seq<char>;               // str::trim
pub uninterp spec fn uri_path(u: http::Uri) -> Seq<char>;            // Uri::path
pub uninterp spec fn uri_query(u: http::Uri) -> Option<Seq<char>>;   // Uri::query
pub uninterp spec fn uri_text(u: http::Uri) -> Seq<char>;            // Display for Uri (the request target as written)
pub uninterp spec fn method_text(m: http::Method) -> Seq<char>;      // Method::as_str == Display for Method
pub uninterp spec fn split_char(s: Seq<char>, c: char) -> Seq<Seq<char>>;   // str::split(char) pieces, in order
pub uninterp spec fn split_once_eq(s: Seq<char>) -> (Seq<char>, Option<Seq<char>>);  // s.splitn(2,'='): head, optional rest
pub open spec fn utf8(s: Seq<char>) -> Seq<u8> { vstd::utf8::encode_utf8(s) }          // str::as_bytes (vstd's UTF-8 model)
pub uninterp spec fn unhex_bytes(s: Seq<u8>) -> Option<Seq<u8>>;     // hex::decode on the ASCII bytes of a hex string (None: not a hex string)
pub open spec fn unhex(s: Seq<char>) -> Option<Seq<u8>> { unhex_bytes(utf8(s)) }
pub uninterp spec fn hex_text(b: Seq<u8>) -> Seq<char>;              // hex::encode (lower-case hex digits)
pub uninterp spec fn hmac_sha256(key: Seq<u8>, msg: Seq<u8>) -> Seq<u8>;   // HMAC-SHA256 (RFC 2104 / FIPS 180-4), 32 bytes

pub open spec fn lf() -> Seq<char> { "\n"@ }
pub open spec fn AUTH_H() -> Seq<char> { "x-ms-azure-host-authorization"@ }

// ---- G8: the signature exemption list is exactly the two documented (method, lower-cased URI) pairs -----------------
//      PUT /vmAgentLog   and   POST /machine/?comp=telemetrydata
pub open spec fn skip_spec(m: http::Method, u: http::Uri) -> bool {
    ||| (method_text(m) == "PUT"@ && lower(uri_text(u)) == "/vmagentlog"@)
    ||| (method_text(m) == "POST"@ && lower(uri_text(u)) == "/machine/?comp=telemetrydata"@)
}

// ---- G5: the MAC: hex(HMAC-SHA256(unhex(key), canonical string)) ------------------------------------------------------
pub open spec fn mac_spec(key: Seq<char>, input: Seq<u8>) -> Seq<char> {
    hex_text(hmac_sha256(unhex(key)->0, input))
}

// ---- query parameters of a URL (same definition as unit authz, where query_pairs is proved against it) ----------------
pub open spec fn piece_to_pair(piece: Seq<char>) -> (Seq<char>, Seq<char>) {
    let (k, v) = split_once_eq(piece);
    (k, match v { Some(x) => x, None => Seq::<char>::empty() })
}
pub open spec fn pairs_of_pieces(ps: Seq<Seq<char>>) -> Seq<(Seq<char>, Seq<char>)>
    decreases ps.len()
{
    if ps.len() == 0 { Seq::empty() } else {
        let rest = pairs_of_pieces(ps.drop_last());
        let pr = piece_to_pair(ps.last());
        if pr.0.len() == 0 { rest } else { rest.push(pr) }
    }
}
pub open spec fn url_pairs(u: http::Uri) -> Seq<(Seq<char>, Seq<char>)> {
    pairs_of_pieces(split_char(match uri_query(u) { Some(q) => q, None => Seq::<char>::empty() }, '&'))
}
pub open spec fn pairs_view(v: Seq<(String, String)>) -> Seq<(Seq<char>, Seq<char>)> {
    Seq::new(v.len(), |i: int| (v[i].0@, v[i].1@))
}

// ---- lexicographic order on character sequences (the order of String's Ord, which `sorted()` uses) ---------------------
pub open spec fn lex_lt(a: Seq<char>, b: Seq<char>) -> bool
    decreases a.len()
{
    if b.len() == 0 { false }
    else if a.len() == 0 { true }
    else if a[0] != b[0] { (a[0] as u32) < (b[0] as u32) }
    else { lex_lt(a.drop_first(), b.drop_first()) }
}
pub open spec fn ascending(ks: Seq<Seq<char>>) -> bool {
    forall|i: int, j: int| 0 <= i < j < ks.len() ==> lex_lt(#[trigger] ks[i], #[trigger] ks[j])
}
// ks lists the elements of s, each once, in ascending order
pub open spec fn sorted_enum(ks: Seq<Seq<char>>, s: Set<Seq<char>>) -> bool { ascending(ks) && ks.to_set() == s }
pub open spec fn sorted_names(s: Set<Seq<char>>) -> Seq<Seq<char>> { choose|ks: Seq<Seq<char>>| sorted_enum(ks, s) }

// ---- G3: canonicalized headers ---------------------------------------------------------------------------------------
// A header map is the http crate's: (lower-case) name -> the values received under that name, in order.
pub type HMap = Map<Seq<char>, Seq<http::header::HeaderValue>>;
// The value of a name that enters the canonical string. For a name that occurs once (the documented case) this is its
// value. For a name REPEATED in the request the host's rule is not documented (finding F9: observation); the
// specification fixes "the last value received" so that sig_input_spec is a total function; lemma_canon_h_single_valued
// shows that for single-valued maps the choice is immaterial.
pub open spec fn signed_value(vals: Seq<http::header::HeaderValue>) -> http::header::HeaderValue { vals.last() }
// The text of a header value that enters the canonical string: the value's bytes read as text. For a visible-ASCII value
// (every case the statement documents) this is hv_view(v), the text HeaderValue::to_str yields (axiom_hv_text_visible_ascii);
// for a value with other bytes it is the lossy UTF-8 reading of the bytes (String::from_utf8_lossy), which is what the
// agent signs since fix F6e -- the host's rule for such bytes is not documented.
pub open spec fn hv_text(v: http::header::HeaderValue) -> Seq<char> { utf8_lossy(hv_bytes(v)) }
pub open spec fn header_line(n: Seq<char>, v: http::header::HeaderValue) -> Seq<char> {
    lower(n) + ":"@ + trim(hv_text(v)) + lf()
}
// the same with the exact text of a visible-ASCII value
pub open spec fn header_line_exact(n: Seq<char>, v: http::header::HeaderValue) -> Seq<char> {
    lower(n) + ":"@ + trim(hv_view(v)) + lf()
}
// header names other than the authorization header
pub open spec fn signed_names(hm: HMap) -> Set<Seq<char>> { hm.dom().filter(|n: Seq<char>| lower(n) != AUTH_H()) }
pub open spec fn header_lines(ks: Seq<Seq<char>>, hm: HMap) -> Seq<char>
    decreases ks.len()
{
    if ks.len() == 0 { Seq::<char>::empty() } else { header_lines(ks.drop_last(), hm) + header_line(ks.last(), signed_value(hm[ks.last()])) }
}
pub open spec fn canon_h(hm: HMap) -> Seq<char> { header_lines(sorted_names(signed_names(hm)), hm) }
pub open spec fn header_lines_exact(ks: Seq<Seq<char>>, hm: HMap) -> Seq<char>
    decreases ks.len()
{
    if ks.len() == 0 { Seq::<char>::empty() } else { header_lines_exact(ks.drop_last(), hm) + header_line_exact(ks.last(), signed_value(hm[ks.last()])) }
}
// canonicalized headers of a request whose header values are all visible ASCII: lower(name) ":" trim(value) LF per name
pub open spec fn canon_h_exact(hm: HMap) -> Seq<char> { header_lines_exact(sorted_names(signed_names(hm)), hm) }

// ASCII lower-casing (str::eq_ignore_ascii_case compares to_ascii_lowercase of both sides)
pub open spec fn ascii_lower_char(c: char) -> char { if 'A' <= c && c <= 'Z' { ((c as u8) + 32u8) as char } else { c } }
pub open spec fn ascii_lower(s: Seq<char>) -> Seq<char> { Seq::new(s.len(), |i: int| ascii_lower_char(s[i])) }
// lower-case ASCII text (what an http::HeaderName holds)
pub open spec fn is_ascii_lower(s: Seq<char>) -> bool { forall|i: int| 0 <= i < s.len() ==> (#[trigger] s[i] as u32) < 128 && !('A' <= s[i] && s[i] <= 'Z') }
pub proof fn lemma_ascii_lower_id(s: Seq<char>)
    requires is_ascii_lower(s),
    ensures ascii_lower(s) == s,
{ assert(ascii_lower(s) =~= s); }

// every value of every header is visible ASCII (HeaderValue::to_str succeeds)
pub open spec fn all_values_visible_ascii(hm: HMap) -> bool {
    forall|n: Seq<char>, i: int| hm.contains_key(n) && 0 <= i < hm[n].len() ==> hv_visible_ascii(#[trigger] hm[n][i])
}
pub open spec fn single_valued(hm: HMap) -> bool { forall|n: Seq<char>| hm.contains_key(n) ==> (#[trigger] hm[n]).len() == 1 }

// ---- HeaderMap::iter(): "each key will be yielded once per associated value", values of one name in order ----
pub open spec fn values_named(s: Seq<(Seq<char>, http::header::HeaderValue)>, n: Seq<char>) -> Seq<http::header::HeaderValue>
    decreases s.len()
{
    if s.len() == 0 { Seq::empty() }
    else if s.last().0 == n { values_named(s.drop_last(), n).push(s.last().1) }
    else { values_named(s.drop_last(), n) }
}
pub open spec fn hm_iter_ok(hm: HMap, s: Seq<(Seq<char>, http::header::HeaderValue)>) -> bool {
    &&& forall|i: int| 0 <= i < s.len() ==> hm.contains_key((#[trigger] s[i]).0)
    &&& forall|n: Seq<char>| hm.contains_key(n) ==> (#[trigger] values_named(s, n)) == hm[n] && hm[n].len() > 0
}
pub proof fn lemma_values_named_member(s: Seq<(Seq<char>, http::header::HeaderValue)>, i: int)
    requires 0 <= i < s.len(),
    ensures values_named(s, s[i].0).contains(s[i].1),
    decreases s.len()
{
    let n = s[i].0;
    if i == s.len() - 1 {
        let v = values_named(s.drop_last(), n).push(s.last().1);
        assert(v[v.len() - 1] == s[i].1);
    } else {
        lemma_values_named_member(s.drop_last(), i);
        let w = values_named(s.drop_last(), n);
        let j = choose|j: int| 0 <= j < w.len() && w[j] == s[i].1;
        if s.last().0 == n { assert(w.push(s.last().1)[j] == s[i].1); }
    }
}
pub proof fn lemma_values_named_nonempty(s: Seq<(Seq<char>, http::header::HeaderValue)>, n: Seq<char>)
    requires values_named(s, n).len() > 0,
    ensures exists|i: int| 0 <= i < s.len() && (#[trigger] s[i]).0 == n,
    decreases s.len()
{
    if s.len() == 0 {} else if s.last().0 == n { assert(s[s.len() - 1].0 == n); }
    else { lemma_values_named_nonempty(s.drop_last(), n); let i = choose|i: int| 0 <= i < s.drop_last().len() && (#[trigger] s.drop_last()[i]).0 == n; assert(s[i].0 == n); }
}

// ---- order lemmas ----
pub proof fn lemma_lex_lt_irrefl(a: Seq<char>)
    ensures !lex_lt(a, a),
    decreases a.len()
{ if a.len() > 0 { lemma_lex_lt_irrefl(a.drop_first()); } }
pub proof fn lemma_lex_lt_trans(a: Seq<char>, b: Seq<char>, c: Seq<char>)
    requires lex_lt(a, b), lex_lt(b, c),
    ensures lex_lt(a, c),
    decreases a.len()
{
    if a.len() > 0 && b.len() > 0 && c.len() > 0 && a[0] == b[0] && b[0] == c[0] { lemma_lex_lt_trans(a.drop_first(), b.drop_first(), c.drop_first()); }
}
// an ascending enumeration of a set is unique
pub proof fn lemma_sorted_enum_unique(a: Seq<Seq<char>>, b: Seq<Seq<char>>, s: Set<Seq<char>>)
    requires sorted_enum(a, s), sorted_enum(b, s),
    ensures a == b,
    decreases a.len()
{
    if a.len() == 0 {
        if b.len() > 0 { assert(b.to_set().contains(b[0])); assert(a.to_set().contains(b[0])); }
        assert(a =~= b);
    } else if b.len() == 0 {
        assert(a.to_set().contains(a[0])); assert(b.to_set().contains(a[0]));
    } else {
        // the last elements are the maximum of s
        let x = a.last(); let y = b.last();
        assert(a.to_set().contains(x)); assert(b.to_set().contains(x));
        assert(b.to_set().contains(y)); assert(a.to_set().contains(y));
        let i = choose|i: int| 0 <= i < b.len() && b[i] == x;
        let j = choose|j: int| 0 <= j < a.len() && a[j] == y;
        if x != y {
            assert(i < b.len() - 1); assert(lex_lt(b[i], b[b.len() - 1]));
            assert(j < a.len() - 1); assert(lex_lt(a[j], a[a.len() - 1]));
            lemma_lex_lt_trans(x, y, x); lemma_lex_lt_irrefl(x);
        }
        let a1 = a.drop_last(); let b1 = b.drop_last();
        assert forall|z: Seq<char>| a1.to_set().contains(z) == s.remove(x).contains(z) by {
            if a1.to_set().contains(z) { let k = choose|k: int| 0 <= k < a1.len() && a1[k] == z; assert(a[k] == z); assert(a.to_set().contains(z)); assert(lex_lt(a[k], a[a.len() - 1])); if z == x { lemma_lex_lt_irrefl(x); } }
            if s.remove(x).contains(z) { assert(a.to_set().contains(z)); let k = choose|k: int| 0 <= k < a.len() && a[k] == z; assert(a1[k] == z); }
        }
        assert forall|z: Seq<char>| b1.to_set().contains(z) == s.remove(x).contains(z) by {
            if b1.to_set().contains(z) { let k = choose|k: int| 0 <= k < b1.len() && b1[k] == z; assert(b[k] == z); assert(b.to_set().contains(z)); assert(lex_lt(b[k], b[b.len() - 1])); if z == x { lemma_lex_lt_irrefl(x); } }
            if s.remove(x).contains(z) { assert(b.to_set().contains(z)); let k = choose|k: int| 0 <= k < b.len() && b[k] == z; assert(b1[k] == z); }
        }
        assert(a1.to_set() =~= s.remove(x)); assert(b1.to_set() =~= s.remove(x));
        assert(ascending(a1)) by { assert forall|p: int, q: int| 0 <= p < q < a1.len() implies lex_lt(#[trigger] a1[p], #[trigger] a1[q]) by { assert(lex_lt(a[p], a[q])); } }
        assert(ascending(b1)) by { assert forall|p: int, q: int| 0 <= p < q < b1.len() implies lex_lt(#[trigger] b1[p], #[trigger] b1[q]) by { assert(lex_lt(b[p], b[q])); } }
        lemma_sorted_enum_unique(a1, b1, s.remove(x));
        assert(a =~= a1.push(x)); assert(b =~= b1.push(y));
    }
}
pub proof fn lemma_sorted_names(ks: Seq<Seq<char>>, s: Set<Seq<char>>)
    requires sorted_enum(ks, s),
    ensures sorted_names(s) == ks,
{ lemma_sorted_enum_unique(sorted_names(s), ks, s); }
pub proof fn lemma_header_lines_push(ks: Seq<Seq<char>>, k: Seq<char>, hm: HMap)
    ensures header_lines(ks.push(k), hm) == header_lines(ks, hm) + header_line(k, signed_value(hm[k])),
{ assert(ks.push(k).drop_last() =~= ks); }

// ---- G4: canonicalized parameters ------------------------------------------------------------------------------------
pub type QPair = (Seq<char>, Seq<char>);
pub open spec fn sort_key(p: QPair) -> Seq<char> { lower(p.0) + p.1 }
pub open spec fn segment(p: QPair) -> Seq<char> { if p.1.len() == 0 { lower(p.0) } else { lower(p.0) + "="@ + p.1 } }
// ascending by lower(k) || v: insertion sort (pairs with equal sort keys keep their order in the request)
pub open spec fn insert_sorted(sorted: Seq<QPair>, p: QPair) -> Seq<QPair>
    decreases sorted.len()
{
    if sorted.len() == 0 { seq![p] }
    else if lex_lt(sort_key(p), sort_key(sorted.last())) { insert_sorted(sorted.drop_last(), p).push(sorted.last()) }
    else { sorted.push(p) }
}
pub open spec fn sort_pairs(ps: Seq<QPair>) -> Seq<QPair>
    decreases ps.len()
{
    if ps.len() == 0 { Seq::empty() } else { insert_sorted(sort_pairs(ps.drop_last()), ps.last()) }
}
pub open spec fn join_amp(segs: Seq<Seq<char>>) -> Seq<char>
    decreases segs.len()
{
    if segs.len() == 0 { Seq::empty() } else if segs.len() == 1 { segs[0] } else { join_amp(segs.drop_last()) + "&"@ + segs.last() }
}
pub open spec fn segments(ps: Seq<QPair>) -> Seq<Seq<char>> { Seq::new(ps.len(), |i: int| segment(ps[i])) }
// one segment per pair, ascending, joined by '&'
pub open spec fn canon_p(ps: Seq<QPair>) -> Seq<char> { join_amp(segments(sort_pairs(ps))) }
// no two pairs of the request have the same lower(k) || v  (what the code's map is keyed by)
pub open spec fn distinct_sort_keys(ps: Seq<QPair>) -> bool {
    forall|i: int, j: int| 0 <= i < ps.len() && 0 <= j < ps.len() && i != j ==> sort_key(#[trigger] ps[i]) != sort_key(#[trigger] ps[j])
}

// ---- G1/G2: the canonical string ("string to sign") -----------------------------------------------------------------
pub open spec fn canon(method: Seq<char>, body: Seq<u8>, hm: HMap, path: Seq<char>, pairs: Seq<(Seq<char>, Seq<char>)>) -> Seq<u8> {
    utf8(method) + utf8(lf()) + body + utf8(lf()) + utf8(canon_h(hm)) + utf8(path) + utf8(lf()) + utf8(canon_p(pairs))
}
pub open spec fn sig_input_spec(m: http::Method, u: http::Uri, h: http::HeaderMap, body: Seq<u8>) -> Seq<u8> {
    canon(method_text(m), body, hm_view(h), uri_path(u), url_pairs(u))
}
// "both signing routes yield the same canonical string for the same request": the canonical string is a function of the
// request's parts only
pub proof fn lemma_same_request_same_canonical_string(m1: http::Method, u1: http::Uri, h1: http::HeaderMap, b1: Seq<u8>,
                                                     m2: http::Method, u2: http::Uri, h2: http::HeaderMap, b2: Seq<u8>)
    requires method_text(m1) == method_text(m2), u1 == u2, hm_view(h1) == hm_view(h2), b1 == b2,
    ensures sig_input_spec(m1, u1, h1, b1) == sig_input_spec(m2, u2, h2, b2),
{}

// ---- canon_p: proof support -------------------------------------------------------------------------------------------
pub proof fn lemma_lex_total(a: Seq<char>, b: Seq<char>)
    requires a != b,
    ensures lex_lt(a, b) || lex_lt(b, a),
    decreases a.len()
{
    if a.len() == 0 { if b.len() == 0 { assert(a =~= b); } }
    else if b.len() == 0 {}
    else if a[0] == b[0] {
        if a.drop_first() == b.drop_first() { assert(a =~= seq![a[0]] + a.drop_first()); assert(b =~= seq![b[0]] + b.drop_first()); }
        lemma_lex_total(a.drop_first(), b.drop_first());
    }
}
pub open spec fn asc_pairs(t: Seq<QPair>) -> bool {
    forall|i: int, j: int| 0 <= i < j < t.len() ==> lex_lt(sort_key(#[trigger] t[i]), sort_key(#[trigger] t[j]))
}
pub proof fn lemma_insert_sorted(t: Seq<QPair>, p: QPair)
    ensures
        insert_sorted(t, p).len() == t.len() + 1,
        forall|x: QPair| #[trigger] insert_sorted(t, p).contains(x) <==> (t.contains(x) || x == p),
        asc_pairs(t) && (forall|i: int| 0 <= i < t.len() ==> sort_key(#[trigger] t[i]) != sort_key(p)) ==> asc_pairs(insert_sorted(t, p)),
    decreases t.len()
{
    let r = insert_sorted(t, p);
    if t.len() == 0 {
        assert(r[0] == p);
        assert forall|x: QPair| #[trigger] r.contains(x) <==> (t.contains(x) || x == p) by { if x == p { assert(r[0] == x); } }
    } else if lex_lt(sort_key(p), sort_key(t.last())) {
        let t1 = t.drop_last(); let r1 = insert_sorted(t1, p);
        lemma_insert_sorted(t1, p);
        assert(r == r1.push(t.last()));
        assert forall|x: QPair| #[trigger] r.contains(x) <==> (t.contains(x) || x == p) by {
            if r.contains(x) { let i = choose|i: int| 0 <= i < r.len() && r[i] == x; if i < r1.len() { assert(r1[i] == x); assert(r1.contains(x)); if t1.contains(x) { let k = choose|k: int| 0 <= k < t1.len() && t1[k] == x; assert(t[k] == x); } } else { assert(t[t.len() - 1] == x); } }
            if t.contains(x) { let k = choose|k: int| 0 <= k < t.len() && t[k] == x; if k < t1.len() { assert(t1[k] == x); assert(t1.contains(x)); assert(r1.contains(x)); let i = choose|i: int| 0 <= i < r1.len() && r1[i] == x; assert(r[i] == x); } else { assert(r[r1.len() as int] == x); } }
            if x == p { assert(r1.contains(x)); let i = choose|i: int| 0 <= i < r1.len() && r1[i] == x; assert(r[i] == x); }
        }
        if asc_pairs(t) && (forall|i: int| 0 <= i < t.len() ==> sort_key(#[trigger] t[i]) != sort_key(p)) {
            assert(asc_pairs(t1)) by { assert forall|i: int, j: int| 0 <= i < j < t1.len() implies lex_lt(sort_key(#[trigger] t1[i]), sort_key(#[trigger] t1[j])) by { assert(lex_lt(sort_key(t[i]), sort_key(t[j]))); } }
            assert forall|i: int| 0 <= i < t1.len() implies sort_key(#[trigger] t1[i]) != sort_key(p) by { assert(sort_key(t[i]) != sort_key(p)); }
            assert(asc_pairs(r1));
            assert forall|i: int, j: int| 0 <= i < j < r.len() implies lex_lt(sort_key(#[trigger] r[i]), sort_key(#[trigger] r[j])) by {
                if j < r1.len() { assert(lex_lt(sort_key(r1[i]), sort_key(r1[j]))); }
                else {
                    assert(r1.contains(r1[i]));
                    if r1[i] == p {} else { assert(t1.contains(r1[i])); let k = choose|k: int| 0 <= k < t1.len() && t1[k] == r1[i]; assert(lex_lt(sort_key(t[k]), sort_key(t[t.len() - 1]))); }
                }
            }
        }
    } else {
        assert(r == t.push(p));
        assert forall|x: QPair| #[trigger] r.contains(x) <==> (t.contains(x) || x == p) by {
            if r.contains(x) { let i = choose|i: int| 0 <= i < r.len() && r[i] == x; if i < t.len() { assert(t[i] == x); } }
            if t.contains(x) { let k = choose|k: int| 0 <= k < t.len() && t[k] == x; assert(r[k] == x); }
            if x == p { assert(r[t.len() as int] == x); }
        }
        if asc_pairs(t) && (forall|i: int| 0 <= i < t.len() ==> sort_key(#[trigger] t[i]) != sort_key(p)) {
            assert(sort_key(t[t.len() - 1]) != sort_key(p));
            lemma_lex_total(sort_key(p), sort_key(t.last()));
            assert forall|i: int, j: int| 0 <= i < j < r.len() implies lex_lt(sort_key(#[trigger] r[i]), sort_key(#[trigger] r[j])) by {
                if j < t.len() { assert(lex_lt(sort_key(t[i]), sort_key(t[j]))); }
                else if i == t.len() - 1 {}
                else { assert(lex_lt(sort_key(t[i]), sort_key(t[t.len() - 1]))); lemma_lex_lt_trans(sort_key(t[i]), sort_key(t.last()), sort_key(p)); }
            }
        }
    }
}
// "one segment per pair": sorting keeps every pair (no pair is dropped or merged)
pub proof fn lemma_sort_pairs(ps: Seq<QPair>)
    ensures
        sort_pairs(ps).len() == ps.len(),
        forall|x: QPair| #[trigger] sort_pairs(ps).contains(x) <==> ps.contains(x),
        distinct_sort_keys(ps) ==> asc_pairs(sort_pairs(ps)),
    decreases ps.len()
{
    if ps.len() == 0 {} else {
        let p1 = ps.drop_last(); let t1 = sort_pairs(p1);
        lemma_sort_pairs(p1);
        lemma_insert_sorted(t1, ps.last());
        let r = sort_pairs(ps);
        assert forall|x: QPair| #[trigger] r.contains(x) <==> ps.contains(x) by {
            if ps.contains(x) { let k = choose|k: int| 0 <= k < ps.len() && ps[k] == x; if k < p1.len() { assert(p1[k] == x); assert(p1.contains(x)); } }
            if p1.contains(x) { let k = choose|k: int| 0 <= k < p1.len() && p1[k] == x; assert(ps[k] == x); }
            if x == ps.last() { assert(ps[ps.len() - 1] == x); }
        }
        if distinct_sort_keys(ps) {
            assert(distinct_sort_keys(p1)) by { assert forall|i: int, j: int| 0 <= i < p1.len() && 0 <= j < p1.len() && i != j implies sort_key(#[trigger] p1[i]) != sort_key(#[trigger] p1[j]) by { assert(sort_key(ps[i]) != sort_key(ps[j])); } }
            assert forall|i: int| 0 <= i < t1.len() implies sort_key(#[trigger] t1[i]) != sort_key(ps.last()) by {
                assert(t1.contains(t1[i])); assert(p1.contains(t1[i])); let k = choose|k: int| 0 <= k < p1.len() && p1[k] == t1[i];
                assert(sort_key(ps[k]) != sort_key(ps[ps.len() - 1]));
            }
        }
    }
}
pub open spec fn seg_for_key(ps: Seq<QPair>, k: Seq<char>, sg: Seq<char>) -> bool {
    exists|j: int| 0 <= j < ps.len() && sort_key(#[trigger] ps[j]) == k && sg == segment(ps[j])
}
// the segments of the pairs, listed in ascending order of their (pairwise distinct) sort keys, are the canonical ones
pub proof fn lemma_canon_p_by_keys(ps: Seq<QPair>, kv: Seq<Seq<char>>, segs: Seq<Seq<char>>)
    requires
        distinct_sort_keys(ps), ascending(kv), segs.len() == kv.len(),
        forall|i: int| 0 <= i < kv.len() ==> #[trigger] seg_for_key(ps, kv[i], segs[i]),
        forall|j: int| 0 <= j < ps.len() ==> kv.contains(sort_key(#[trigger] ps[j])),
    ensures segs == segments(sort_pairs(ps)),
{
    let t = sort_pairs(ps);
    lemma_sort_pairs(ps);
    let tk = Seq::new(t.len(), |i: int| sort_key(t[i]));
    assert(ascending(tk)) by { assert forall|i: int, j: int| 0 <= i < j < tk.len() implies lex_lt(#[trigger] tk[i], #[trigger] tk[j]) by { assert(lex_lt(sort_key(t[i]), sort_key(t[j]))); } }
    assert forall|x: Seq<char>| tk.to_set().contains(x) == kv.to_set().contains(x) by {
        if tk.contains(x) { let i = choose|i: int| 0 <= i < tk.len() && tk[i] == x; assert(t.contains(t[i])); assert(ps.contains(t[i])); let j = choose|j: int| 0 <= j < ps.len() && ps[j] == t[i]; assert(kv.contains(sort_key(ps[j]))); }
        if kv.contains(x) { let i = choose|i: int| 0 <= i < kv.len() && kv[i] == x; assert(seg_for_key(ps, kv[i], segs[i])); let j = choose|j: int| 0 <= j < ps.len() && sort_key(#[trigger] ps[j]) == kv[i] && segs[i] == segment(ps[j]); assert(ps.contains(ps[j])); assert(t.contains(ps[j])); let m = choose|m: int| 0 <= m < t.len() && t[m] == ps[j]; assert(tk[m] == x); }
    }
    assert(tk.to_set() =~= kv.to_set());
    lemma_sorted_enum_unique(tk, kv, kv.to_set());
    assert forall|i: int| 0 <= i < segs.len() implies segs[i] == segments(t)[i] by {
        assert(seg_for_key(ps, kv[i], segs[i]));
        let j = choose|j: int| 0 <= j < ps.len() && sort_key(#[trigger] ps[j]) == kv[i] && segs[i] == segment(ps[j]);
        assert(t.contains(t[i])); assert(ps.contains(t[i]));
        let j2 = choose|j2: int| 0 <= j2 < ps.len() && ps[j2] == t[i];
        assert(tk[i] == kv[i]);
        assert(sort_key(ps[j2]) == sort_key(ps[j]));
        assert(j2 == j);
    }
    assert(segs =~= segments(t));
}
pub proof fn lemma_join_amp_push(segs: Seq<Seq<char>>, sg: Seq<char>)
    ensures join_amp(segs.push(sg)) == (if segs.len() == 0 { sg } else { join_amp(segs) + "&"@ + sg }),
{ assert(segs.push(sg).drop_last() =~= segs); }
// the map entry built for the sort key k comes from one of the first n pairs
pub open spec fn entry_for_key(ps: Seq<QPair>, n: int, k: Seq<char>, e0: Seq<char>, e1: Seq<char>) -> bool {
    exists|j: int| 0 <= j < n && j < ps.len() && sort_key(#[trigger] ps[j]) == k && e0 == lower(ps[j].0) && e1 == ps[j].1
}

// ---- every finite set of names has an ascending enumeration (so sorted_names / canon_h are well defined) --------------
pub open spec fn is_max(s: Set<Seq<char>>, m: Seq<char>) -> bool { s.contains(m) && forall|x: Seq<char>| #[trigger] s.contains(x) ==> !lex_lt(m, x) }
pub proof fn lemma_max_exists(s: Set<Seq<char>>)
    requires s.len() > 0,
    ensures exists|m: Seq<char>| is_max(s, m),
    decreases s.len()
{
    let e = s.choose();
    assert(s.contains(e));
    let s1 = s.remove(e);
    if s1.len() == 0 {
        assert forall|x: Seq<char>| #[trigger] s.contains(x) implies !lex_lt(e, x) by { if x != e { assert(s1.contains(x)); } else { lemma_lex_lt_irrefl(e); } }
        assert(is_max(s, e));
    } else {
        lemma_max_exists(s1);
        let m1 = choose|m: Seq<char>| is_max(s1, m);
        if lex_lt(m1, e) {
            assert forall|x: Seq<char>| #[trigger] s.contains(x) implies !lex_lt(e, x) by {
                if x != e { assert(s1.contains(x)); if lex_lt(e, x) { lemma_lex_lt_trans(m1, e, x); } } else { lemma_lex_lt_irrefl(e); }
            }
            assert(is_max(s, e));
        } else {
            assert forall|x: Seq<char>| #[trigger] s.contains(x) implies !lex_lt(m1, x) by { if x != e { assert(s1.contains(x)); } }
            assert(is_max(s, m1));
        }
    }
}
pub proof fn lemma_sorted_enum_exists(s: Set<Seq<char>>)
    ensures sorted_enum(sorted_names(s), s),
    decreases s.len()
{
    if s.len() == 0 {
        let e = Seq::<Seq<char>>::empty();
        assert(e.to_set() =~= s);
        assert(sorted_enum(e, s));
    } else {
        lemma_max_exists(s);
        let m = choose|m: Seq<char>| is_max(s, m);
        let s1 = s.remove(m);
        lemma_sorted_enum_exists(s1);
        let k1 = sorted_names(s1);
        let ks = k1.push(m);
        assert forall|i: int, j: int| 0 <= i < j < ks.len() implies lex_lt(#[trigger] ks[i], #[trigger] ks[j]) by {
            if j < k1.len() { assert(lex_lt(k1[i], k1[j])); }
            else { assert(k1.to_set().contains(k1[i])); assert(s1.contains(k1[i])); assert(s.contains(k1[i])); lemma_lex_total(k1[i], m); }
        }
        assert forall|x: Seq<char>| ks.to_set().contains(x) == s.contains(x) by {
            if ks.contains(x) { let i = choose|i: int| 0 <= i < ks.len() && ks[i] == x; if i < k1.len() { assert(k1.to_set().contains(k1[i])); } }
            if s.contains(x) { if x == m { assert(ks[k1.len() as int] == x); } else { assert(s1.contains(x)); assert(k1.to_set().contains(x)); let i = choose|i: int| 0 <= i < k1.len() && k1[i] == x; assert(ks[i] == x); } }
        }
        assert(ks.to_set() =~= s);
        assert(sorted_enum(ks, s));
    }
}

// ---- G6 support: what is signed is what the host receives --------------------------------------------------------------
// the canonical headers do not depend on the authorization header: adding / replacing it (which is what the proxy does
// AFTER computing the signature) leaves canon_h unchanged
pub proof fn lemma_header_lines_frame(ks: Seq<Seq<char>>, hm1: HMap, hm2: HMap)
    requires forall|i: int| 0 <= i < ks.len() ==> hm1[#[trigger] ks[i]] == hm2[ks[i]],
    ensures header_lines(ks, hm1) == header_lines(ks, hm2),
    decreases ks.len()
{
    if ks.len() > 0 {
        assert forall|i: int| 0 <= i < ks.drop_last().len() implies hm1[#[trigger] ks.drop_last()[i]] == hm2[ks.drop_last()[i]] by { assert(ks.drop_last()[i] == ks[i]); }
        lemma_header_lines_frame(ks.drop_last(), hm1, hm2);
        assert(hm1[ks[ks.len() - 1]] == hm2[ks[ks.len() - 1]]);
    }
}
pub proof fn lemma_canon_h_ignores_authorization(hm: HMap, v: Seq<http::header::HeaderValue>)
    requires lower(AUTH_H()) == AUTH_H(),
    ensures canon_h(hm.insert(AUTH_H(), v)) == canon_h(hm),   // @C04.lemma_canon_h_ignores_authorization.signed_headers_are_the_sent_headers_minus_authorization
{
    let hm2 = hm.insert(AUTH_H(), v);
    assert(signed_names(hm2) =~= signed_names(hm));
    let ks = sorted_names(signed_names(hm));
    lemma_sorted_enum_exists(signed_names(hm));
    assert forall|i: int| 0 <= i < ks.len() implies hm2[#[trigger] ks[i]] == hm[ks[i]] by {
        assert(ks.to_set().contains(ks[i])); assert(signed_names(hm).contains(ks[i]));
    }
    lemma_header_lines_frame(ks, hm2, hm);
}
pub proof fn lemma_sig_input_ignores_authorization(m: http::Method, u: http::Uri, h1: http::HeaderMap, h2: http::HeaderMap, v: Seq<http::header::HeaderValue>, body: Seq<u8>)
    requires lower(AUTH_H()) == AUTH_H(), hm_view(h2) == hm_view(h1).insert(AUTH_H(), v),
    ensures sig_input_spec(m, u, h2, body) == sig_input_spec(m, u, h1, body),
{ lemma_canon_h_ignores_authorization(hm_view(h1), v); }
// F9 (observation): for header maps in which every name has one value, the choice made by signed_value is immaterial:
// every line carries THE value of its name
pub proof fn lemma_canon_h_single_valued(hm: HMap, ks: Seq<Seq<char>>)
    requires single_valued(hm), forall|i: int| 0 <= i < ks.len() ==> hm.contains_key(#[trigger] ks[i]),
    ensures forall|i: int| 0 <= i < ks.len() ==> signed_value(hm[#[trigger] ks[i]]) == hm[ks[i]][0],
{
    assert forall|i: int| 0 <= i < ks.len() implies signed_value(hm[#[trigger] ks[i]]) == hm[ks[i]][0] by { assert(hm[ks[i]].len() == 1); }
}

// ---- C10: the key id names the key that produced the MAC -----------------------------------------------------------------
// key_record(k): k is ONE key record held by the key keeper: the value of the key-keeper actor's `Option<Key>` at one
// instant, or the record issued by the host in one response that the key keeper is attesting before it latches it.
pub uninterp spec fn key_record(k: crate::key_keeper::key::Key) -> bool;
// latched(guid, key): guid and key are the two fields of one such record ("latched together at one instant")
pub open spec fn latched(guid: Seq<char>, key: Seq<char>) -> bool {
    exists|k: crate::key_keeper::key::Key| key_record(k) && k.guid@ == guid && #[trigger] k.key@ == key
}
// the (key id, key) pair handed to a signing routine was latched together (no obligation if nothing will be signed)
pub open spec fn pair_ok(key_guid: Option<String>, key: Option<String>) -> bool {
    key_guid is Some && key is Some ==> latched(key_guid->0@, key->0@)
}
pub open spec fn opt_slice(b: Option<&[u8]>) -> Seq<u8> { match b { Some(v) => v@, None => Seq::<u8>::empty() } }
pub open spec fn bool_text(b: bool) -> Seq<char> { if b { "true"@ } else { "false"@ } }     // Display for bool
// G7: the request carries an authorization value `Azure-HMAC-SHA256 <g> <mac>` appended to a header map `pre`, where mac is
// computed under k over the canonical string of the request's own method, URI, `pre` (= all its other headers) and body
pub open spec fn signed_request<B>(req: http::Request<B>, g: Seq<char>, k: Seq<char>, body: Seq<u8>) -> bool {
    exists|pre: http::HeaderMap, v: http::header::HeaderValue|
        #[trigger] hm_appended(hm_view(pre), AUTH_H(), v) == hm_view(req_headers(req))
        && hv_view(v) == "Azure-HMAC-SHA256"@ + " "@ + g + " "@ + mac_spec(k, sig_input_spec(req_method(req), req_uri(req), pre, body))
}
// the builder (if it holds no error) carries an authorization value computed over its own other parts
pub open spec fn signed_builder(b: http::request::Builder, g: Seq<char>, k: Seq<char>, body: Seq<u8>) -> bool {
    builder_parts(b) matches Some(p) ==> exists|pre: http::HeaderMap, v: http::header::HeaderValue|
        #[trigger] hm_appended(hm_view(pre), AUTH_H(), v) == hm_view(parts_headers(p))
        && hv_view(v) == "Azure-HMAC-SHA256"@ + " "@ + g + " "@ + mac_spec(k, sig_input_spec(parts_method(p), parts_uri(p), pre, body))
}

// ---- F4 (finding): the specification tells apart requests that the code's `key || value` map merges -------------------
// `?a=b&ab` has two parameters, `?ab` one: their canonical parameter strings differ ("a=b&ab" vs "ab"), while
// get_path_and_canonicalized_parameters returns "ab" for both (executed witness: build/sign_witness_out.txt)
pub proof fn lemma_f4_witness_spec_distinguishes_colliding_requests()
    requires lower("a"@) == "a"@, lower("ab"@) == "ab"@,
    ensures
        canon_p(seq![("a"@, "b"@), ("ab"@, ""@)]) == "a=b&ab"@,
        canon_p(seq![("ab"@, ""@)]) == "ab"@,
        sort_key(("a"@, "b"@)) == sort_key(("ab"@, ""@)),
{
    reveal_strlit("a"); reveal_strlit("b"); reveal_strlit("ab"); reveal_strlit(""); reveal_strlit("="); reveal_strlit("&"); reveal_strlit("a=b&ab");
    let p1: QPair = ("a"@, "b"@); let p2: QPair = ("ab"@, ""@);
    assert(sort_key(p1) =~= "ab"@); assert(sort_key(p2) =~= "ab"@);
    lemma_lex_lt_irrefl("ab"@);
    let e = Seq::<QPair>::empty();
    let s2 = seq![p1, p2];
    assert(s2.drop_last() =~= seq![p1]); assert(seq![p1].drop_last() =~= e);
    assert(sort_pairs(e) =~= e);
    assert(sort_pairs(seq![p1]) =~= seq![p1]) by { assert(insert_sorted(e, p1) =~= seq![p1]); }
    assert(sort_pairs(s2) =~= s2) by { assert(insert_sorted(seq![p1], p2) =~= seq![p1].push(p2)); assert(seq![p1].push(p2) =~= s2); }
    assert(segment(p1) =~= "a=b"@) by { reveal_strlit("a=b"); }
    assert(segment(p2) =~= "ab"@);
    let g2 = segments(s2);
    assert(g2 =~= seq![segment(p1), segment(p2)]);
    assert(g2.drop_last() =~= seq![segment(p1)]);
    assert(join_amp(seq![segment(p1)]) == segment(p1));
    assert(join_amp(g2) =~= "a=b&ab"@) by { reveal_strlit("a=b"); }
    let s1 = seq![p2];
    assert(s1.drop_last() =~= e);
    assert(sort_pairs(s1) =~= s1) by { assert(insert_sorted(e, p2) =~= seq![p2]); }
    assert(segments(s1) =~= seq![segment(p2)]);
    assert(join_amp(segments(s1)) =~= "ab"@);
}

// for header maps whose values are all visible ASCII, canon_h is exactly lower(name) ":" trim(value) LF per name
pub proof fn lemma_header_lines_exact(ks: Seq<Seq<char>>, hm: HMap)
    requires all_values_visible_ascii(hm), forall|i: int| 0 <= i < ks.len() ==> hm.contains_key(#[trigger] ks[i]) && hm[ks[i]].len() > 0,
    ensures header_lines(ks, hm) == header_lines_exact(ks, hm),
    decreases ks.len()
{
    broadcast use axiom_hv_text_visible_ascii;
    if ks.len() > 0 {
        assert forall|i: int| 0 <= i < ks.drop_last().len() implies hm.contains_key(#[trigger] ks.drop_last()[i]) && hm[ks.drop_last()[i]].len() > 0 by { assert(ks.drop_last()[i] == ks[i]); }
        lemma_header_lines_exact(ks.drop_last(), hm);
        let n = ks[ks.len() - 1];
        assert(hm.contains_key(n) && hm[n].len() > 0);
        assert(hv_visible_ascii(hm[n][hm[n].len() - 1]));
    }
}
pub proof fn lemma_canon_h_exact(hm: HMap)
    requires all_values_visible_ascii(hm), forall|n: Seq<char>| hm.contains_key(n) ==> (#[trigger] hm[n]).len() > 0,
    ensures canon_h(hm) == canon_h_exact(hm),
{
    let ks = sorted_names(signed_names(hm));
    lemma_sorted_enum_exists(signed_names(hm));
    assert forall|i: int| 0 <= i < ks.len() implies hm.contains_key(#[trigger] ks[i]) && hm[ks[i]].len() > 0 by {
        assert(ks.to_set().contains(ks[i])); assert(signed_names(hm).contains(ks[i]));
    }
    lemma_header_lines_exact(ks, hm);
}
