// Specification of C04 / C10 for the signing code, written from the property statements:
//  C04 "every request relayed upstream (other than the two documented signature-exempt log/telemetry uploads) carries one
//       authorization header 'Azure-HMAC-SHA256 <key id> <hex MAC>' whose MAC is HMAC-SHA256 under the latched key of the
//       canonical string built from the method, body, every header, path and every query parameter of the request exactly
//       as the host receives it ... both signing routes yield the same canonical string for the same request."
//  canonical string (hyper_client.rs comment + DESIGN C04 oracle):
//       method LF body LF canonH(headers) path LF canonP(pairs)
//       canonH = for each header name other than the authorization header, ascending by lower-case name,
//                lower(name) ":" trim(value) LF
//       canonP = one segment per query pair (lower(k) if the value is empty, else lower(k) "=" v), ascending by
//                lower(k) || v, joined by "&"
//  C10 "Every authorization header the agent emits pairs a key id with a MAC computed under that same key ..."

// ---- vocabulary (uninterpreted views of std / dependency values; pinned by the assumed specs in deps.rs) ----
pub uninterp spec fn lower(s: Seq<char>) -> Seq<char>;              // str::to_lowercase
pub uninterp spec fn trim(s: Seq<char>) -> Seq<char>;               // str::trim
pub uninterp spec fn uri_path(u: http::Uri) -> Seq<char>;            // Uri::path
pub uninterp spec fn uri_query(u: http::Uri) -> Option<Seq<char>>;   // Uri::query
pub uninterp spec fn uri_text(u: http::Uri) -> Seq<char>;            // Display for Uri (the request target as written)
pub uninterp spec fn method_text(m: http::Method) -> Seq<char>;      // Method::as_str == Display for Method
pub uninterp spec fn split_char(s: Seq<char>, c: char) -> Seq<Seq<char>>;   // str::split(char) pieces, in order
pub uninterp spec fn split_once_eq(s: Seq<char>) -> (Seq<char>, Option<Seq<char>>);  // s.splitn(2,'='): head, optional rest
pub open spec fn utf8(s: Seq<char>) -> Seq<u8> { vstd::utf8::encode_utf8(s) }          // str::as_bytes (vstd's UTF-8 model)
pub uninterp spec fn unhex_bytes(s: Seq<u8>) -> Option<Seq<u8>>;     // hex::decode on the ASCII bytes of a hex string (None: not a hex string)
pub open spec fn unhex(s: Seq<char>) -> Option<Seq<u8>> { unhex_bytes(utf8(s)) }
pub uninterp spec fn hex_text(b: Seq<u8>) -> Seq<char>;              // hex::encode (lower-case hex digits)
pub uninterp spec fn hmac_sha256(key: Seq<u8>, msg: Seq<u8>) -> Seq<u8>;   // HMAC-SHA256 (RFC 2104 / FIPS 180-4), 32 bytes

pub open spec fn LF() -> Seq<char> { "\n"@ }
pub open spec fn AUTH_H() -> Seq<char> { "x-ms-azure-host-authorization"@ }

// ---- G8: the signature exemption list is exactly the two documented (method, lower-cased URI) pairs -----------------
//      PUT /vmAgentLog   and   POST /machine/?comp=telemetrydata
pub open spec fn skip_spec(m: http::Method, u: http::Uri) -> bool {
    ||| (method_text(m) == "PUT"@ && lower(uri_text(u)) == "/vmagentlog"@)
    ||| (method_text(m) == "POST"@ && lower(uri_text(u)) == "/machine/?comp=telemetrydata"@)
}

// ---- G5: the MAC: hex(HMAC-SHA256(unhex(key), canonical string)) ------------------------------------------------------
pub open spec fn mac_spec(key: Seq<char>, input: Seq<u8>) -> Seq<char> {
    hex_text(hmac_sha256(unhex(key)->0, input))
}

// ---- query parameters of a URL (same definition as unit authz, where query_pairs is proved against it) ----------------
pub open spec fn piece_to_pair(piece: Seq<char>) -> (Seq<char>, Seq<char>) {
    let (k, v) = split_once_eq(piece);
    (k, match v { Some(x) => x, None => Seq::<char>::empty() })
}
pub open spec fn pairs_of_pieces(ps: Seq<Seq<char>>) -> Seq<(Seq<char>, Seq<char>)>
    decreases ps.len()
{
    if ps.len() == 0 { Seq::empty() } else {
        let rest = pairs_of_pieces(ps.drop_last());
        let pr = piece_to_pair(ps.last());
        if pr.0.len() == 0 { rest } else { rest.push(pr) }
    }
}
pub open spec fn url_pairs(u: http::Uri) -> Seq<(Seq<char>, Seq<char>)> {
    pairs_of_pieces(split_char(match uri_query(u) { Some(q) => q, None => Seq::<char>::empty() }, '&'))
}
pub open spec fn pairs_view(v: Seq<(String, String)>) -> Seq<(Seq<char>, Seq<char>)> {
    Seq::new(v.len(), |i: int| (v[i].0@, v[i].1@))
}

// ---- lexicographic order on character sequences (the order of String's Ord, which `sorted()` uses) ---------------------
pub open spec fn lex_lt(a: Seq<char>, b: Seq<char>) -> bool
    decreases a.len()
{
    if b.len() == 0 { false }
    else if a.len() == 0 { true }
    else if a[0] != b[0] { (a[0] as u32) < (b[0] as u32) }
    else { lex_lt(a.drop_first(), b.drop_first()) }
}
pub open spec fn ascending(ks: Seq<Seq<char>>) -> bool {
    forall|i: int, j: int| 0 <= i < j < ks.len() ==> lex_lt(#[trigger] ks[i], #[trigger] ks[j])
}
// ks lists the elements of s, each once, in ascending order
pub open spec fn sorted_enum(ks: Seq<Seq<char>>, s: Set<Seq<char>>) -> bool { ascending(ks) && ks.to_set() == s }
pub open spec fn sorted_names(s: Set<Seq<char>>) -> Seq<Seq<char>> { choose|ks: Seq<Seq<char>>| sorted_enum(ks, s) }

// ---- G3: canonicalized headers ---------------------------------------------------------------------------------------
// A header map is the http crate's: (lower-case) name -> the values received under that name, in order.
pub type HMap = Map<Seq<char>, Seq<http::header::HeaderValue>>;
// The value of a name that enters the canonical string. For a name that occurs once (the documented case) this is its
// value. For a name REPEATED in the request the host's rule is not documented (finding F9: observation); the
// specification fixes "the last value received" so that sig_input_spec is a total function; lemma_canon_h_single_valued
// shows that for single-valued maps the choice is immaterial.
pub open spec fn signed_value(vals: Seq<http::header::HeaderValue>) -> http::header::HeaderValue { vals.last() }
pub open spec fn header_line(n: Seq<char>, v: http::header::HeaderValue) -> Seq<char> {
    lower(n) + ":"@ + trim(hv_view(v)) + LF()
}
// header names other than the authorization header
pub open spec fn signed_names(hm: HMap) -> Set<Seq<char>> { hm.dom().filter(|n: Seq<char>| lower(n) != AUTH_H()) }
pub open spec fn header_lines(ks: Seq<Seq<char>>, hm: HMap) -> Seq<char>
    decreases ks.len()
{
    if ks.len() == 0 { Seq::<char>::empty() } else { header_lines(ks.drop_last(), hm) + header_line(ks.last(), signed_value(hm[ks.last()])) }
}
pub open spec fn canon_h(hm: HMap) -> Seq<char> { header_lines(sorted_names(signed_names(hm)), hm) }

// ---- G4: canonicalized parameters ------------------------------------------------------------------------------------
pub uninterp spec fn canon_p(ps: Seq<(Seq<char>, Seq<char>)>) -> Seq<char>;  // TODO

// ---- G1/G2: the canonical string ("string to sign") -----------------------------------------------------------------
pub open spec fn canon(method: Seq<char>, body: Seq<u8>, hm: HMap, path: Seq<char>, pairs: Seq<(Seq<char>, Seq<char>)>) -> Seq<u8> {
    utf8(method) + utf8(LF()) + body + utf8(LF()) + utf8(canon_h(hm)) + utf8(path) + utf8(LF()) + utf8(canon_p(pairs))
}
pub open spec fn sig_input_spec(m: http::Method, u: http::Uri, h: http::HeaderMap, body: Seq<u8>) -> Seq<u8> {
    canon(method_text(m), body, hm_view(h), uri_path(u), url_pairs(u))
}
// "both signing routes yield the same canonical string for the same request": the canonical string is a function of the
// request's parts only
pub proof fn lemma_same_request_same_canonical_string(m1: http::Method, u1: http::Uri, h1: http::HeaderMap, b1: Seq<u8>,
                                                     m2: http::Method, u2: http::Uri, h2: http::HeaderMap, b2: Seq<u8>)
    requires method_text(m1) == method_text(m2), u1 == u2, hm_view(h1) == hm_view(h2), b1 == b2,
    ensures sig_input_spec(m1, u1, h1, b1) == sig_input_spec(m2, u2, h2, b2),
{}
