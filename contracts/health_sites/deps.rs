// assumed specifications of std items used by the call sites (trusted; DESIGN 2.5 item 3). None of them can
// touch a StatusState or a StatusObj: they only take/return values of std types.
#[verifier::external_type_specification]
#[verifier::external_body]
pub struct ExExitStatus(std::process::ExitStatus);
#[verifier::external_type_specification]
pub struct ExOutput(std::process::Output);
#[verifier::external_type_specification]
#[verifier::external_body]
pub struct ExIoError(std::io::Error);
#[verifier::external_type_specification]
#[verifier::external_body]
pub struct ExPath(std::path::Path);
pub assume_specification [<std::path::PathBuf as core::ops::Deref>::deref] (s: &std::path::PathBuf) -> (r: &std::path::Path);
#[verifier::external_type_specification]
#[verifier::external_body]
pub struct ExCommand(std::process::Command);
#[verifier::external_type_specification]
#[verifier::external_body]
pub struct ExSerdeJsonError(serde_json::Error);

pub assume_specification [std::process::ExitStatus::success] (s: &std::process::ExitStatus) -> (r: bool);
pub assume_specification [std::process::ExitStatus::code] (s: &std::process::ExitStatus) -> (r: Option<i32>);
pub assume_specification [std::string::String::from_utf8_lossy] (v: &[u8]) -> (r: std::borrow::Cow<'_, str>);

// Display of these std types does not panic (needed by format!("{}", x)); the produced text is unconstrained.
#[verifier::external_body]
pub broadcast proof fn axiom_fmt_io_error() ensures #[trigger] vstd::std_specs::fmt::fmt_req_all::<std::io::Error>() {}
#[verifier::external_body]
pub broadcast proof fn axiom_fmt_cow() ensures #[trigger] vstd::std_specs::fmt::fmt_req_all::<std::borrow::Cow<'_, str>>() {}
#[verifier::external_body]
pub broadcast proof fn axiom_fmt_serde_error() ensures #[trigger] vstd::std_specs::fmt::fmt_req_all::<serde_json::Error>() {}
pub broadcast group group_fmt_sites { axiom_fmt_io_error, axiom_fmt_cow, axiom_fmt_serde_error }

// ---- process / path / json plumbing: values only (no ensures) ----
#[verifier::external_type_specification]
#[verifier::external_body]
pub struct ExOsStr(std::ffi::OsStr);
pub assume_specification<S> [std::process::Command::new] (_0: S) -> std::process::Command
    where S: std::convert::AsRef<std::ffi::OsStr>;
pub assume_specification<S> [std::process::Command::arg] (_0: &mut std::process::Command, _1: S) -> &mut std::process::Command
    where S: std::convert::AsRef<std::ffi::OsStr>;
pub assume_specification [std::process::Command::output] (_0: &mut std::process::Command) -> std::result::Result<std::process::Output, std::io::Error>;
pub assume_specification<T: ?Sized + serde::Serialize> [serde_json::to_string] (v: &T) -> std::result::Result<std::string::String, serde_json::Error>;
pub assume_specification<'a, T: ?Sized + AsRef<std::ffi::OsStr>> [<std::path::PathBuf as From<&'a T>>::from] (s: &T) -> (r: std::path::PathBuf);
pub assume_specification<P> [std::path::Path::join] (_0: &std::path::Path, _1: P) -> (r: std::path::PathBuf)
    where P: std::convert::AsRef<std::path::Path>;
pub assume_specification<P> [std::process::Command::current_dir] (_0: &mut std::process::Command, _1: P) -> &mut std::process::Command
    where P: std::convert::AsRef<std::path::Path>;
pub assume_specification [std::path::Path::to_path_buf] (_0: &std::path::Path) -> std::path::PathBuf;
