// Specification of the C20 CALL SITES, written from the property statement (the automaton `step`, `run`, the
// history lemmas and `lits()` come from ../health/spec.rs, spliced in above this text, unchanged):
//   "The VM extension reports the agent as Error only after at least 20 consecutive failed health
//    observations, never directly after a success; a single successful observation always moves the
//    report away from Error and two consecutive successes always yield Success".
// Every function of the extension service that publishes a health status makes a fixed number of OBSERVATIONS,
// feeds each of them ONCE to the automaton (StatusState) with the success flag of what it has just observed,
// and publishes the TEXT OF THE AUTOMATON STATE reached -- never a literal, never a stale text.  Then every
// published text is the output of `run(init_abs(), h)` for the history h of observations, and the lemmas of
// ../health/spec.rs (lemma_history, lemma_no_error_after_success, lemma_success_leaves_error) are the sentences
// of the statement for every such history.

// the text published for an automaton state (`step` never yields Other)
pub open spec fn st_text(s: St) -> Seq<char> {
    match s {
        St::S => crate::constants::SUCCESS_STATUS@,
        St::T => crate::constants::TRANSITIONING_STATUS@,
        St::E => crate::constants::ERROR_STATUS@,
        St::Other => arbitrary(),
    }
}

// ---- what each site observes ---------------------------------------------------------------------------
// (1) report_proxy_agent_service_status: ONE observation, FAILED in all three branches (setup tool ran and exited 0 /
//     exited non-zero / could not be run).  Reason (decision of the property owner, recorded in level_note): C20 speaks
//     of health observations OF THE AGENT; the report written right after running the setup tool -- whatever the
//     tool's exit code -- is published before the (re)installed agent has been observed, so it records "not observed
//     healthy" (it yields Transitioning while the update is in progress).  The setup tool's exit status is not a
//     health observation of the agent; the only place the extension observes the agent healthy is (2).
// (2) extension_substatus: ONE observation = the aggregate status the agent wrote: success iff it was written by
//     the agent version this extension carries.
pub open spec fn agg_ok(agg_version: Seq<char>, ext_version: Seq<char>) -> bool { agg_version == ext_version }
// (3) report_proxy_agent_aggregate_status: ONE observation = reading the agent's aggregate status file: failed if
//     the file cannot be read/parsed, otherwise (2).  What the read returned is recorded by the (assumed) stub of
//     misc_helpers::json_read_from_file in the ghost World: Some(version text) / None.
pub tracked struct World { pub ghost agg_read: Option<Seq<char>> }
pub open spec fn read_ok(w: World, ext_version: Seq<char>) -> bool {
    w.agg_read matches Some(v) && agg_ok(v, ext_version)
}

// one step of the automaton, flag unknown: used for "exactly one step per observation"
pub open spec fn one_step(a: Abs, b: Abs) -> bool { b == step(a, true) || b == step(a, false) }

pub proof fn lemma_run_push(h: Seq<bool>, ok: bool)
    ensures run(init_abs(), h.push(ok)) == step(run(init_abs(), h), ok)
{
    assert(h.push(ok).drop_last() =~= h);
}

// ---- the sentences of the statement for the call sites ----------------------------------------------------
// Any function that (i) starts in a state reached from `new()` by a history h, (ii) makes one observation `ok`,
// steps once and (iii) publishes st_text of the state reached, publishes the automaton's output for h.push(ok):
pub proof fn lemma_site_publishes_run(h: Seq<bool>, ok: bool, before: Abs, after: Abs, published: Seq<char>)
    requires before == run(init_abs(), h), after == step(before, ok), published == st_text(after.st),
    ensures after == run(init_abs(), h.push(ok)),
            published == crate::constants::ERROR_STATUS@ ==> trailing_fail(h.push(ok)) >= 20 && !ok,   // @C20.lemma_site.error_only_after_20_failures_never_after_success
            ok ==> published != crate::constants::ERROR_STATUS@,                                      // @C20.lemma_site.one_success_leaves_error
            ok && h.len() > 0 && h.last() ==> published == crate::constants::SUCCESS_STATUS@,          // @C20.lemma_site.two_successes_publish_success
{
    lits();
    let h1 = h.push(ok);
    assert(h1.drop_last() =~= h);
    lemma_history(h1);
    lemma_history(h);
    if ok && h.len() > 0 && h.last() {
        let h0 = h.drop_last();
        assert(h0.push(true) =~= h);
        lemma_success_leaves_error(h0);
        assert(h0.push(true).push(true) =~= h1);
    }
}
