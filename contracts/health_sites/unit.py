# unit `health_sites` (C20): every function of the extension service (proxy_agent_extension/src/service_main.rs) that
# publishes a health status -- assigns `status.status` / calls StatusState::update_state / hands `status` to
# common::report_status -- extracted from the real source, with postconditions written from the property statement:
# one automaton step per observation, published text == text of the automaton state reached.
import os
HERE = os.path.dirname(os.path.abspath(__file__))
CONTRACTS = os.path.dirname(HERE)
COMMON = os.path.join(CONTRACTS, "common")
HEALTH = os.path.join(CONTRACTS, "health")

ASSUMPTIONS = [
    "&str / String extensionality axioms; String::to_string / clone / eq give view-equal strings (vstd specs + contracts/common/std_string.rs)",
    "the setup tool's exit status is not a health observation of the agent: report_proxy_agent_service_status records a FAILED "
    "observation in all three branches (installed / exit code != 0 / could not be run), by decision of the property owner",
    "stubs (real signatures, bodies dropped, no effect on a StatusState; a `&StatusObj`/`&mut` they do not receive cannot change): "
    "logger::write/get_logger_key, telemetry event_logger::write_event, SimpleSpan, misc_helpers::*, common::report_status (writes the "
    "status file it is handed), common::get_current_seq_no/get_handler_environment/get_proxy_agent_service_path/setup_tool_exe_path, "
    "write_state_event (proved in unit health), backup_proxyagent, get_top_proxy_connection_summary, get_proxy_agent_file_version_in_extension",
    "misc_helpers::json_read_from_file records in the ghost World what it returned (Some(version text of the aggregate status) / None)",
    "std::process::Command / Output / ExitStatus, serde_json::to_string, tokio::time::sleep: values only (E9 / assume_specification without ensures)",
]

SSO_INV = "old(status_state_obj).inv()"


def build(u):
    common = u.src("proxy_agent_extension/src/common.rs")
    consts = u.src("proxy_agent_extension/src/constants.rs")
    structs = u.src("proxy_agent_extension/src/structs.rs")
    xlog = u.src("proxy_agent_extension/src/logger.rs")
    sm = u.src("proxy_agent_extension/src/service_main.rs")
    ss = u.src("proxy_agent_extension/src/service_main/service_state.rs")
    s_mh = u.src("proxy_agent_shared/src/misc_helpers.rs")
    s_lg = u.src("proxy_agent_shared/src/logger.rs")
    s_el = u.src("proxy_agent_shared/src/telemetry/event_logger.rs")
    s_sp = u.src("proxy_agent_shared/src/telemetry/span.rs")
    s_ag = u.src("proxy_agent_shared/src/proxy_agent_aggregate_status.rs")
    s_er = u.src("proxy_agent_shared/src/error.rs")
    u.features.append("allocator_api")
    u.features.append("sized_hierarchy")

    u.raw(open(os.path.join(COMMON, "str_axioms.rs")).read())
    u.raw(open(os.path.join(COMMON, "std_string.rs")).read())
    u.raw(open(os.path.join(COMMON, "ext_types.rs")).read())
    # the automaton, its history lemmas and lits(): the text of unit `health`, unchanged
    u.emit("// ---- ../health/spec.rs\n" + open(os.path.join(HEALTH, "spec.rs")).read() + "\n// ---- end ../health/spec.rs\n", "contract")
    u.raw_file("spec.rs")
    u.raw_file("deps.rs")

    # ---------------- crate proxy_agent_shared (the parts the extension service calls): stubs ----------------
    with u.mod("proxy_agent_shared"):
        with u.mod("error"):
            u.take_ext(s_er, ["Error", "ParseVersionErrorType", "CommandErrorType"], "vx_ext_shared_error")
            u.raw("""
#[verifier::external_body]
pub broadcast proof fn axiom_fmt_shared_error() ensures #[trigger] vstd::std_specs::fmt::fmt_req_all::<Error>() {}
""")
        with u.mod("result", uses="use super::error::Error;"):
            u.raw("pub type Result<T> = core::result::Result<T, Error>;", names=("Result",))
        with u.mod("logger"):
            u.take(s_lg, "LoggerLevel", "type")
        with u.mod("proxy_agent_aggregate_status"):
            u.take(s_ag, "PROXY_AGENT_AGGREGATE_STATUS_FOLDER", "const")
            u.take(s_ag, "PROXY_AGENT_AGGREGATE_STATUS_FILE_NAME", "const")
            u.take_ext(s_ag, ["ModuleState", "OverallState", "ProxyAgentDetailStatus", "ProxyAgentStatus", "ProxyConnectionSummary",
                              "GuestProxyAgentAggregateStatus"], "vx_ext_aggstatus",
                       uses="use serde_derive::{Deserialize, Serialize};\nuse std::collections::HashMap;", transparent=True)
            with u.impl_(s_ag, "<ProxyConnectionSummary as Clone>"):
                u.take_fn(s_ag, "<ProxyConnectionSummary as Clone>::clone", external_body=True, make_pub=False)
        with u.mod("misc_helpers", uses="use super::result::Result;\nuse super::error::Error;\nuse std::path::{Path, PathBuf};\nuse serde::de::DeserializeOwned;\nuse serde::Serialize;"):
            for fn in ("get_date_time_string", "get_current_exe_dir", "path_to_string", "get_proxy_agent_version"):
                u.take_fn(s_mh, fn, external_body=True)
            u.take_fn(s_mh, "json_read_from_file", external_body=True)
        with u.mod("telemetry"):
            with u.mod("event_logger", uses="use log::Level;"):
                u.take_fn(s_el, "write_event", external_body=True, ret="")
            with u.mod("span"):
                u.placeholder_ext(s_sp, ["SimpleSpan"], "vx_ph_span", keep=())
                with u.impl_(s_sp, "SimpleSpan"):
                    u.take_fn(s_sp, "SimpleSpan::new", external_body=True)
                    u.take_fn(s_sp, "SimpleSpan::write_event", external_body=True)

    # ---------------- crate proxy_agent_extension ----------------
    with u.mod("constants"):
        seen = set()
        for it in consts.index["items"]:          # every top-level const of the linux target (cfg(windows) twins are excluded by E2)
            if it["kind"] == "const" and it["name"] not in seen and consts.has_item(it["path"]):
                seen.add(it["name"])
                u.take(consts, it["path"], "const")
    with u.mod("structs"):
        for n in ("HandlerEnvironment", "FormattedMessage", "SubStatus", "StatusObj"):
            u.take(structs, n, "struct")
    with u.mod("logger"):
        u.take_fn(xlog, "get_logger_key", external_body=True)
        u.take_fn(xlog, "write", external_body=True, ret="")
    with u.mod("common", auto_uses=common):
        u.take(common, "StatusState", "struct")
        # abs / inv: the text of unit `health`
        u.raw("""
impl StatusState {
    pub open spec fn abs(self) -> Abs {
        Abs { st: if self.current_state@ == constants::SUCCESS_STATUS@ { St::S }
                  else if self.current_state@ == constants::TRANSITIONING_STATUS@ { St::T }
                  else if self.current_state@ == constants::ERROR_STATUS@ { St::E } else { St::Other },
              fail: self.consecutive_fail_count as int, succ: self.consecutive_success_count as int }
    }
    pub open spec fn inv(self) -> bool {
        self.transition_to_error_threshold == 20 && self.consecutive_fail_count <= 10000 && self.consecutive_success_count <= 10000
    }
}
""")
        with u.impl_(common, "StatusState"):
            u.take(common, "StatusState::MAX_CONSECUTIVE_COUNT", "impl_const")
            # same contracts as in unit `health` (proved there and, on the same bytes, here) + the published text
            u.take_fn(common, "StatusState::new", contract="""
    ensures r.inv(),  // @C20.new.inv
            r.abs() == init_abs(),  // @C20.new.initial_state
""", pre_body="proof { lits(); }")
            u.take_fn(common, "StatusState::update_state", contract="""
    requires old(self).inv(),
    ensures final(self).inv(),  // @C20.update_state.inv
            final(self).abs() == step(old(self).abs(), operation_success),  // @C20.update_state.refines_step
            r@ == final(self).current_state@,  // @C20.update_state.returns_state
            r@ == st_text(final(self).abs().st),  // @C20.update_state.returns_text_of_automaton_state
""", pre_body="broadcast use axiom_str_ext;\nproof { lits(); }")
        # the publication primitive: writes `status_obj` to <seq_no>.status. Ghost argument (E4): the automaton state the caller
        # claims to publish; the precondition is the obligation of every caller.
        u.take_fn(common, "report_status", external_body=True, ret="", ghost="Ghost(a): Ghost<Abs>", contract="""
    requires status_obj.status@ == st_text(a.st),  // @C20.report_status.published_text_is_text_of_automaton_state
""")
        for fn in ("setup_tool_exe_path", "get_handler_environment", "get_current_seq_no", "get_proxy_agent_service_path"):
            u.take_fn(common, fn, external_body=True)

    with u.mod("service_main", uses="use crate::service_main::service_state::ServiceState;\nuse std::collections::HashMap;", auto_uses=sm):
        with u.mod("service_state", uses="use std::collections::HashMap;"):
            u.take(ss, "ServiceState", "struct", keep_derive=("Default",))
        # write_state_event: proved in unit `health` (emits on a change of the value stored under the key, then once per 120 repetitions);
        # no effect on status / StatusState. Here: the throttle slot (key) must be the one of the notification's TOPIC - two topics
        # sharing one slot see each other's values as changes and are emitted every time (the throttle clause of C20).
        u.raw("""pub enum Topic { ReadStatusFile, FileVersion }
pub open spec fn topic_key(t: Topic) -> Seq<char> {
    match t { Topic::ReadStatusFile => constants::STATE_KEY_READ_PROXY_AGENT_STATUS_FILE@, Topic::FileVersion => constants::STATE_KEY_FILE_VERSION@ }
}
pub proof fn lemma_topics_have_slots_of_their_own()
    ensures topic_key(Topic::ReadStatusFile) != topic_key(Topic::FileVersion),  // @C20.write_state_event.topics_have_slots_of_their_own
{
    reveal_strlit("ReadProxyAgentStatusFile"); reveal_strlit("FileVersion");
    assert(constants::STATE_KEY_READ_PROXY_AGENT_STATUS_FILE@.len() != constants::STATE_KEY_FILE_VERSION@.len());
}""")
        u.take_fn(sm, "write_state_event", external_body=True, ret="", ghost="Ghost(topic): Ghost<Topic>", contract="""
    requires state_key@ == topic_key(topic),  // @C20.write_state_event.slot_is_the_one_of_this_notifications_topic
""")
        u.take_fn(sm, "get_top_proxy_connection_summary", external_body=True)
        u.take_fn(sm, "backup_proxyagent", external_body=True, ret="")
        u.take_fn(sm, "get_proxy_agent_file_version_in_extension", external_body=True)

        PRE = "broadcast use axiom_str_ext, axiom_string_ext, axiom_to_string_string, group_fmt_sites, crate::proxy_agent_shared::error::axiom_fmt_shared_error;\nproof { lits(); }"
        GC_REPORT = [("common::report_status", "all", "Ghost(status_state_obj.abs())")]

        # (1) ONE observation, failed in all three branches (see spec.rs)
        u.take_fn(sm, "report_proxy_agent_service_status", ret="", pre_body=PRE, ghost_calls=GC_REPORT, contract="""
    requires old(status_state_obj).inv(),
    ensures
        final(status_state_obj).inv(),  // @C20.report_proxy_agent_service_status.inv
        one_step(old(status_state_obj).abs(), final(status_state_obj).abs()),  // @C20.report_proxy_agent_service_status.exactly_one_step_per_observation
        final(status_state_obj).abs() == step(old(status_state_obj).abs(), false),  // @C20.report_proxy_agent_service_status.flag_is_not_observed_healthy
        final(status).status@ == st_text(final(status_state_obj).abs().st),  // @C20.report_proxy_agent_service_status.publishes_text_of_automaton_state
""")

        # restore_purge_proxyagent receives `&mut StatusObj` between the observation and the publication: it must hand it back
        # with the same status text (it only READS status.status to choose restore / purge)
        u.take_fn(sm, "restore_purge_proxyagent", pre_body=PRE, contract="""
    ensures
        final(status).status@ == old(status).status@,  // @C20.restore_purge_proxyagent.status_text_unchanged
""")

        # (2) ONE observation: the aggregate status was written by the agent version this extension carries
        u.take_fn(sm, "extension_substatus", ret="", pre_body=PRE, ghost_calls=[("write_state_event", "all", "Ghost(Topic::FileVersion)")], contract="""
    requires old(status_state_obj).inv(),
    ensures
        final(status_state_obj).inv(),  // @C20.extension_substatus.inv
        one_step(old(status_state_obj).abs(), final(status_state_obj).abs()),  // @C20.extension_substatus.exactly_one_step_per_observation
        final(status_state_obj).abs() == step(old(status_state_obj).abs(),
            agg_ok(proxy_agent_aggregate_status_top_level.proxyAgentStatus.version@, proxyagent_file_version_in_extension@)),  // @C20.extension_substatus.flag_is_version_match
        final(status).status@ == st_text(final(status_state_obj).abs().st),  // @C20.extension_substatus.publishes_text_of_automaton_state
""")

        # (3) ONE observation: reading the aggregate status file (failed read = failed observation, otherwise (2))
        it = sm.item("report_proxy_agent_aggregate_status", "fn")
        rd = [c for c in it["calls"] if c["callee"].replace(" ", "").startswith("misc_helpers::json_read_from_file")]
        if len(rd) != 1:
            from vxlib import Undecided
            raise Undecided("report_proxy_agent_aggregate_status: the read of the aggregate status file was found %d times" % len(rd))
        rd_args = ", ".join(sm.s(a[0], a[1]) for a in rd[0]["args"])
        u.take_fn(sm, "report_proxy_agent_aggregate_status", ret="", pre_body=PRE, ghost="Tracked(w): Tracked<&mut World>",
                  ghost_calls=[("write_state_event", "all", "Ghost(Topic::ReadStatusFile)")],
                  e9=[(tuple(rd[0]["span"]), None, "p: &PathBuf, Tracked(w): Tracked<&mut World>", rd_args + ", Tracked(w)",
                       "proxy_agent_shared::result::Result<GuestProxyAgentAggregateStatus>", """
    ensures final(w).agg_read == (match r { Ok(v) => Some(v.proxyAgentStatus.version@), Err(_) => None::<Seq<char>> }),""",
                       dict(name="vx_e9_read_aggregate_status", local=True, body="misc_helpers::json_read_from_file::<GuestProxyAgentAggregateStatus>(p)"))],
                  contract="""
    requires old(status_state_obj).inv(),
    ensures
        final(status_state_obj).inv(),  // @C20.report_proxy_agent_aggregate_status.inv
        one_step(old(status_state_obj).abs(), final(status_state_obj).abs()),  // @C20.report_proxy_agent_aggregate_status.exactly_one_step_per_observation
        final(status_state_obj).abs() == step(old(status_state_obj).abs(), read_ok(*final(w), proxyagent_file_version_in_extension@)),  // @C20.report_proxy_agent_aggregate_status.flag_is_read_ok_and_version_match
        final(status).status@ == st_text(final(status_state_obj).abs().st),  // @C20.report_proxy_agent_aggregate_status.publishes_text_of_automaton_state
""")

        # (4) the monitor loop: per iteration at most the install report (1) and then exactly the probe (3); it never steps the
        #     automaton itself and never re-creates it: with h the ghost history of ALL observations since the thread started,
        #     the automaton state is run(init_abs(), h) at every loop head, and what is handed to common::report_status is the
        #     automaton's output for h -- so the sentences of the statement hold for the text published, for every history.
        u.take_fn(sm, "monitor_thread", ret="", extra_attrs="#[verifier::exec_allows_no_decreases_clause]",
                  pre_body=PRE + "\nlet tracked mut w = World { agg_read: None };\nlet ghost mut h: Seq<bool> = Seq::empty();",
                  loops={0: """    invariant status_state_obj.inv(),
              status_state_obj.abs() == run(init_abs(), h),  // @C20.monitor_thread.automaton_state_is_run_of_all_observations"""},
                  loop_attrs={0: "#[verifier::loop_isolation(false)]"},
                  ghost_calls=[("common::report_status", "all", "Ghost(status_state_obj.abs())"),
                               ("report_proxy_agent_aggregate_status", None, "Tracked(&mut w)")],
                  e9=[("tokio::time::sleep(Duration::from_secs(15)).await", None, "", "", "", "", dict(is_async=True, name="vx_e9_sleep_15s", local=True)),
                      ("ServiceState::default()", None, "", "", "ServiceState", "", dict(name="vx_e9_service_state_default", local=True))],
                  hints=[("let current_seq_no = common::get_current_seq_no", None, "before",
                          "let ghost a0 = status_state_obj.abs();"),
                         # observation (1): the install report, recorded in h when the real call has been made
                         ("report_proxy_agent_service_status(", None, "after", "proof { lemma_run_push(h, false); h = h.push(false); }"),
                         ("report_proxy_agent_aggregate_status(", None, "before", """proof {
            assert(status_state_obj.abs() == a0 || status_state_obj.abs() == step(a0, false));  // @C20.monitor_thread.before_the_probe_at_most_the_install_report
            assert(status_state_obj.abs() == run(init_abs(), h));  // @C20.monitor_thread.no_step_outside_the_observing_functions
        }
        let ghost a1 = status_state_obj.abs();"""),
                         # observation (3): the probe
                         ("report_proxy_agent_aggregate_status(", None, "after", """proof {
            lemma_run_push(h, read_ok(w, proxyagent_file_version_in_extension@)); h = h.push(read_ok(w, proxyagent_file_version_in_extension@));
        }"""),
                         ("common::report_status(", None, "before", """proof {
            assert(status_state_obj.abs() == step(a1, read_ok(w, proxyagent_file_version_in_extension@)));  // @C20.monitor_thread.exactly_one_step_per_probe
            assert(status.status@ == st_text(run(init_abs(), h).st));  // @C20.monitor_thread.publishes_automaton_output_for_the_whole_history
            lemma_history(h);
            assert(status.status@ == constants::ERROR_STATUS@ ==> trailing_fail(h) >= 20 && !h.last());  // @C20.monitor_thread.error_only_after_20_consecutive_failures
            assert(h.last() ==> status.status@ != constants::ERROR_STATUS@);  // @C20.monitor_thread.never_error_directly_after_a_success
            if h.len() >= 2 && h.last() && h[h.len() - 2] {
                let h0 = h.drop_last().drop_last();
                assert(h0.push(true).push(true) =~= h);
                lemma_success_leaves_error(h0);
            }
            assert(h.len() >= 2 && h.last() && h[h.len() - 2] ==> status.status@ == constants::SUCCESS_STATUS@);  // @C20.monitor_thread.two_consecutive_successes_publish_success
        }""")])
