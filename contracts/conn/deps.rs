// ---- assumed specifications of std / dependency functions used by unit `conn` (trusted, DESIGN 2.5 item 3) ----
#[verifier::external_type_specification] #[verifier::external_body]
pub struct ExIpv4Addr(std::net::Ipv4Addr);
#[verifier::external_type_specification] #[verifier::external_body]
pub struct ExSocketAddr(std::net::SocketAddr);
#[verifier::external_type_specification] #[verifier::external_body]
pub struct ExIpAddr(std::net::IpAddr);
#[verifier::external_type_specification] #[verifier::external_body] #[verifier::reject_recursive_types(T)]
pub struct ExTokioMutex<T: ?Sized>(tokio::sync::Mutex<T>);
#[verifier::external_type_specification] #[verifier::external_body] #[verifier::reject_recursive_types(T)]
pub struct ExStdMutex<T: ?Sized>(std::sync::Mutex<T>);
#[verifier::external_type_specification] #[verifier::external_body] #[verifier::reject_recursive_types(T)]
pub struct ExStdMutexGuard<'a, T: ?Sized + 'a>(std::sync::MutexGuard<'a, T>);
#[verifier::external_type_specification] #[verifier::external_body] #[verifier::reject_recursive_types(T)]
pub struct ExPoisonError<T>(std::sync::PoisonError<T>);

// -- the aya API stand-in (contracts/conn/aya_standin.rs): opaque types
#[verifier::external_type_specification] #[verifier::external_body]
pub struct ExAyaMap(crate::aya::maps::Map);
#[verifier::external_type_specification] #[verifier::external_body]
pub struct ExAyaMapData(crate::aya::maps::MapData);
#[verifier::external_type_specification] #[verifier::external_body]
pub struct ExAyaMapError(crate::aya::maps::MapError);
#[verifier::external_type_specification] #[verifier::external_body]
#[verifier::reject_recursive_types(T)] #[verifier::reject_recursive_types(K)] #[verifier::reject_recursive_types(V)]
pub struct ExAyaHashMap<T, K, V>(crate::aya::maps::HashMap<T, K, V>);
#[verifier::external_body] pub broadcast proof fn axiom_fmt_aya_map_error() ensures #[trigger] vstd::std_specs::fmt::fmt_req_all::<crate::aya::maps::MapError>() {}
#[verifier::external_body] pub broadcast proof fn axiom_fmt_error() ensures #[trigger] vstd::std_specs::fmt::fmt_req_all::<crate::common::error::Error>() {}

// -- std::sync::Mutex: `lock` blocks until the mutex is acquired; ASSUMED not poisoned (no holder of the BpfObject
//    mutex panics; DESIGN 2.5 item 8). The guard dereferences to the protected value.
pub assume_specification<T: ?Sized> [std::sync::Mutex::<T>::lock] (m: &std::sync::Mutex<T>) -> (r: std::sync::LockResult<std::sync::MutexGuard<'_, T>>)
    ensures r is Ok;
// -- byte order / address helpers (core): only named, not interpreted
pub assume_specification [u16::from_be] (x: u16) -> (r: u16) ensures r == from_be16(x);
pub assume_specification [u32::to_be] (x: u32) -> (r: u32) ensures r == be32(x);
pub assume_specification [std::net::Ipv4Addr::from_bits] (b: u32) -> (r: std::net::Ipv4Addr) ensures r == ipv4_of_bits(b);
pub assume_specification [std::net::SocketAddr::ip] (a: &std::net::SocketAddr) -> (r: std::net::IpAddr) ensures r == addr_ip(*a);
pub assume_specification [std::net::SocketAddr::port] (a: &std::net::SocketAddr) -> (r: u16) ensures r == addr_port(*a);
#[verifier::external_body] pub broadcast proof fn axiom_fmt_ipaddr() ensures #[trigger] vstd::std_specs::fmt::fmt_req_all::<std::net::IpAddr>() {}
#[verifier::external_body]
pub broadcast proof fn axiom_to_string_ipaddr(t: &std::net::IpAddr, s: String)
    ensures #[trigger] vstd::string::to_string_from_display_ensures::<std::net::IpAddr>(t, s) <==> s@ == ipaddr_text(*t) {}
#[verifier::external_body]
pub broadcast proof fn axiom_to_string_ipv4(t: &std::net::Ipv4Addr, s: String)
    ensures #[trigger] vstd::string::to_string_from_display_ensures::<std::net::Ipv4Addr>(t, s) <==> s@ == ip_string(*t) {}
// -- field types of common::error::Error (opaque)
#[verifier::external_type_specification] #[verifier::external_body]
pub struct ExIoError(std::io::Error);
#[verifier::external_type_specification] #[verifier::external_body]
pub struct ExFromHexError(hex::FromHexError);
#[verifier::external_type_specification] #[verifier::external_body]
pub struct ExRecvError(tokio::sync::oneshot::error::RecvError);
#[verifier::external_type_specification] #[verifier::external_body]
pub struct ExNulError(std::ffi::NulError);
// (only so that Verus' trait-conflict checker sees the Deref impls that std's DerefMut impls of these types depend on)
#[verifier::external_type_specification] #[verifier::external_body]
pub struct ExOsStr(std::ffi::OsStr);
#[verifier::external_type_specification] #[verifier::external_body]
pub struct ExPath(std::path::Path);
pub assume_specification [<std::ffi::OsString as core::ops::Deref>::deref] (s: &std::ffi::OsString) -> &std::ffi::OsStr;
pub assume_specification [<std::path::PathBuf as core::ops::Deref>::deref] (s: &std::path::PathBuf) -> &std::path::Path;
#[verifier::external_type_specification] #[verifier::external_body]
pub struct ExCancellationToken(tokio_util::sync::CancellationToken);
// -- std::sync::Mutex::try_lock: "If the lock could not be acquired at this time, then Err is returned" (WouldBlock whenever
//    another thread holds the lock; Poisoned if a holder panicked): the result is UNCONSTRAINED.
#[verifier::external_type_specification] #[verifier::reject_recursive_types(T)]
pub struct ExTryLockError<T>(std::sync::TryLockError<T>);
pub assume_specification<T: ?Sized> [std::sync::Mutex::<T>::try_lock] (m: &std::sync::Mutex<T>) -> (r: std::sync::TryLockResult<std::sync::MutexGuard<'_, T>>);
#[verifier::external_body] pub broadcast proof fn axiom_fmt_try_lock_error<T>() ensures #[trigger] vstd::std_specs::fmt::fmt_req_all::<std::sync::TryLockError<T>>() {}
#[verifier::external_body] pub broadcast proof fn axiom_fmt_poison_error<T>() ensures #[trigger] vstd::std_specs::fmt::fmt_req_all::<std::sync::PoisonError<T>>() {}
pub broadcast group group_fmt_lock_errors { axiom_fmt_try_lock_error, axiom_fmt_poison_error }
// u16::to_be / u32::from_be: only named (uninterpreted), like their counterparts above: a key or field that is converted where
// the statement's layout does not convert it cannot be shown equal to the layout's value
pub uninterp spec fn be16(x: u16) -> u16;
pub assume_specification [u16::to_be] (x: u16) -> (r: u16) ensures r == be16(x);
pub uninterp spec fn from_be32(x: u32) -> u32;
pub assume_specification [u32::from_be] (x: u32) -> (r: u32) ensures r == from_be32(x);

// ---- the accepted socket (per-connection task of handle_new_tcp_connection): opaque; peer_addr() may fail (ENOTCONN for a
//      connection reset while it was queued) and says nothing the proofs use
#[verifier::external_type_specification] #[verifier::external_body] pub struct ExTokioTcpStream(tokio::net::TcpStream);
#[verifier::external_type_specification] #[verifier::external_body] pub struct ExStdTcpStream(std::net::TcpStream);
pub assume_specification [tokio::net::TcpStream::peer_addr] (s: &tokio::net::TcpStream) -> (r: std::io::Result<std::net::SocketAddr>);
