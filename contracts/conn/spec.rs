// Specification for C07 (attribution is single-use), written from the property statement.
use crate::redirector::AuditEntry;
use crate::proxy::Claims;
use crate::proxy::proxy_connection::TcpConnectionContext;

// ---- the kernel's attribution records, as the statement sees them: source port -> the record the kernel hook wrote
//      for the redirected connect() that used this source port (C06 says what the hook writes). `loaded`: the redirector
//      actor hands out a BPF object that has a well-formed `audit_map` (false before start / after shutdown).
pub tracked struct Kernel {
    pub ghost audit: Map<u16, AuditEntry>,
    pub ghost loaded: bool,
}

// "the record is consumed when the connection is accepted": WHOLE-map statement, no other port is touched
//  (with no BPF object loaded there is no hook and nothing can be looked up or removed: the state is unchanged)
pub open spec fn consumed(k0: Kernel, k1: Kernel, port: u16) -> bool {
    &&& k1.loaded == k0.loaded
    &&& k0.loaded ==> k1.audit == k0.audit.remove(port)
    &&& !k0.loaded ==> k1.audit == k0.audit
}

// ---- the audit_map of linux-ebpf/ebpf_cgroup.c: key = { u32 protocol; u32 source_port }, value = 5 x u32
//      { logon_id, process_id, is_root, destination_ipv4, destination_port } (the C06 units decide what the hook stores)
pub open spec fn audit_key(p: u16) -> Seq<u32> { seq![6u32, p as u32] }         // IPPROTO_TCP, source port
pub open spec fn port_of_key(k: Seq<u32>) -> Option<u16> {
    if k.len() == 2 && k[0] == 6u32 && k[1] <= 0xffffu32 { Some(k[1] as u16) } else { None }
}
pub open spec fn entry_of_raw(v: Seq<u32>) -> AuditEntry {
    AuditEntry { logon_id: v[0] as u64, process_id: v[1], is_admin: v[2] as i32, destination_ipv4: v[3], destination_port: v[4] as u16 }
}

// ---- "the identity and destination ... are those recorded by the kernel for that very connection"
pub uninterp spec fn be32(x: u32) -> u32;                        // u32::to_be (byte swap on little endian)
pub uninterp spec fn from_be16(x: u16) -> u16;                   // u16::from_be
pub uninterp spec fn ipv4_of_bits(b: u32) -> std::net::Ipv4Addr; // Ipv4Addr::from_bits
pub open spec fn dest_ip_of(e: AuditEntry) -> std::net::Ipv4Addr { ipv4_of_bits(be32(e.destination_ipv4)) }
pub open spec fn dest_port_of(e: AuditEntry) -> u16 { from_be16(e.destination_port) }
pub uninterp spec fn addr_port(a: std::net::SocketAddr) -> u16;                 // SocketAddr::port
pub uninterp spec fn addr_ip(a: std::net::SocketAddr) -> std::net::IpAddr;      // SocketAddr::ip
pub uninterp spec fn ipaddr_text(a: std::net::IpAddr) -> Seq<char>;             // IpAddr::to_string
pub uninterp spec fn ip_string(ip: std::net::Ipv4Addr) -> Seq<char>;            // Ipv4Addr::to_string (dotted quad)

// the caller identity carried by the claims is the one in record `e` (user id, process id, elevation) and the
// client address is the one of this connection
pub open spec fn identity_from_record(c: Claims, e: AuditEntry, client_ip: std::net::IpAddr, client_port: u16) -> bool {
    &&& c.userId == e.logon_id
    &&& c.processId == e.process_id
    &&& c.runAsElevated == (e.is_admin == 1)
    &&& c.clientPort == client_port
    &&& c.clientIp@ == ipaddr_text(client_ip)
}

pub open spec fn unattributed(t: TcpConnectionContext) -> bool { t.claims is None && t.destination_ip is None }

// what accepting a connection from `client_addr` does (the contract of TcpConnectionContext::new, as one predicate
// so that histories can be reasoned about)
pub open spec fn accept_post(k0: Kernel, k1: Kernel, client_addr: std::net::SocketAddr, t: TcpConnectionContext) -> bool {
    let p = addr_port(client_addr);
    &&& consumed(k0, k1, p)
    &&& t.client_addr == client_addr
    &&& (t.claims is Some || t.destination_ip is Some) ==> k0.loaded && k0.audit.contains_key(p)
    &&& t.destination_ip is Some ==> t.destination_ip->0 == dest_ip_of(k0.audit[p]) && t.destination_port == dest_port_of(k0.audit[p])
    &&& t.claims is Some ==> identity_from_record(t.claims->0, k0.audit[p], addr_ip(client_addr), p)
}

// ---- history lemmas (pure) -----------------------------------------------------------------------------------
// immediate source-port reuse: two accepts for the same source port with no kernel write in between (the second
// starts in the state the first left): the second connection is unattributed, whatever the first one was.
pub proof fn lemma_port_reuse_is_unattributed(k0: Kernel, k1: Kernel, k2: Kernel, a1: std::net::SocketAddr, a2: std::net::SocketAddr,
                                              t1: TcpConnectionContext, t2: TcpConnectionContext)
    requires accept_post(k0, k1, a1, t1), accept_post(k1, k2, a2, t2), addr_port(a1) == addr_port(a2),
    ensures unattributed(t2),   // @C07.lemma.port_reuse_without_fresh_record_is_unattributed
            k2.audit == k1.audit,
{
    if k0.loaded {
        assert(!k1.audit.contains_key(addr_port(a2)));
        assert(k1.audit.remove(addr_port(a2)) =~= k1.audit);
    }
}

// a kernel write for port p (a fresh redirected connect) between two accepts: modelled as insert
pub open spec fn kernel_write(k0: Kernel, k1: Kernel, p: u16, e: AuditEntry) -> bool {
    k1.audit == k0.audit.insert(p, e) && k1.loaded == k0.loaded
}

// any number of accepts on OTHER ports and kernel writes for OTHER ports in between do not help: as long as nothing
// writes port p, it stays absent (frame of the whole-map postcondition)
pub enum Step { Accept { addr: std::net::SocketAddr, ctx: TcpConnectionContext }, Write { port: u16, entry: AuditEntry } }
pub open spec fn step_ok(k0: Kernel, k1: Kernel, s: Step) -> bool {
    match s {
        Step::Accept { addr, ctx } => accept_post(k0, k1, addr, ctx),
        Step::Write { port, entry } => kernel_write(k0, k1, port, entry),
    }
}
pub open spec fn run_ok(ks: Seq<Kernel>, ss: Seq<Step>) -> bool {
    ks.len() == ss.len() + 1 && forall|i: int| 0 <= i < ss.len() ==> step_ok(ks[i], ks[i + 1], #[trigger] ss[i])
}
pub open spec fn writes_port(s: Step, p: u16) -> bool { s matches Step::Write { port, .. } && port == p }

pub proof fn lemma_absent_stays_absent(ks: Seq<Kernel>, ss: Seq<Step>, p: u16, n: int)
    requires run_ok(ks, ss), 0 <= n <= ss.len(), !ks[0].audit.contains_key(p) || !ks[0].loaded,
             forall|i: int| 0 <= i < n ==> !writes_port(#[trigger] ss[i], p),
    ensures !ks[n].audit.contains_key(p) || !ks[n].loaded,
            ks[n].loaded == ks[0].loaded,
    decreases n,
{
    if n > 0 {
        lemma_absent_stays_absent(ks, ss, p, n - 1);
        assert(step_ok(ks[n - 1], ks[n], ss[n - 1]));
        assert(!writes_port(ss[n - 1], p));
    }
}

// the general history statement: after the accept at step i consumed port p, the next accept for p (step j) with no
// kernel write for p in between is unattributed -- for every interleaving with accepts/writes of other ports.
pub proof fn lemma_single_use(ks: Seq<Kernel>, ss: Seq<Step>, i: int, j: int)
    requires run_ok(ks, ss), 0 <= i < j < ss.len(),
             ss[i] is Accept, ss[j] is Accept, addr_port(ss[i]->addr) == addr_port(ss[j]->addr),
             forall|m: int| i < m < j ==> !writes_port(#[trigger] ss[m], addr_port(ss[i]->addr)),
    ensures unattributed(ss[j]->ctx),   // @C07.lemma.single_use_over_histories
{
    let p = addr_port(ss[i]->addr);
    assert(step_ok(ks[i], ks[i + 1], ss[i]));
    assert(!ks[i + 1].audit.contains_key(p) || !ks[i + 1].loaded);
    let ks2 = ks.subrange(i + 1, ks.len() as int);
    let ss2 = ss.subrange(i + 1, ss.len() as int);
    assert forall|m: int| 0 <= m < ss2.len() implies step_ok(ks2[m], ks2[m + 1], #[trigger] ss2[m]) by {
        assert(step_ok(ks[i + 1 + m], ks[i + 1 + m + 1], ss[i + 1 + m]));
    }
    assert forall|m: int| 0 <= m < j - i - 1 implies !writes_port(#[trigger] ss2[m], p) by {
        assert(!writes_port(ss[i + 1 + m], p));
    }
    lemma_absent_stays_absent(ks2, ss2, p, j - i - 1);
    assert(ks2[j - i - 1] == ks[j]);
    assert(step_ok(ks[j], ks[j + 1], ss[j]));
}

// two accepts on DIFFERENT ports commute on the kernel state: the order in which concurrently accepted connections
// run their lookup/remove does not matter for what either of them sees
pub proof fn lemma_accepts_on_distinct_ports_commute(m: Map<u16, AuditEntry>, p: u16, q: u16)
    requires p != q,
    ensures m.remove(p).remove(q) == m.remove(q).remove(p),
            m.remove(q).contains_key(p) == m.contains_key(p),
            m.contains_key(p) ==> m.remove(q)[p] == m[p],   // @C07.lemma.other_connections_do_not_change_this_ports_record
{
    assert(m.remove(p).remove(q) =~= m.remove(q).remove(p));
}

// "Requests on one connection are never evaluated with the identity of a different connection": the context handed
// to the per-request handler carries the same attribution as the one built at accept time for this connection
// (everything except the per-context log queue, which ConnectionLogger::clone deliberately does not copy)
pub open spec fn same_attribution(a: TcpConnectionContext, b: TcpConnectionContext) -> bool {
    &&& a.id == b.id
    &&& a.client_addr == b.client_addr
    &&& a.claims == b.claims
    &&& a.destination_ip == b.destination_ip
    &&& a.destination_port == b.destination_port
    &&& a.sender == b.sender
}
