# unit `conn` (C07): attribution is single-use.
#   proxy_connection.rs TcpConnectionContext::{new,get_audit_entry}; redirector.rs lookup_audit/remove_audit, AuditEntry decoders;
#   redirector/linux.rs BpfObject::{lookup_audit,remove_audit_map_entry}; redirector/linux/ebpf_obj.rs key/value layouts;
#   proxy.rs Claims::from_audit_entry; proxy_server.rs: the per-request hand-over of the connection context (E5c slices)
import os
import re
import sys
HERE = os.path.dirname(os.path.abspath(__file__))
COMMON = os.path.join(os.path.dirname(HERE), "common")
sys.path.insert(0, os.path.join(os.path.dirname(os.path.dirname(HERE)), "tools"))
import vxlib  # noqa: E402
from vxlib import Undecided  # noqa: E402

ASSUMPTIONS = [
    "ghost Kernel{audit: Map<source port, AuditEntry>, loaded}: the audit_map of linux-ebpf/ebpf_cgroup.c seen through its key layout {protocol=IPPROTO_TCP(6), source_port} "
    "and value layout 5 x u32 {logon_id, process_id, is_root, destination_ipv4, destination_port} (what the hook stores is C06's business); a kernel write is an "
    "insert for the connecting socket's source port; `loaded` = the redirector actor hands out a BPF object with a well-formed audit_map",
    "crate aya 0.13.1 is NOT linked into the unit: contracts/conn/aya_standin.rs transcribes the signatures of Ebpf::map/map_mut, maps::HashMap::get/remove and "
    "TryFrom<&Map>/<&mut Map> (rustc checks the extracted linux.rs text against the stand-in). Behaviour is ASSUMED at six E9 sites in BpfObject::{lookup_audit,"
    "remove_audit_map_entry}: map()/map_mut()/try_from succeed on a loaded object for the name \"audit_map\"; get(key,0) is Ok iff the key is present and returns its "
    "value; remove(key) is Ok iff the key is present (bpf_map_delete_elem fails only with ENOENT) and then removes exactly that key, nothing else changes. "
    "What is PROVED there: both functions build the key sock_addr_audit_key::from_source_port(source_port).to_array() == [6, port] and decode the value field by field",
    "RedirectorSharedState::get_bpf_object (stub): Ok(Some(_)) iff loaded; the BPF object is not cleared between the two awaits (lookup, remove) of one accept "
    "(clear_bpf_object is only called by redirector::close at shutdown); std::sync::Mutex::lock on the BpfObject mutex blocks until acquired and is not poisoned "
    "(DESIGN 2.5 item 8); Mutex::try_lock is UNCONSTRAINED (Err(WouldBlock) whenever another thread holds the lock), so a body that skips the removal under "
    "contention fails remove_audit.succeeds_on_present_record; Display of TryLockError/PoisonError does not panic",
    "await-interleaving model: the ghost map is threaded sequentially through ONE accept; other tasks (concurrently accepted connections) only remove THEIR source port "
    "(proved frame: final == old.remove(port)), and two live connections to the listener have different source ports; lemma_accepts_on_distinct_ports_commute",
    "derived Clone of TcpConnectionContext copies id, client_addr, claims, destination_ip, destination_port, sender (E9 vx_e9_tcp_ctx_clone; the log queue is "
    "deliberately NOT copied by ConnectionLogger::clone, so equality of whole contexts is not claimed); derived Clone of ProxyServer unconstrained",
    "proxy_server.rs hand-over: three verified slices (accept path / service_fn closure / per-request closure) are linked by rustc's lexical capture of `move` closures; "
    "syntactic census on every run (UNDECIDED if it changes): handle_new_http_request has exactly one caller, the context is mentioned under the two names "
    "tcp_connection_context (x2) and cloned_tcp_connection_context (x4) only, both closures are `move`. hyper/tower deliver each request of a connection to the "
    "service built for that connection (hyper::server::conn::http1::Builder::serve_connection; not verified)",
    "E9 vx_e9_build_upstream_sender (statement range of TcpConnectionContext::new): FnMut logging closure + hyper_client::build_http_sender + Client{sender}; not verified, "
    "but its REQUIRES (host text/port == destination decoded from this connection's record) is proved at the call site",
    "Process::from_pid(pid).pid == pid; get_user / ConnectionLogger::{new,write,clone} unconstrained stubs; ProxyServer::handle_new_http_request is a stub here "
    "(its C01/C05/C11 contracts, proved in unit handler, mention only its own tcp_connection_context parameter: refusal_status == 421 when claims or destination is None)",
    "u16::from_be, u32::to_be, Ipv4Addr::from_bits, SocketAddr::{ip,port}, IpAddr/Ipv4Addr to_string are only NAMED (uninterpreted); Display of Error / aya MapError does not panic; "
    "common::error::Error and BpfErrorType are declared transparent external enums (constructed by the verified code)",
]
FN_PROPS = {}

K = "Tracked(k): Tracked<&mut Kernel>"


def emit_outside(u, text, what):
    """plain Rust placed outside verus!{} (like take_ext does for repo types)"""
    saved = u.pieces
    u.pieces = u.ext_pieces
    u.emit(text, "contract")
    u.pieces = saved
    u.rule("E13", what)


def take_sig_outside(u, sf, path, modname, uses):
    """a repo fn that is only called from inside E9 stub bodies (never seen by Verus): its REAL signature with an
    unimplemented!() body, placed outside verus!{} so that rustc type-checks the stub bodies against it"""
    it = sf.item(path, "fn")
    saved = u.pieces
    u.pieces = u.ext_pieces
    u.emit("pub mod %s {\n#![allow(unused_imports, dead_code, unused_variables, unused_mut)]\n%s" % (modname, uses), "glue", "E13")
    u.pieces += vxlib.apply_edits(sf, it["span"][0], it["body"][0], [])
    u.emit("{ unimplemented!() }\n} // mod %s" % modname, "rule", "stub")
    u.pieces = saved
    u.rule("stub", "%s: real signature kept outside verus!{} with body unimplemented!() (callee of an E9 stub body only)  <- %s:%d" % (path, sf.rel, sf.line_of(it["sig"][0])))


def gc(sf, path, names, extra="Tracked(k)"):
    """E4 ghost arguments for every call of the named callees that is present in the function (a call that was deleted
    from the tree must make the postcondition fail, not the extraction)"""
    it = sf.item(path, "fn")
    out = []
    for n in names:
        hit = [c for c in it["calls"] if c["callee"].replace(" ", "") == n or c["callee"].replace(" ", "").endswith("::" + n) or c["callee"].replace(" ", "").endswith("." + n)]
        if hit:
            out.append((n, "all", extra))
    return out


def cfg_windows_param(sf, it):
    """the `#[cfg(windows)] name: T` parameter of a fn (vxlib's E2 handles items/statements/variants, not parameters)"""
    ps = [p for p in it["params"] if re.match(r"#\[cfg\(windows\)\]", sf.s(p["span"][0], p["span"][1]))]
    if len(ps) != 1 or ps[0] is not it["params"][-1]:
        raise Undecided("%s: expected exactly one trailing #[cfg(windows)] parameter" % it["path"])
    return ps[0]


def build(u):
    u.features += ["allocator_api", "sized_hierarchy"]
    pc = u.src("proxy_agent/src/proxy/proxy_connection.rs")
    rd = u.src("proxy_agent/src/redirector.rs")
    lx = u.src("proxy_agent/src/redirector/linux.rs")
    eo = u.src("proxy_agent/src/redirector/linux/ebpf_obj.rs")
    px = u.src("proxy_agent/src/proxy.rs")
    err = u.src("proxy_agent/src/common/error.rs")
    rdw = u.src("proxy_agent/src/shared_state/redirector_wrapper.rs")
    psw = u.src("proxy_agent/src/shared_state/proxy_server_wrapper.rs")
    hc = u.src("proxy_agent/src/common/hyper_client.rs")
    ps = u.src("proxy_agent/src/proxy/proxy_server.rs")
    kkw = u.src("proxy_agent/src/shared_state/key_keeper_wrapper.rs")
    asw = u.src("proxy_agent/src/shared_state/agent_status_wrapper.rs")
    prw = u.src("proxy_agent/src/shared_state/provision_wrapper.rs")
    tlw = u.src("proxy_agent/src/shared_state/telemetry_wrapper.rs")
    u.features += ["pattern", "const_destruct", "const_trait_impl"]
    for f in ("str_axioms.rs", "ext_types.rs", "std_string.rs", "http.rs"):
        u.raw(open(os.path.join(COMMON, f)).read())
    emit_outside(u, open(os.path.join(HERE, "aya_standin.rs")).read(),
                 "crate aya (not linked): API stand-in module `aya` (signatures of Ebpf::map/map_mut, maps::HashMap::get/remove, TryFrom<&Map>/<&mut Map>) placed outside verus!{}")
    u.raw_file("deps.rs")
    u.raw_file("spec.rs")

    with u.mod("common"):
        with u.mod("error"):
            u.take_ext(err, ["Error", "HyperErrorType", "WireServerErrorType", "KeyErrorType", "AclErrorType", "BpfErrorType"], "vx_ext_error", uses="use http::{uri::InvalidUri, StatusCode};", opaque=False)
            # Error and BpfErrorType are constructed by the functions under contract: declared TRANSPARENT (Verus sees the variants);
            # the other error enums stay opaque
            for n in ("Error", "BpfErrorType"):
                u.raw("#[verifier::external_type_specification]\npub struct VxEx_err_%s(crate::vx_ext_error::%s);" % (n, n))
            for n in ("HyperErrorType", "WireServerErrorType", "KeyErrorType", "AclErrorType"):
                u.raw("#[verifier::external_type_specification]\n#[verifier::external_body]\npub struct VxEx_err_%s(crate::vx_ext_error::%s);" % (n, n))
        with u.mod("result", uses="use super::error::Error;"):
            u.raw("pub type Result<T> = core::result::Result<T, Error>;")
        take_sig_outside(u, hc, "build_http_sender", "vx_ext_hyper_client", "use crate::common::error::Error;\nuse crate::common::result::Result;")
        with u.mod("hyper_client"):
            u.raw("pub use crate::vx_ext_hyper_client::build_http_sender;")
    with u.mod("shared_state"):
        with u.mod("proxy_server_wrapper"):
            u.placeholder_ext(psw, ["ProxyServerSharedState"], "vx_ph_psw")
        with u.mod("key_keeper_wrapper"):
            u.placeholder_ext(kkw, ["KeyKeeperSharedState"], "vx_ph_kkw")
        with u.mod("agent_status_wrapper"):
            u.placeholder_ext(asw, ["AgentStatusSharedState"], "vx_ph_asw")
        with u.mod("provision_wrapper"):
            u.placeholder_ext(prw, ["ProvisionSharedState"], "vx_ph_prw")
        with u.mod("telemetry_wrapper"):
            u.placeholder_ext(tlw, ["TelemetrySharedState"], "vx_ph_tlw")
        with u.mod("redirector_wrapper", uses="use crate::common::result::Result;\nuse crate::redirector;\nuse std::sync::{Arc, Mutex};"):
            u.placeholder_ext(rdw, ["RedirectorSharedState"], "vx_ph_rdw")
            with u.impl_(rdw, "RedirectorSharedState"):
                u.take_fn(rdw, "RedirectorSharedState::get_bpf_object", external_body=True, ghost=K, contract="""
        ensures *final(k) == *old(k),
                (r matches Ok(Some(_))) <==> old(k).loaded,
""")
    with u.mod("redirector", uses="use crate::common::error::BpfErrorType;\nuse crate::common::error::Error;\nuse crate::common::result::Result;\nuse crate::shared_state::redirector_wrapper::RedirectorSharedState;\nuse std::net::Ipv4Addr;\nuse std::sync::{Arc, Mutex};\npub use linux::BpfObject;"):
        u.take(rd, "AuditEntry", "struct")
        with u.impl_(rd, "AuditEntry"):
            u.take_fn(rd, "AuditEntry::destination_port_in_host_byte_order", contract="        ensures r == dest_port_of(*self),  // @C07.AuditEntry.destination_port_decoding\n")
            u.take_fn(rd, "AuditEntry::destination_ipv4_addr", contract="        ensures r == dest_ip_of(*self),  // @C07.AuditEntry.destination_ip_decoding\n")
        build_linux(u, lx, eo)
        u.take_fn(rd, "lookup_audit", ghost=K, ghost_calls=gc(rd, "lookup_audit", ["get_bpf_object", "lookup_audit"]),
                  pre_body="broadcast use group_fmt_lock_errors, axiom_to_string_string;",
                  contract="""
        ensures
            *final(k) == *old(k),
            r matches Ok(e) ==> old(k).audit.contains_key(source_port) && e == old(k).audit[source_port],  // @C07.lookup_audit.returns_the_record_of_this_port
            old(k).loaded ==> (r is Ok <==> old(k).audit.contains_key(source_port)),  // @C07.lookup_audit.ok_iff_record_present
            r is Ok ==> old(k).loaded,
""")
        u.take_fn(rd, "remove_audit", ghost=K, ghost_calls=gc(rd, "remove_audit", ["get_bpf_object", "remove_audit_map_entry"]),
                  pre_body="broadcast use group_fmt_lock_errors, axiom_to_string_string;",
                  contract="""
        ensures
            final(k).loaded == old(k).loaded,
            r is Ok ==> final(k).audit == old(k).audit.remove(source_port),  // @C07.remove_audit.removes_exactly_this_port
            r is Ok ==> old(k).loaded,
            r is Err ==> final(k).audit == old(k).audit,
            // while the BPF object is loaded and the map has the key, the record IS removed (Err only if the object is absent or the kernel call fails)
            old(k).loaded && old(k).audit.contains_key(source_port) ==> r is Ok && !final(k).audit.contains_key(source_port),  // @C07+C01.remove_audit.succeeds_on_present_record
""")


    build_proxy(u, px, pc, hc, ps)


def build_linux(u, lx, eo):
    with u.mod("linux", uses="use crate::common::{error::{BpfErrorType, Error}, result::Result};\nuse crate::redirector::AuditEntry;\nuse ebpf_obj::{sock_addr_audit_entry, sock_addr_audit_key};"):
        with u.mod("ebpf_obj"):
            u.take(eo, "IPPROTO_TCP", "const")
            u.take(eo, "sock_addr_audit_key", "struct")
            with u.impl_(eo, "sock_addr_audit_key"):
                u.take_fn(eo, "sock_addr_audit_key::from_source_port", contract="""
        ensures r.protocol == 6 && r.source_port == port as u32,  // @C07.sock_addr_audit_key_from_source_port.tcp_and_this_port
""")
                u.take_fn(eo, "sock_addr_audit_key::to_array", contract="""
        ensures r@ == seq![self.protocol, self.source_port],  // @C07.sock_addr_audit_key_to_array.layout
""")
            u.take(eo, "sock_addr_audit_entry", "struct")
            with u.impl_(eo, "sock_addr_audit_entry"):
                u.take_fn(eo, "sock_addr_audit_entry::from_array", contract="""
        ensures r.logon_id == array@[0] && r.process_id == array@[1] && r.is_root == array@[2] && r.destination_ipv4 == array@[3] && r.destination_port == array@[4],
""")
        u.take_ext(lx, ["BpfObject"], "vx_ext_bpf_object", uses="use crate::aya::Ebpf;")
        AUDIT_RO = "crate::aya::maps::HashMap<&'a crate::aya::maps::MapData, [u32; 2], [u32; 5]>"
        AUDIT_RW = "crate::aya::maps::HashMap<&'a mut crate::aya::maps::MapData, [u32; 2], [u32; 5]>"
        def one_call(fnpath, kind, callee, nargs):
            it = lx.item(fnpath, "fn")
            c = [c for c in it["calls"] if c["kind"] == kind and c["callee"].replace(" ", "").split("::")[-1] == callee and len(c["args"]) == nargs]
            if len(c) != 1:
                raise Undecided("%s: expected exactly one call of %s with %d argument(s), found %d" % (fnpath, callee, nargs, len(c)))
            return c[0]

        def txt(sp):
            return lx.s(sp[0], sp[1])
        LA, RA = "BpfObject::lookup_audit", "BpfObject::remove_audit_map_entry"
        c_map, c_try, c_get = one_call(LA, "method", "map", 1), one_call(LA, "path", "try_from", 1), one_call(LA, "method", "get", 2)
        c_mapm, c_trym, c_rem = one_call(RA, "method", "map_mut", 1), one_call(RA, "path", "try_from", 1), one_call(RA, "method", "remove", 1)
        if txt(c_map["receiver"]) != "self.0" or txt(c_mapm["receiver"]) != "self.0":
            raise Undecided("BpfObject: the audit map is no longer fetched from self.0")
        if re.sub(r"\s+", "", txt(c_get["args"][1])) != "0":
            raise Undecided("BpfObject::lookup_audit: lookup flags are no longer 0")
        if re.sub(r"\s+", "", txt(c_trym["callee_span"])) != "HashMap::<&mutMapData,[u32;2],[u32;5]>::try_from" or txt(c_try["callee_span"]) != "HashMap::try_from":
            raise Undecided("BpfObject: the audit map is no longer opened as aya HashMap<_, [u32; 2], [u32; 5]>")
        with u.impl_(lx, "BpfObject"):
            u.take_fn(lx, "BpfObject::lookup_audit", ghost=K,
                      pre_body="broadcast use axiom_fmt_aya_map_error, axiom_to_string_string;",
                      e9=[
                          (tuple(c_map["span"]), None, "this: &'a BpfObject, name: &str, Tracked(k): Tracked<&mut Kernel>", "self, %s, Tracked(k)" % txt(c_map["args"][0]),
                           "Option<&'a crate::aya::maps::Map>", '    ensures *final(k) == *old(k), old(k).loaded && name@ == "audit_map"@ ==> r is Some,',
                           dict(name="vx_e9_ebpf_map", generics="<'a>", body="this.0.map(name)", local=True)),
                          (tuple(c_try["span"]), None, "map: &'a crate::aya::maps::Map, Tracked(k): Tracked<&mut Kernel>", "%s, Tracked(k)" % txt(c_try["args"][0]),
                           "core::result::Result<%s, crate::aya::maps::MapError>" % AUDIT_RO, "    ensures *final(k) == *old(k), old(k).loaded ==> r is Ok,",
                           dict(name="vx_e9_audit_map_try_from", generics="<'a>", body="crate::aya::maps::HashMap::try_from(map)", local=True)),
                          (tuple(c_get["span"]), None, "audit_map: &%s, key: &[u32; 2], Tracked(k): Tracked<&mut Kernel>" % AUDIT_RO, "&%s, %s, Tracked(k)" % (txt(c_get["receiver"]), txt(c_get["args"][0])),
                           "core::result::Result<[u32; 5], crate::aya::maps::MapError>", """
    ensures *final(k) == *old(k),
            port_of_key(key@) matches Some(p) ==> (r is Ok <==> old(k).audit.contains_key(p)) && (r matches Ok(v) ==> entry_of_raw(v@) == old(k).audit[p]),""",
                           dict(name="vx_e9_audit_map_get", generics="<'a>", body="audit_map.get(key, 0)", local=True)),
                      ],
                      contract="""
        ensures
            *final(k) == *old(k),
            r matches Ok(e) ==> old(k).audit.contains_key(source_port) && e == old(k).audit[source_port],  // @C07.BpfObject_lookup_audit.key_is_this_source_port
            old(k).loaded ==> (r is Ok <==> old(k).audit.contains_key(source_port)),
""")
            u.take_fn(lx, "BpfObject::remove_audit_map_entry", ghost=K,
                      pre_body="broadcast use axiom_fmt_aya_map_error, axiom_to_string_string;",
                      e9=[
                          (tuple(c_mapm["span"]), None, "this: &'a mut BpfObject, name: &str, Tracked(k): Tracked<&mut Kernel>", "self, %s, Tracked(k)" % txt(c_mapm["args"][0]),
                           "Option<&'a mut crate::aya::maps::Map>", '    ensures *final(k) == *old(k), old(k).loaded && name@ == "audit_map"@ ==> r is Some,',
                           dict(name="vx_e9_ebpf_map_mut", generics="<'a>", body="this.0.map_mut(name)", local=True)),
                          (tuple(c_trym["span"]), None, "map: &'a mut crate::aya::maps::Map, Tracked(k): Tracked<&mut Kernel>", "%s, Tracked(k)" % txt(c_trym["args"][0]),
                           "core::result::Result<%s, crate::aya::maps::MapError>" % AUDIT_RW, "    ensures *final(k) == *old(k), old(k).loaded ==> r is Ok,",
                           dict(name="vx_e9_audit_map_try_from_mut", generics="<'a>", body="crate::aya::maps::HashMap::<&mut crate::aya::maps::MapData, [u32; 2], [u32; 5]>::try_from(map)", local=True)),
                          (tuple(c_rem["span"]), None, "audit_map: &mut %s, key: &[u32; 2], Tracked(k): Tracked<&mut Kernel>" % AUDIT_RW, "&mut %s, %s, Tracked(k)" % (txt(c_rem["receiver"]), txt(c_rem["args"][0])),
                           "core::result::Result<(), crate::aya::maps::MapError>", """
    ensures final(k).loaded == old(k).loaded,
            port_of_key(key@) matches Some(p) ==> (r is Ok <==> old(k).audit.contains_key(p)) && (r is Ok ==> final(k).audit == old(k).audit.remove(p))
                && (r is Err ==> final(k).audit == old(k).audit),""",
                           dict(name="vx_e9_audit_map_remove", generics="<'a>", body="audit_map.remove(key)", local=True)),
                      ],
                      contract="""
        ensures
            final(k).loaded == old(k).loaded,
            r is Ok ==> final(k).audit == old(k).audit.remove(source_port),  // @C07.BpfObject_remove_audit_map_entry.key_is_this_source_port
            r is Err ==> final(k).audit == old(k).audit,
            old(k).loaded && old(k).audit.contains_key(source_port) ==> r is Ok,
""")


def build_proxy(u, px, pc, hc, ps):
    with u.mod("proxy", uses="use crate::common::result::Result;\nuse crate::redirector::AuditEntry;\nuse crate::shared_state::proxy_server_wrapper::ProxyServerSharedState;\nuse std::{ffi::OsString, net::IpAddr, path::PathBuf};"):
        u.take_ext(px, ["Claims"], "vx_ext_claims", uses="use std::{ffi::OsString, path::PathBuf};\nuse serde_derive::{Deserialize, Serialize};", transparent=True)
        u.take(px, "Process", "struct")
        u.take(px, "User", "struct")
        u.take_fn(px, "get_user", external_body=True)
        with u.impl_(px, "Process"):
            u.take_fn(px, "Process::from_pid", external_body=True, contract="        ensures r.pid == pid,\n")
        with u.impl_(px, "Claims"):
            u.take_fn(px, "Claims::from_audit_entry",
                      pre_body="broadcast use axiom_to_string_string, axiom_to_string_ipaddr;",
                      contract="""
        ensures r matches Ok(c) ==> identity_from_record(c, *entry, client_ip, client_port),  // @C07.from_audit_entry.identity_is_the_records
                r matches Ok(c) ==> c.runAsElevated == (entry.is_admin == 1),  // @C03+C01+C05.from_audit_entry.elevated_only_for_the_value_the_hook_writes_for_root
""")
        build_conn(u, pc, hc)
        build_server_slices(u, ps)


def build_conn(u, pc, hc):
    uses = """use crate::common::error::{Error, HyperErrorType};
use crate::common::hyper_client;
use crate::common::result::Result;
use crate::proxy::Claims;
use crate::redirector::{self, AuditEntry};
use crate::shared_state::proxy_server_wrapper::ProxyServerSharedState;
use crate::shared_state::redirector_wrapper::RedirectorSharedState;
use http_body_util::Full;
use hyper::body::Bytes;
use log::Level as LoggerLevel;
use std::net::{Ipv4Addr, SocketAddr};
use std::sync::Arc;
use tokio::sync::Mutex;"""
    with u.mod("proxy_connection", uses=uses):
        u.take(pc, "RequestBody", "type")
        u.take_ext(pc, ["Client"], "vx_ext_client", uses="use hyper::client::conn::http1;\npub type RequestBody = http_body_util::Full<hyper::body::Bytes>;")
        u.take(pc, "ConnectionLogger", "struct")
        with u.impl_(pc, "ConnectionLogger"):
            u.take_fn(pc, "ConnectionLogger::new", external_body=True)
            u.take_fn(pc, "ConnectionLogger::write", external_body=True)
        with u.impl_(pc, "<ConnectionLogger as Clone>"):
            u.take_fn(pc, "<ConnectionLogger as Clone>::clone", make_pub=False, ret="", external_body=True)
        u.take(pc, "TcpConnectionContext", "struct", keep_derive=("Clone",))
        with u.impl_(pc, "TcpConnectionContext"):
            ga = pc.item("TcpConnectionContext::get_audit_entry", "fn")
            wp = cfg_windows_param(pc, ga)
            u.rule("E2", "TcpConnectionContext::get_audit_entry: parameter under cfg(windows) dropped (replaced by the E4 ghost parameter)")
            u.rule("E4", "TcpConnectionContext::get_audit_entry: ghost parameter " + K)
            u.take_fn(pc, "TcpConnectionContext::get_audit_entry",
                      sig_edits=[(wp["span"][0], wp["span"][1], K)],
                      ghost_calls=gc(pc, "TcpConnectionContext::get_audit_entry", ["redirector::lookup_audit", "redirector::remove_audit"]),
                      pre_body="broadcast use axiom_fmt_error;",
                      contract="""
        ensures
            final(k).loaded == old(k).loaded,
            r matches Ok(e) ==> old(k).audit.contains_key(addr_port(*client_addr)) && e == old(k).audit[addr_port(*client_addr)],  // @C07.get_audit_entry.entry_is_the_record_of_this_connections_port
            r is Ok ==> final(k).audit == old(k).audit.remove(addr_port(*client_addr)),  // @C07.get_audit_entry.record_removed_whole_map
            r is Err ==> final(k).audit == old(k).audit,  // @C07.get_audit_entry.nothing_removed_on_failure
            r is Ok ==> old(k).loaded,
            old(k).loaded && old(k).audit.contains_key(addr_port(*client_addr)) ==> r is Ok,  // @C07.get_audit_entry.present_record_is_found
""")
            nw = pc.item("TcpConnectionContext::new", "fn")
            wpn = cfg_windows_param(pc, nw)
            body = pc.s(nw["body"][0], nw["body"][1])
            m = list(re.finditer(r"#\[cfg\(windows\)\]\s*raw_socket_id,", body))
            if len(m) != 1:
                raise Undecided("TcpConnectionContext::new: expected one `#[cfg(windows)] raw_socket_id,` call argument")
            a0 = nw["body"][0] + len(body[:m[0].start()].encode())
            a1 = nw["body"][0] + len(body[:m[0].end()].encode())
            u.rule("E2", "TcpConnectionContext::new: parameter and call argument under cfg(windows) dropped")
            u.rule("E4", "TcpConnectionContext::new: ghost parameter " + K)

            def let_of(name, nth=0):
                c = [l for l in nw["lets"] if pc.s(l["pat"][0], l["pat"][1]).strip() == name]
                if len(c) <= nth:
                    raise Undecided("TcpConnectionContext::new: `let %s` not found" % name)
                return c[nth]
            l0 = let_of("mut cloned_logger")
            l2 = let_of("sender")
            if not (l0["span"][0] < let_of("fun")["span"][0] < l2["span"][0]) or "build_http_sender(&host_ip, host_port, fun)" not in pc.s(l2["span"][0], l2["span"][1]):
                raise Undecided("TcpConnectionContext::new: the statements that build the upstream sender changed shape")
            end = l2["span"][1] + (1 if pc.b[l2["span"][1]:l2["span"][1] + 1] == b";" else 0)
            u.take_fn(pc, "TcpConnectionContext::new",
                      sig_edits=[(wpn["span"][0], wpn["span"][1], K), (a0, a1, "")],
                      ghost_calls=gc(pc, "TcpConnectionContext::new", ["Self::get_audit_entry"]),
                      pre_body="""broadcast use axiom_fmt_error, axiom_to_string_ipv4;
let ghost k0 = *k;
proof { if !k0.audit.contains_key(addr_port(client_addr)) { assert(k0.audit.remove(addr_port(client_addr)) =~= k0.audit); } }""",
                      e9=[
                          # E9 (statement range): the closure handed to build_http_sender captures a logger mutably (FnMut closure: not
                          # supported by Verus) and the result wraps a hyper SendRequest. What matters for C07 is WHERE the upstream
                          # connection of this TCP connection goes: the stub REQUIRES the host/port arguments to be the destination
                          # decoded from this connection's audit record.
                          ((l0["span"][0], end), None,
                           "logger: &mut ConnectionLogger, host_ip: &String, host_port: u16, Ghost(e): Ghost<AuditEntry>",
                           "&mut logger, &host_ip, host_port, Ghost(audit_entry)",
                           "std::result::Result<Arc<Mutex<Client>>, String>", """
    requires host_ip@ == ip_string(dest_ip_of(e)),   // @C07.new.upstream_connection_goes_to_the_recorded_destination_ip
             host_port == dest_port_of(e),           // @C07.new.upstream_connection_goes_to_the_recorded_destination_port""",
                           dict(name="vx_e9_build_upstream_sender", local=True, is_async=True, body_suffix=" sender", replacement="let sender = $CALL;")),
                      ],
                      contract="""
        ensures
            consumed(*old(k), *final(k), addr_port(client_addr)),  // @C07.new.record_consumed_whole_map
            r.client_addr == client_addr && r.id == id,
            (r.claims is Some || r.destination_ip is Some) ==> old(k).loaded && old(k).audit.contains_key(addr_port(client_addr)),  // @C07.new.attributed_only_if_record_for_this_source_port
            r.destination_ip is Some ==> r.destination_ip->0 == dest_ip_of(old(k).audit[addr_port(client_addr)])
                && r.destination_port == dest_port_of(old(k).audit[addr_port(client_addr)]),  // @C07.new.destination_decoded_from_that_record
            r.claims is Some ==> identity_from_record(r.claims->0, old(k).audit[addr_port(client_addr)], addr_ip(client_addr), addr_port(client_addr)),  // @C07.new.identity_from_that_record
            accept_post(*old(k), *final(k), client_addr, r),  // @C07.new.accept_post_as_used_by_history_lemmas
            old(k).loaded && old(k).audit.contains_key(addr_port(client_addr)) ==> r.destination_ip is Some,  // @C07.new.present_record_gives_destination
""")


CTX_CLONE = ("cloned_tcp_connection_context.clone()", None, "c: &TcpConnectionContext", "&cloned_tcp_connection_context", "TcpConnectionContext",
             "    ensures same_attribution(r, *c),", dict(name="vx_e9_tcp_ctx_clone", local=True, body="c.clone()"))


def build_server_slices(u, ps):
    """proxy_server.rs handle_new_tcp_connection: how the per-connection context reaches the per-request handler (E5c)."""
    uses = """use crate::common::result::Result;
use crate::proxy::proxy_connection::TcpConnectionContext;
use crate::shared_state::agent_status_wrapper::AgentStatusSharedState;
use crate::shared_state::key_keeper_wrapper::KeyKeeperSharedState;
use crate::shared_state::provision_wrapper::ProvisionSharedState;
use crate::shared_state::proxy_server_wrapper::ProxyServerSharedState;
use crate::shared_state::redirector_wrapper::RedirectorSharedState;
use crate::shared_state::telemetry_wrapper::TelemetrySharedState;
use http_body_util::combinators::BoxBody;
use hyper::body::{Bytes, Incoming};
use hyper::{Request, Response};
use tokio_util::sync::CancellationToken;
use tokio::net::TcpStream;
use log::Level as LoggerLevel;
use crate::proxy::proxy_connection::ConnectionLogger;
use tower_http::body::Limited;"""
    FN = "ProxyServer::handle_new_tcp_connection"
    it = ps.item(FN, "fn")
    body = ps.s(it["body"][0], it["body"][1])
    # ---- syntactic census (UNDECIDED if it changes): the names through which the context travels
    cl = sorted(it["closures"], key=lambda c: c["span"][0])
    if len(cl) != 2 or not (cl[0]["body"][0] < cl[1]["span"][0] and cl[1]["span"][1] <= cl[0]["body"][1]):
        raise Undecided("%s: expected the service_fn closure with one nested per-request closure" % FN)
    for c in cl:
        if not ps.s(c["span"][0], c["span"][1]).startswith("move "):
            raise Undecided("%s: a closure on the request path is no longer a `move` closure" % FN)
    n_cl = len(re.findall(r"\bcloned_tcp_connection_context\b", body))
    n_tc = len(re.findall(r"\btcp_connection_context\b", body))
    if n_cl != 4 or n_tc != 2:
        raise Undecided("%s: the connection context is mentioned %d/%d times (expected 4/2): the hand-over to the handler changed shape" % (FN, n_cl, n_tc))
    calls = [c for c in it["calls"] if c["kind"] == "method" and c["callee"] == "handle_new_http_request"]
    if len(calls) != 1 or not (cl[1]["body"][0] < calls[0]["span"][0] and calls[0]["span"][1] <= cl[1]["body"][1]):
        raise Undecided("%s: expected exactly one call of handle_new_http_request, inside the per-request closure" % FN)
    root = os.path.join(u.repo.root, "proxy_agent", "src")
    total = 0
    for dp, dn, fns in os.walk(root):
        for f in fns:
            if f.endswith(".rs"):
                code = "\n".join(l for l in open(os.path.join(dp, f), encoding="utf-8").read().split("\n") if not l.strip().startswith("//"))
                total += len(re.findall(r"\bhandle_new_http_request\s*\(", code))
    if total != 2:   # the definition and the one call
        raise Undecided("census: handle_new_http_request is mentioned %d times in proxy_agent/src (expected: its definition and one call)" % total)
    u.rule("census", "handle_new_http_request has exactly one caller (the per-request closure of handle_new_tcp_connection); the context is named "
                     "tcp_connection_context x2 / cloned_tcp_connection_context x4 in that function; both closures are `move`")

    def let_in(name, lo, hi, excl=None):
        c = [l for l in it["lets"] if ps.s(l["pat"][0], l["pat"][1]).strip() == name and lo <= l["span"][0] and l["span"][1] <= hi
             and not (excl and excl[0] <= l["span"][0] and l["span"][1] <= excl[1])]
        if len(c) != 1:
            raise Undecided("%s: `let %s` found %d times in the expected scope" % (FN, name, len(c)))
        return c[0]

    def stmt_end(l):
        return l["span"][1] + (1 if ps.b[l["span"][1]:l["span"][1] + 1] == b";" else 0)

    with u.mod("proxy_server", uses=uses):
        u.take(ps, "ProxyServer", "struct", keep_derive=("Clone",))
        with u.impl_(ps, "ProxyServer"):
            # the per-request handler: contracts in unit `handler` (C01/C05/C11 speak only about ITS tcp_connection_context parameter).
            # Here: a stub whose precondition is the C07 obligation of the hand-over.
            u.take_fn(ps, "ProxyServer::handle_new_http_request", external_body=True, ghost="Ghost(conn): Ghost<TcpConnectionContext>", contract="""
        requires same_attribution(tcp_connection_context, conn),  // @C07.per_request.handler_receives_the_context_of_its_own_connection
""")
        # S3: accept path: the context is built by TcpConnectionContext::new from THIS connection's peer address, then cloned for the service
        l_ctx = let_in("tcp_connection_context", it["body"][0], cl[0]["span"][0])
        l_cl0 = let_in("cloned_tcp_connection_context", it["body"][0], cl[0]["span"][0])
        newc = [c for c in it["calls"] if c["kind"] == "path" and c["callee"].replace(" ", "") == "TcpConnectionContext::new"]
        if len(newc) != 1 or not (l_ctx["span"][0] <= newc[0]["span"][0] and newc[0]["span"][1] <= l_ctx["span"][1]) or len(newc[0]["args"]) != 5:
            raise Undecided("%s: expected `let tcp_connection_context = TcpConnectionContext::new(<4 args + 1 windows arg>).await`" % FN)
        wa = newc[0]["args"][4]
        watxt = ps.s(wa[0], wa[1])
        if not watxt.startswith("#[cfg(windows)]") or ps.b[wa[1]:wa[1] + 1] != b",":
            raise Undecided("%s: the fifth argument of TcpConnectionContext::new is not under cfg(windows)" % FN)
        if ps.s(l_ctx["span"][1], l_cl0["span"][0]).strip() not in ("", ";"):
            raise Undecided("%s: statements between the construction of the context and its clone" % FN)
        u.rule("E2", "%s: call argument under cfg(windows) dropped" % FN)
        # The slice starts at the FIRST statement of the per-connection task (the `let .. = match Self::set_stream_read_time_out(..)`),
        # so that every exit of the task before the context exists is covered: `return;` is written `return None;` (E5), the tail is
        # `Some(<clone handed to the service>)`.
        sst = [c for c in it["calls"] if c["kind"] == "path" and c["callee"].replace(" ", "") == "Self::set_stream_read_time_out"]
        if len(sst) != 1 or len(sst[0]["args"]) != 2:
            raise Undecided("%s: expected exactly one call `Self::set_stream_read_time_out(<stream>, <logger>)`" % FN)
        l_first = [l for l in it["lets"] if l["span"][0] <= sst[0]["span"][0] and sst[0]["span"][1] <= l["span"][1] and l["span"][1] <= l_ctx["span"][0]]
        if len(l_first) != 1:
            raise Undecided("%s: the call of set_stream_read_time_out is not the initialiser of one `let` before the context is built" % FN)
        a0, a1 = (ps.s(a[0], a[1]).strip() for a in sst[0]["args"])
        if a0 != "stream" or a1 != "&mut tcp_connection_logger":
            raise Undecided("%s: set_stream_read_time_out is called with other arguments than (stream, &mut tcp_connection_logger)" % FN)
        with u.impl_(ps, "ProxyServer"):
            u.take_fn(ps, "ProxyServer::set_stream_read_time_out", external_body=True)
        u.slice_fn(ps, FN, "vx_slice_accept_builds_context", l_first[0]["span"][0], stmt_end(l_cl0),
                   "stream: TcpStream, tcp_connection_logger_0: ConnectionLogger, tcp_connection_id: u128, client_addr: std::net::SocketAddr, cloned_proxy_server: &ProxyServer, " + K,
                   ret_type="Option<TcpConnectionContext>", is_async=True, tail="Some(cloned_tcp_connection_context)\n",
                   pre_body="broadcast use axiom_fmt_error, axiom_to_string_string;\nlet mut tcp_connection_logger = tcp_connection_logger_0;\n"
                            "proof { let p = addr_port(client_addr); if !k.audit.contains_key(p) { assert(k.audit.remove(p) =~= k.audit); } }   // map extensionality step (hint)\n",
                   replacements=[(watxt + ",", None, ""), ("return;", "all", "return None;")],
                   ghost_calls=[("TcpConnectionContext::new", None, "Tracked(k)"), ("remove_audit", "all", "Tracked(k)")],
                   e9=[("tcp_connection_context.clone()", None, "c: &TcpConnectionContext", "&tcp_connection_context", "TcpConnectionContext",
                        "    ensures same_attribution(r, *c),", dict(name="vx_e9_tcp_ctx_clone", local=True, body="c.clone()")),
                       (ps.s(sst[0]["span"][0], sst[0]["span"][1]), None, "stream: TcpStream, l: &mut ConnectionLogger", "stream, &mut tcp_connection_logger",
                        "Result<(TcpStream, std::net::TcpStream)>", "", dict(name="vx_e9_set_stream_read_time_out", local=True, body="ProxyServer::set_stream_read_time_out(stream, l)"))],
                   what="(per-connection task from its first statement: every exit before the context exists, then the context built for this connection's peer address and cloned for the service closure)",
                   contract="""
        ensures
            r matches Some(c) ==> accept_post(*old(k), *final(k), client_addr, c),  // @C07.accept.service_context_is_built_from_this_connections_peer_address
            r is None ==> consumed(*old(k), *final(k), addr_port(client_addr)),  // @C07.accept.every_exit_consumes_the_record
""")
        # S2: per request, inside the service_fn closure: the captured context is cloned for the tower service closure
        l_cl1 = let_in("cloned_tcp_connection_context", cl[0]["body"][0], cl[0]["body"][1], excl=cl[1]["span"])
        u.slice_fn(ps, FN, "vx_slice_service_fn_clones_context", l_cl1["span"][0], stmt_end(l_cl1),
                   "cloned_tcp_connection_context: &TcpConnectionContext", ret_type="TcpConnectionContext", tail="cloned_tcp_connection_context\n",
                   e9=[CTX_CLONE], what="(service_fn closure: per-request clone of the captured connection context)",
                   contract="""
        ensures same_attribution(r, *cloned_tcp_connection_context),  // @C07.per_request.service_fn_passes_on_the_captured_context
""")
        # S1: the per-request closure body: the handler is called with a clone of the captured context
        u.slice_fn(ps, FN, "vx_slice_per_request_call", cl[1]["body"][0] + 1, cl[1]["body"][1] - 1,
                   "cloned_proxy_server: &ProxyServer, cloned_tcp_connection_context: &TcpConnectionContext, req: Request<Limited<Incoming>>",
                   ret_type="Result<Response<BoxBody<Bytes, hyper::Error>>>", is_async=True, tail=".await\n",
                   ghost_calls=[("handle_new_http_request", None, "Ghost(*cloned_tcp_connection_context)")],
                   e9=[CTX_CLONE,
                       ("cloned_proxy_server.clone()", None, "p: &ProxyServer", "&cloned_proxy_server", "ProxyServer", "", dict(name="vx_e9_proxy_server_clone", local=True, body="p.clone()"))],
                   what="(per-request closure body; the returned future is awaited by tower/hyper: `.await` appended)")
