// ---- API STAND-IN for the dependency crate `aya` 0.13.1 (NOT part of build/extdeps: it is not linked into the
// Verus units). Plain Rust, outside verus!{}: signatures transcribed from aya-0.13.1/src/bpf.rs (Ebpf::map / map_mut),
// src/maps/mod.rs (impl_try_from_map!: TryFrom<&'a Map> / TryFrom<&'a mut Map> for HashMap<&'a [mut] MapData, K, V>,
// Error = MapError) and src/maps/hash_map/hash_map.rs (HashMap::get / remove). Bodies are never executed or verified;
// rustc type-checks the extracted repo text against THESE signatures instead of the real crate (trusted, listed in the
// unit's ASSUMPTIONS). Behaviour enters only through the assumed contracts of the E9 stubs that call them.
pub mod aya {
    #![allow(dead_code, unused_variables)]
    pub unsafe trait Pod: Copy + 'static {}
    unsafe impl Pod for u32 {}
    unsafe impl<T: Pod, const N: usize> Pod for [T; N] {}
    pub struct Ebpf(());
    impl Ebpf {
        pub fn map(&self, name: &str) -> Option<&maps::Map> { unimplemented!() }
        pub fn map_mut(&mut self, name: &str) -> Option<&mut maps::Map> { unimplemented!() }
    }
    pub mod maps {
        use super::Pod;
        use core::borrow::{Borrow, BorrowMut};
        use core::marker::PhantomData;
        pub struct MapData(());
        pub struct Map(());          // an enum over MapData in aya
        #[derive(Debug)]
        pub struct MapError(());     // an enum (thiserror) in aya
        impl core::fmt::Display for MapError {
            fn fmt(&self, f: &mut core::fmt::Formatter<'_>) -> core::fmt::Result { unimplemented!() }
        }
        pub struct HashMap<T, K, V> { inner: T, _k: PhantomData<K>, _v: PhantomData<V> }
        impl<T: Borrow<MapData>, K: Pod, V: Pod> HashMap<T, K, V> {
            pub fn get(&self, key: &K, flags: u64) -> Result<V, MapError> { unimplemented!() }
        }
        impl<T: BorrowMut<MapData>, K: Pod, V: Pod> HashMap<T, K, V> {
            pub fn remove(&mut self, key: &K) -> Result<(), MapError> { unimplemented!() }
        }
        impl<'a, K: Pod, V: Pod> TryFrom<&'a Map> for HashMap<&'a MapData, K, V> {
            type Error = MapError;
            fn try_from(map: &'a Map) -> Result<Self, Self::Error> { unimplemented!() }
        }
        impl<'a, K: Pod, V: Pod> TryFrom<&'a mut Map> for HashMap<&'a mut MapData, K, V> {
            type Error = MapError;
            fn try_from(map: &'a mut Map) -> Result<Self, Self::Error> { unimplemented!() }
        }
    }
}
