# unit `listing` (C19): the REAL body of RollingLogger::get_log_files (the listing archive_file prunes from) under contract
import os
import re
HERE = os.path.dirname(os.path.abspath(__file__))
COMMON = os.path.join(os.path.dirname(HERE), "common")

ASSUMPTIONS = [
    "directory model (E4 ghost `DirModel`, passed as Tracked<&DirModel>): `entries` IS the finite sequence of items the ReadDir iteration "
    "of `fs::read_dir(dir)` yields during this call (E11 stub of fs::read_dir: Ok means the iterator's remaining items are exactly "
    "m.entries, requires dir == m.dir); each entry carries the path DirEntry::path() returns, its bare name as text (None = the OS name "
    "is not valid Unicode) and what fs::metadata(path)?.is_file() answers for it",
    "ReadDir iterator (E11 newtype VxReadDir, `next`): returns None exactly when nothing remains, otherwise consumes the first remaining "
    "entry; the item may be Err (then nothing is said about it); an Ok item is a DirEntry whose path()/file_name() are the model entry's "
    "path / name; the directory is finite (the loop terminates)",
    "DirEntry::path returns the entry's path; DirEntry::file_name returns an OsString whose text (None if not valid Unicode) is the "
    "entry's name; OsString::into_string is Ok(text) if the OsString is valid Unicode and Err otherwise (std documentation)",
    "fs::metadata (E9 stub, called with the path of the current model entry - a labelled precondition checks that): when Ok, "
    "Metadata::is_file of the result is the entry's is_file; it may return Err",
    "PathBuf::deref yields the same path; Path::ends_with(child) is named by the uninterpreted path_ends_with(path, child) (nothing "
    "assumed about its value)",
    "Vec<PathBuf>::sort (slice::sort): the result is a permutation of the input (same multiset) and is sorted by path_le (Ord for "
    "PathBuf; same uninterpreted name and definition text as contracts/disk/spec.rs)",
    "str::starts_with(a, p) is named centrally by the uninterpreted vxstd_pat_rel(1, a, p) (tools/vxlib.py AUTO_STD_SPECS), nothing "
    "assumed about its value: the contract's `named_after(n, &self.log_file_name)` is that same term",
    "`?` on io::Result converts the error with Error's derived From<std::io::Error> (thiserror; the error value is not looked into)",
]

MODEL = "Tracked(m): Tracked<&DirModel>"

SORT_CONTRACT = """
        ensures final(v)@.to_multiset() == old(v)@.to_multiset(),
                sorted_by_path(final(v)@),
"""


def build(u):
    from vxlib import Undecided
    u.features += ["pattern"]
    err = u.src("proxy_agent_shared/src/error.rs")
    rl = u.src("proxy_agent_shared/src/logger/rolling_logger.rs")
    u.raw(open(os.path.join(COMMON, "ext_types.rs")).read())
    u.raw("use std::path::{Path, PathBuf};")
    u.raw_file("deps.rs")
    u.raw_file("spec.rs")

    with u.mod("error"):
        u.take_ext(err, ["Error", "ParseVersionErrorType", "CommandErrorType"], "vx_ext_error", uses="")
    with u.mod("result", uses="use super::error::Error;"):
        u.raw("pub type Result<T> = core::result::Result<T, Error>;", names=("Result",))

    # ---- anchors and local names, all computed from the syn index of the function (robust against renamed locals) ----
    it = rl.item("RollingLogger::get_log_files", "fn")

    def calls(callee, kind):
        return [c for c in it["calls"] if c["kind"] == kind and c["callee"].replace(" ", "") == callee]

    if len(it["loops"]) != 1 or it["loops"][0]["kind"] != "for":
        raise Undecided("get_log_files: expected exactly one `for` loop")
    L = it["loops"][0]
    rds = [c for c in calls("fs::read_dir", "path") + calls("std::fs::read_dir", "path") if L["expr"][0] <= c["span"][0] and c["span"][1] <= L["expr"][1]]
    if len(rds) != 1 or len(rds[0]["args"]) != 1:
        raise Undecided("get_log_files: the loop does not iterate over one fs::read_dir(..) call")
    rd = rds[0]
    mds = calls("fs::metadata", "path") + calls("std::fs::metadata", "path")
    if len(mds) != 1 or len(mds[0]["args"]) != 1:
        raise Undecided("get_log_files: expected exactly one fs::metadata(..) call")
    md = mds[0]
    # the vector that is filled and returned: the `let` initialised with Vec::new()
    vecs = [l for l in it["lets"] if rl.s(*l["init"]).replace(" ", "") == "Vec::new()"]
    if len(vecs) != 1:
        raise Undecided("get_log_files: expected exactly one `let .. = Vec::new()`")
    mv = re.match(r"\s*(?:mut\s+)?([A-Za-z_]\w*)", rl.s(*vecs[0]["pat"]))
    if not mv:
        raise Undecided("get_log_files: cannot read the name of the result vector")
    V = mv.group(1)
    body_blocks = [b for b in it["blocks"] if tuple(b["span"]) == tuple(L["body"])]
    fn_blocks = [b for b in it["blocks"] if tuple(b["span"]) == tuple(it["body"])]
    if len(body_blocks) != 1 or not body_blocks[0]["stmts"] or len(fn_blocks) != 1 or not fn_blocks[0]["stmts"]:
        raise Undecided("get_log_files: block structure not found in the index")
    first_in_loop = rl.s(*body_blocks[0]["stmts"][0])
    fstm = [tuple(x) for x in fn_blocks[0]["stmts"]]
    li = [i for i, x in enumerate(fstm) if x[0] <= L["span"][0] and L["span"][1] <= x[1]]
    if len(li) != 1 or li[0] + 1 >= len(fstm):
        raise Undecided("get_log_files: the loop is not a statement of the function block followed by another statement")
    after_loop = rl.s(*fstm[li[0] + 1])     # the statement that follows the loop (the sort)
    last_of_fn = rl.s(*fstm[-1])            # the tail expression
    loop_header = rl.s(L["for_token"][0], L["expr"][1])
    sorts = [c for c in calls("sort", "method") if rl.s(*c["receiver"]).strip() == V]

    K = "(m.entries.len() - rd_remaining(&vx_it).len())"
    NAMES = "&self.log_file_name, &self.log_file_extension"
    e9 = [
        ((rd["span"][0], rd["span"][1]), None, "dir: &std::path::PathBuf, " + MODEL, rl.s(*rd["args"][0]) + ", Tracked(m)",
         "std::io::Result<VxReadDir>", """
        requires *dir == m.dir,  // @C19.get_log_files.reads_the_log_directory
        ensures r is Ok ==> rd_remaining(&r->Ok_0) == m.entries,
""", dict(name="vx_e11_read_dir", body="std::fs::read_dir(dir)", wrap="vx_wrap_read_dir")),
        ((md["span"][0], md["span"][1]), None, "path: &std::path::PathBuf, Ghost(ent): Ghost<DirEnt>", rl.s(*md["args"][0]) + ", Ghost(vx_cur)",
         "std::io::Result<std::fs::Metadata>", """
        requires *path == ent.path,  // @C19.get_log_files.metadata_of_the_entry_itself
        ensures r is Ok ==> meta_is_file(r->Ok_0) == ent.is_file,
""", dict(name="vx_e9_metadata", body="std::fs::metadata(path)")),
    ]
    for c in sorts:
        e9.append(((c["span"][0], c["span"][1]), None, "v: &mut Vec<std::path::PathBuf>", "&mut " + V, "", SORT_CONTRACT,
                   dict(name="vx_e9_sort_paths", body="v.sort()")))

    H_AFTER_LOOP = "let ghost vx_lf1 = %(V)s@;\nproof { assert(m.entries.take(m.entries.len() as int) =~= m.entries); }" % dict(V=V)
    H_BEFORE_TAIL = "proof { lemma_permutation_keeps_clauses(vx_lf1, %(V)s@, m.entries, %(N)s); }" % dict(V=V, N=NAMES)
    if li[0] + 1 == len(fstm) - 1:
        TAIL_HINTS = [(last_of_fn, -1, "before", H_AFTER_LOOP + "\n" + H_BEFORE_TAIL)]
    else:
        TAIL_HINTS = [(after_loop, 0, "before", H_AFTER_LOOP), (last_of_fn, -1, "before", H_BEFORE_TAIL)]

    with u.mod("logger"):
        with u.mod("rolling_logger", auto_uses=rl):
            u.take(rl, "RollingLogger", "struct")
            with u.impl_(rl, "RollingLogger"):
                u.take_fn(rl, "RollingLogger::get_log_files", ghost=MODEL,
                          desugar_for={0: "vx_it"},
                          e9=e9,
                          loops={0: """
                invariant
                    rd_remaining(&vx_it).len() <= m.entries.len(),
                    rd_remaining(&vx_it) == m.entries.subrange(%(K)s, m.entries.len() as int),
                    every_file_of_this_log_upto(%(V)s@, m.entries, %(K)s, &self.log_file_name),  // @C19.get_log_files.lists_every_file_of_this_log
                    only_entries_named_after_this_log_upto(%(V)s@, m.entries, %(K)s, %(N)s),  // @C19.get_log_files.lists_only_entries_named_after_this_log
                    %(V)s@ == sel_paths(m.entries.take(%(K)s), %(N)s),  // @C19.get_log_files.each_once
                ensures
                    rd_remaining(&vx_it).len() == 0,
                decreases rd_remaining(&vx_it).len(),
""" % dict(K=K, V=V, N=NAMES)},
                          loop_ends={0: "proof { lemma_push_keeps(vx_lf0, vx_cur.path); }"},
                          hints=[
                              (loop_header, None, "before", "proof { assert(m.entries.subrange(0, m.entries.len() as int) =~= m.entries); assert(m.entries.take(0) =~= Seq::<DirEnt>::empty()); }"),
                              (first_in_loop, None, "before", """
                let ghost vx_k = %(K)s - 1;
                let ghost vx_cur = m.entries[vx_k];
                let ghost vx_lf0 = %(V)s@;
                proof {
                    assert(rd_remaining(&vx_it) =~= m.entries.subrange(vx_k + 1, m.entries.len() as int));
                    lemma_sel_step(m.entries, vx_k, %(N)s);
                }""" % dict(K=K, V=V, N=NAMES)),
                          ] + TAIL_HINTS,
                          contract="""
        requires m.dir == self.log_dir,
        ensures r is Ok ==> lists_every_file_of_this_log(r->Ok_0@, m.entries, &self.log_file_name),  // @C19.get_log_files.lists_every_file_of_this_log
                r is Ok ==> lists_only_entries_named_after_this_log(r->Ok_0@, m.entries, &self.log_file_name, &self.log_file_extension),  // @C19.get_log_files.lists_only_entries_named_after_this_log
                r is Ok ==> each_once(r->Ok_0@, m.entries, &self.log_file_name, &self.log_file_extension),  // @C19.get_log_files.each_once
                r is Ok ==> sorted_by_path(r->Ok_0@),  // @C19.get_log_files.sorted
""")
