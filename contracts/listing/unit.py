# unit `listing` (C19): the REAL bodies of the three directory-listing functions under contract: RollingLogger::get_log_files (the
# listing archive_file prunes from), misc_helpers::get_files (the event directory listing) and misc_helpers::search_files (the
# authorization-rule dumps listing)
import os
import re
HERE = os.path.dirname(os.path.abspath(__file__))
COMMON = os.path.join(os.path.dirname(HERE), "common")

ASSUMPTIONS = [
    "directory model (E4 ghost `DirModel`, passed as Tracked<&DirModel>): `entries` IS the finite sequence of items the ReadDir iteration "
    "of `fs::read_dir(dir)` yields during this call (E11 stub of fs::read_dir: Ok means the iterator's remaining items are exactly "
    "m.entries, requires dir == m.dir); each entry carries the path DirEntry::path() returns, its bare name as text (None = the OS name "
    "is not valid Unicode) and what fs::metadata(path)?.is_file() answers for it",
    "ReadDir iterator (E11 newtype VxReadDir, `next`): returns None exactly when nothing remains, otherwise consumes the first remaining "
    "entry; the item may be Err (then nothing is said about it); an Ok item is a DirEntry whose path()/file_name() are the model entry's "
    "path / name; the directory is finite (the loop terminates)",
    "DirEntry::path returns the entry's path; DirEntry::file_name returns an OsString whose text (None if not valid Unicode) is the "
    "entry's name; OsString::into_string is Ok(text) if the OsString is valid Unicode and Err otherwise (std documentation)",
    "fs::metadata (E9 stub, called with the path of the current model entry - a labelled precondition checks that): when Ok, "
    "Metadata::is_file of the result is the entry's is_file; it may return Err",
    "PathBuf::deref yields the same path; Path::ends_with(child) is named by the uninterpreted path_ends_with(path, child) (nothing "
    "assumed about its value)",
    "Vec<PathBuf>::sort (slice::sort): the result is a permutation of the input (same multiset) and is sorted by path_le (Ord for "
    "PathBuf; same uninterpreted name and definition text as contracts/disk/spec.rs)",
    "str::starts_with(a, p) is named centrally by the uninterpreted vxstd_pat_rel(1, a, p) (tools/vxlib.py AUTO_STD_SPECS), nothing "
    "assumed about its value: the contract's `named_after(n, &self.log_file_name)` is that same term",
    "`?` on io::Result converts the error with Error's derived From<std::io::Error> (thiserror; the error value is not looked into)",
    # ---- misc_helpers::get_files / search_files ----
    "get_files / search_files: the same directory model and the same ReadDir / DirEntry::path / Metadata::is_file / Vec::sort contracts as "
    "above; fs::read_dir is called with a &Path here (E11 stubs vx_e11_read_dir_get_files / _search_files: requires pbuf_of(dir) == m.dir "
    "- a labelled precondition checks that the function lists the directory it was given -, Ok means the remaining items are exactly "
    "m.entries); fs::metadata (E9 stubs vx_e9_metadata_get_files / _search_files, same contract as vx_e9_metadata with the function's "
    "own label on the precondition)",
    "misc_helpers::get_file_name is REAL code here (not a stub), proved to return file_name_text(path) = the text of the path's last "
    "component when there is one and it is valid Unicode, else the literal \"InvalidPath\"; assumed for it: Path::file_name returns "
    "Some exactly when the path has a final component (uninterpreted path_file_name(path), nothing assumed about its value; in "
    "particular not that it is the DirEntry's name), OsStr::to_str is Some(text) exactly when the OsStr is valid Unicode (std "
    "documentation); Option::unwrap_or / str::to_string: vstd's specifications",
    "regex::bytes::Regex::new(pattern): may fail (Err, converted by `?` with Error's derived From<regex::Error>; the error value is not "
    "looked into); when Ok the compiled regex is the one of that pattern text (uninterpreted regex_pattern(re) == pattern@)",
    "regex::bytes::Regex::is_match(re, haystack) is named by the uninterpreted regex_matches(regex_pattern(re), haystack@) (nothing "
    "assumed about its value, only that it is a function of the pattern text and the haystack bytes)",
    "String::as_bytes returns the UTF-8 encoding of the text (vstd::utf8::encode_utf8(s@); same assumption as units telemetry and sign)",
    "`&PathBuf` passed where `&Path` is expected goes through PathBuf::deref (contract above: pbuf_of(r) == *p)",
]

MODEL = "Tracked(m): Tracked<&DirModel>"

SORT_CONTRACT = """
        ensures final(v)@.to_multiset() == old(v)@.to_multiset(),
                sorted_by_path(final(v)@),
"""


def listing_anchors(sf, path):
    """anchors and local names of a `for entry in fs::read_dir(..)? { .. metadata .. push .. } sort; Ok(v)` function, all computed from
    the syn index of the function (robust against renamed locals)"""
    from vxlib import Undecided
    it = sf.item(path, "fn")
    nm = it["name"]

    def calls(callee, kind):
        return [c for c in it["calls"] if c["kind"] == kind and c["callee"].replace(" ", "") == callee]

    if len(it["loops"]) != 1 or it["loops"][0]["kind"] != "for":
        raise Undecided("%s: expected exactly one `for` loop" % nm)
    L = it["loops"][0]
    rds = [c for c in calls("fs::read_dir", "path") + calls("std::fs::read_dir", "path") if L["expr"][0] <= c["span"][0] and c["span"][1] <= L["expr"][1]]
    if len(rds) != 1 or len(rds[0]["args"]) != 1:
        raise Undecided("%s: the loop does not iterate over one fs::read_dir(..) call" % nm)
    rd = rds[0]
    mds = calls("fs::metadata", "path") + calls("std::fs::metadata", "path")
    if len(mds) != 1 or len(mds[0]["args"]) != 1:
        raise Undecided("%s: expected exactly one fs::metadata(..) call" % nm)
    md = mds[0]
    # the vector that is filled and returned: the `let` initialised with Vec::new()
    vecs = [l for l in it["lets"] if sf.s(*l["init"]).replace(" ", "") == "Vec::new()"]
    if len(vecs) != 1:
        raise Undecided("%s: expected exactly one `let .. = Vec::new()`" % nm)
    mv = re.match(r"\s*(?:mut\s+)?([A-Za-z_]\w*)", sf.s(*vecs[0]["pat"]))
    if not mv:
        raise Undecided("%s: cannot read the name of the result vector" % nm)
    V = mv.group(1)
    body_blocks = [b for b in it["blocks"] if tuple(b["span"]) == tuple(L["body"])]
    fn_blocks = [b for b in it["blocks"] if tuple(b["span"]) == tuple(it["body"])]
    if len(body_blocks) != 1 or not body_blocks[0]["stmts"] or len(fn_blocks) != 1 or not fn_blocks[0]["stmts"]:
        raise Undecided("%s: block structure not found in the index" % nm)
    first_in_loop = sf.s(*body_blocks[0]["stmts"][0])
    fstm = [tuple(x) for x in fn_blocks[0]["stmts"]]
    li = [i for i, x in enumerate(fstm) if x[0] <= L["span"][0] and L["span"][1] <= x[1]]
    if len(li) != 1 or li[0] + 1 >= len(fstm):
        raise Undecided("%s: the loop is not a statement of the function block followed by another statement" % nm)
    after_loop = sf.s(*fstm[li[0] + 1])     # the statement that follows the loop (the sort)
    last_of_fn = sf.s(*fstm[-1])            # the tail expression
    loop_header = sf.s(L["for_token"][0], L["expr"][1])
    sorts = [c for c in calls("sort", "method") if sf.s(*c["receiver"]).strip() == V]
    return dict(it=it, L=L, rd=rd, md=md, V=V, first_in_loop=first_in_loop, after_loop=after_loop, last_of_fn=last_of_fn,
                loop_header=loop_header, sorts=sorts, tail_is_next=(li[0] + 1 == len(fstm) - 1))


def tail_hints(A, after_loop_text, before_tail_text):
    """ghost text right after the loop and right before the tail expression"""
    if A["tail_is_next"]:
        return [(A["last_of_fn"], -1, "before", after_loop_text + "\n" + before_tail_text)]
    return [(A["after_loop"], 0, "before", after_loop_text), (A["last_of_fn"], -1, "before", before_tail_text)]



def build(u):
    from vxlib import Undecided
    u.features += ["pattern"]
    err = u.src("proxy_agent_shared/src/error.rs")
    rl = u.src("proxy_agent_shared/src/logger/rolling_logger.rs")
    u.raw(open(os.path.join(COMMON, "ext_types.rs")).read())
    u.raw("use std::path::{Path, PathBuf};")
    u.raw_file("deps.rs")
    u.raw_file("spec.rs")

    with u.mod("error"):
        u.take_ext(err, ["Error", "ParseVersionErrorType", "CommandErrorType"], "vx_ext_error", uses="")
    with u.mod("result", uses="use super::error::Error;"):
        u.raw("pub type Result<T> = core::result::Result<T, Error>;", names=("Result",))

    A = listing_anchors(rl, "RollingLogger::get_log_files")
    rd, md, V, sorts = A["rd"], A["md"], A["V"], A["sorts"]
    loop_header, first_in_loop = A["loop_header"], A["first_in_loop"]

    K = "(m.entries.len() - rd_remaining(&vx_it).len())"
    NAMES = "&self.log_file_name, &self.log_file_extension"
    e9 = [
        ((rd["span"][0], rd["span"][1]), None, "dir: &std::path::PathBuf, " + MODEL, rl.s(*rd["args"][0]) + ", Tracked(m)",
         "std::io::Result<VxReadDir>", """
        requires *dir == m.dir,  // @C19.get_log_files.reads_the_log_directory
        ensures r is Ok ==> rd_remaining(&r->Ok_0) == m.entries,
""", dict(name="vx_e11_read_dir", body="std::fs::read_dir(dir)", wrap="vx_wrap_read_dir")),
        ((md["span"][0], md["span"][1]), None, "path: &std::path::PathBuf, Ghost(ent): Ghost<DirEnt>", rl.s(*md["args"][0]) + ", Ghost(vx_cur)",
         "std::io::Result<std::fs::Metadata>", """
        requires *path == ent.path,  // @C19.get_log_files.metadata_of_the_entry_itself
        ensures r is Ok ==> meta_is_file(r->Ok_0) == ent.is_file,
""", dict(name="vx_e9_metadata", body="std::fs::metadata(path)")),
    ]
    for c in sorts:
        e9.append(((c["span"][0], c["span"][1]), None, "v: &mut Vec<std::path::PathBuf>", "&mut " + V, "", SORT_CONTRACT,
                   dict(name="vx_e9_sort_paths", body="v.sort()")))

    H_AFTER_LOOP = "let ghost vx_lf1 = %(V)s@;\nproof { assert(m.entries.take(m.entries.len() as int) =~= m.entries); }" % dict(V=V)
    H_BEFORE_TAIL = "proof { lemma_permutation_keeps_clauses(vx_lf1, %(V)s@, m.entries, %(N)s); }" % dict(V=V, N=NAMES)
    TAIL_HINTS = tail_hints(A, H_AFTER_LOOP, H_BEFORE_TAIL)

    with u.mod("logger"):
        with u.mod("rolling_logger", auto_uses=rl):
            u.take(rl, "RollingLogger", "struct")
            with u.impl_(rl, "RollingLogger"):
                u.take_fn(rl, "RollingLogger::get_log_files", ghost=MODEL,
                          desugar_for={0: "vx_it"},
                          e9=e9,
                          loops={0: """
                invariant
                    rd_remaining(&vx_it).len() <= m.entries.len(),
                    rd_remaining(&vx_it) == m.entries.subrange(%(K)s, m.entries.len() as int),
                    every_file_of_this_log_upto(%(V)s@, m.entries, %(K)s, &self.log_file_name),  // @C19.get_log_files.lists_every_file_of_this_log
                    only_entries_named_after_this_log_upto(%(V)s@, m.entries, %(K)s, %(N)s),  // @C19.get_log_files.lists_only_entries_named_after_this_log
                    %(V)s@ == sel_paths(m.entries.take(%(K)s), %(N)s),  // @C19.get_log_files.each_once
                ensures
                    rd_remaining(&vx_it).len() == 0,
                decreases rd_remaining(&vx_it).len(),
""" % dict(K=K, V=V, N=NAMES)},
                          loop_ends={0: "proof { lemma_push_keeps(vx_lf0, vx_cur.path); }"},
                          hints=[
                              (loop_header, None, "before", "proof { assert(m.entries.subrange(0, m.entries.len() as int) =~= m.entries); assert(m.entries.take(0) =~= Seq::<DirEnt>::empty()); }"),
                              (first_in_loop, None, "before", """
                let ghost vx_k = %(K)s - 1;
                let ghost vx_cur = m.entries[vx_k];
                let ghost vx_lf0 = %(V)s@;
                proof {
                    assert(rd_remaining(&vx_it) =~= m.entries.subrange(vx_k + 1, m.entries.len() as int));
                    lemma_sel_step(m.entries, vx_k, %(N)s);
                }""" % dict(K=K, V=V, N=NAMES)),
                          ] + TAIL_HINTS,
                          contract="""
        requires m.dir == self.log_dir,
        ensures r is Ok ==> lists_every_file_of_this_log(r->Ok_0@, m.entries, &self.log_file_name),  // @C19.get_log_files.lists_every_file_of_this_log
                r is Ok ==> lists_only_entries_named_after_this_log(r->Ok_0@, m.entries, &self.log_file_name, &self.log_file_extension),  // @C19.get_log_files.lists_only_entries_named_after_this_log
                r is Ok ==> each_once(r->Ok_0@, m.entries, &self.log_file_name, &self.log_file_extension),  // @C19.get_log_files.each_once
                r is Ok ==> sorted_by_path(r->Ok_0@),  // @C19.get_log_files.sorted
""")

    # ==== misc_helpers::get_files / misc_helpers::search_files: same loop shape, the selection is the parameter ====
    mh = u.src("proxy_agent_shared/src/misc_helpers.rs")

    def listing_fn(path, sel, every_label, only_label, extra_requires="", extra_invariants=""):
        """take `path` (fn(dir: &Path, ..) -> Result<Vec<PathBuf>>) under the contract "when Ok: complete / sound / each once / sorted"
        for the selection `sel` (text of a `Selection` value over the function's parameters)"""
        B = listing_anchors(mh, path)
        fn = B["it"]["name"]
        W = B["V"]
        brd, bmd = B["rd"], B["md"]
        if not B["it"]["params"]:
            raise Undecided("%s: no parameter" % fn)
        DIR = B["it"]["params"][0]["name"]
        D = dict(K=K, V=W, S=sel, F=fn, EL=every_label, OL=only_label, XI=extra_invariants)
        fe9 = [
            ((brd["span"][0], brd["span"][1]), None, "dir: &std::path::Path, " + MODEL, mh.s(*brd["args"][0]) + ", Tracked(m)",
             "std::io::Result<VxReadDir>", """
        requires pbuf_of(dir) == m.dir,  // @C19.%(F)s.reads_the_given_directory
        ensures r is Ok ==> rd_remaining(&r->Ok_0) == m.entries,
""" % D, dict(name="vx_e11_read_dir_%s" % fn, body="std::fs::read_dir(dir)", wrap="vx_wrap_read_dir")),
            ((bmd["span"][0], bmd["span"][1]), None, "path: &std::path::PathBuf, Ghost(ent): Ghost<DirEnt>", mh.s(*bmd["args"][0]) + ", Ghost(vx_cur)",
             "std::io::Result<std::fs::Metadata>", """
        requires *path == ent.path,  // @C19.%(F)s.metadata_of_the_entry_itself
        ensures r is Ok ==> meta_is_file(r->Ok_0) == ent.is_file,
""" % D, dict(name="vx_e9_metadata_%s" % fn, body="std::fs::metadata(path)")),
        ]
        for c in B["sorts"]:
            fe9.append(((c["span"][0], c["span"][1]), None, "v: &mut Vec<std::path::PathBuf>", "&mut " + W, "", SORT_CONTRACT,
                        dict(name="vx_e9_sort_paths", body="v.sort()")))
        after_loop = "let ghost vx_lf1 = %(V)s@;\nproof { assert(m.entries.take(m.entries.len() as int) =~= m.entries); }" % D
        before_tail = "proof { lemma_permutation_keeps_lists(vx_lf1, %(V)s@, m.entries, %(S)s); }" % D
        u.take_fn(mh, path, ghost=MODEL,
                  desugar_for={0: "vx_it"},
                  e9=fe9,
                  loops={0: """
                invariant
                    rd_remaining(&vx_it).len() <= m.entries.len(),
                    rd_remaining(&vx_it) == m.entries.subrange(%(K)s, m.entries.len() as int),%(XI)s
                    lists_every_upto(%(V)s@, m.entries, %(K)s, %(S)s),  // @C19.%(F)s.%(EL)s
                    lists_only_upto(%(V)s@, m.entries, %(K)s, %(S)s),  // @C19.%(F)s.%(OL)s
                    %(V)s@ == paths_of(m.entries.take(%(K)s), %(S)s),  // @C19.%(F)s.each_once
                ensures
                    rd_remaining(&vx_it).len() == 0,
                decreases rd_remaining(&vx_it).len(),
""" % D},
                  loop_ends={0: "proof { lemma_push_keeps(vx_lf0, vx_cur.path); }"},
                  hints=[
                      (B["loop_header"], None, "before", "proof { assert(m.entries.subrange(0, m.entries.len() as int) =~= m.entries); assert(m.entries.take(0) =~= Seq::<DirEnt>::empty()); }"),
                      (B["first_in_loop"], None, "before", """
                let ghost vx_k = %(K)s - 1;
                let ghost vx_cur = m.entries[vx_k];
                let ghost vx_lf0 = %(V)s@;
                proof {
                    assert(rd_remaining(&vx_it) =~= m.entries.subrange(vx_k + 1, m.entries.len() as int));
                    lemma_paths_of_step(m.entries, vx_k, %(S)s);
                }""" % D),
                  ] + tail_hints(B, after_loop, before_tail),
                  contract="""
        requires pbuf_of(%(DIR)s) == m.dir,%(XR)s
        ensures r is Ok ==> lists_every(r->Ok_0@, m.entries, %(S)s),  // @C19.%(F)s.%(EL)s
                r is Ok ==> lists_only(r->Ok_0@, m.entries, %(S)s),  // @C19.%(F)s.%(OL)s
                r is Ok ==> each_once_of(r->Ok_0@, m.entries, %(S)s),  // @C19.%(F)s.each_once
                r is Ok ==> sorted_by_path(r->Ok_0@),  // @C19.%(F)s.sorted
""" % dict(D, DIR=DIR, XR=extra_requires))
        return B

    with u.mod("misc_helpers", auto_uses=mh):
        # real body: the text it returns for a path is file_name_text(path) (spec.rs, derived from this body)
        gfn = mh.item("get_file_name", "fn")
        if len(gfn["params"]) != 1:
            raise Undecided("get_file_name: expected one parameter")
        u.take_fn(mh, "get_file_name", contract="""
        ensures r@ == file_name_text(pbuf_of(%s)),  // @C19.get_file_name.text_of_the_last_component
""" % gfn["params"][0]["name"])
        listing_fn("get_files", "Selection::RegularFiles", "lists_every_regular_file", "lists_only_regular_files")
        sfit = mh.item("search_files", "fn")
        if len(sfit["params"]) != 2:
            raise Undecided("search_files: expected the parameters (dir, pattern)")
        PAT = sfit["params"][1]["name"]
        # the local holding the compiled regex (the loop is verified in isolation: what `Regex::new` said about it is carried in)
        rx = [l for l in sfit["lets"] if l["init"] is not None and re.search(r"\bRegex\s*::\s*new\s*\(", mh.s(*l["init"]))]
        rxn = [re.match(r"\s*(?:mut\s+)?([A-Za-z_]\w*)", mh.s(*l["pat"])) for l in rx]
        XI = "".join("\n                    regex_pattern(%s) == %s@," % (m_.group(1), PAT) for m_ in rxn if m_)
        listing_fn("search_files", "Selection::MatchingRegularFiles(%s@)" % PAT,
                   "lists_every_matching_regular_file", "lists_only_matching_regular_files", extra_invariants=XI)
