// ---- C19 / listing: the directory as `fs::read_dir` yields it (ghost model) ---------------------------------------
/// one directory entry: the path `DirEntry::path()` returns, the bare name as text (`None`: the OS name is not valid
/// UTF-8, `OsString::into_string()` is Err), and what `fs::metadata(path)?.is_file()` answers for it
pub ghost struct DirEnt {
    pub path: PathBuf,
    pub name: Option<Seq<char>>,
    pub is_file: bool,
}

/// the content of directory `dir` at the time of the listing: the finite sequence of entries the ReadDir iteration yields
pub tracked struct DirModel {
    pub ghost dir: PathBuf,
    pub ghost entries: Seq<DirEnt>,
}

/// the order `Vec<PathBuf>::sort` uses (Ord for PathBuf: component-wise, bytes of the names). Uninterpreted:
/// the proofs only use that the listing functions return their result sorted by it. Archive / dump names embed
/// the creation time (fixed-width date, then nanoseconds), so `path_le` on them is "not younger than" (assumed).
pub uninterp spec fn path_le(a: PathBuf, b: PathBuf) -> bool;

// ---- written from the statement --------------------------------------------------------------------------------
/// "the files of a rolling log are the directory entries whose name starts with the configured log file name";
/// `vxstd_pat_rel(1, a, p)` is the central name of `str::starts_with(a, p)` (tools/vxlib.py AUTO_STD_SPECS)
pub open spec fn named_after(n: Seq<char>, log_file_name: &String) -> bool {
    vxstd_pat_rel::<&String>(1, n, log_file_name)
}

/// (complete) every regular file whose UTF-8 name starts with the configured name is listed
pub open spec fn lists_every_file_of_this_log(v: Seq<PathBuf>, es: Seq<DirEnt>, log_file_name: &String) -> bool {
    every_file_of_this_log_upto(v, es, es.len() as int, log_file_name)
}

/// the same for the first `n` entries (loop invariant)
pub open spec fn every_file_of_this_log_upto(v: Seq<PathBuf>, es: Seq<DirEnt>, n: int, log_file_name: &String) -> bool {
    forall|i: int| 0 <= i < n && i < es.len() && (#[trigger] es[i]).is_file && es[i].name is Some && named_after(es[i].name->0, log_file_name)
        ==> v.contains(es[i].path)
}

// ---- derived from the code where the statement is silent ---------------------------------------------------------
/// what the body keeps: everything except (a) non-files whose path ends with the extension component and
/// (b) entries with a UTF-8 name that does not start with the configured name. Entries whose name is not UTF-8 are kept.
pub open spec fn selected(e: DirEnt, log_file_name: &String, ext: &String) -> bool {
    &&& !(!e.is_file && path_ends_with::<&String>(e.path, ext))
    &&& (e.name is Some ==> named_after(e.name->0, log_file_name))
}

/// (sound) every listed path is the path of some selected entry (so: if its name is UTF-8, it starts with the configured name)
pub open spec fn lists_only_entries_named_after_this_log(v: Seq<PathBuf>, es: Seq<DirEnt>, log_file_name: &String, ext: &String) -> bool {
    only_entries_named_after_this_log_upto(v, es, es.len() as int, log_file_name, ext)
}

/// `p` is the path of a selected entry among the first `n`
pub open spec fn listed_from(p: PathBuf, es: Seq<DirEnt>, n: int, log_file_name: &String, ext: &String) -> bool {
    exists|i: int| 0 <= i < n && i < es.len() && (#[trigger] es[i]).path == p && selected(es[i], log_file_name, ext)
}

/// the same with the entry among the first `n` (loop invariant)
pub open spec fn only_entries_named_after_this_log_upto(v: Seq<PathBuf>, es: Seq<DirEnt>, n: int, log_file_name: &String, ext: &String) -> bool {
    forall|j: int| 0 <= j < v.len() ==> listed_from(#[trigger] v[j], es, n, log_file_name, ext)
}

/// the paths of the selected entries, in directory order, one per selected entry
pub open spec fn sel_paths(es: Seq<DirEnt>, log_file_name: &String, ext: &String) -> Seq<PathBuf>
    decreases es.len()
{
    if es.len() == 0 {
        Seq::empty()
    } else if selected(es.last(), log_file_name, ext) {
        sel_paths(es.drop_last(), log_file_name, ext).push(es.last().path)
    } else {
        sel_paths(es.drop_last(), log_file_name, ext)
    }
}

/// (once) the result is a permutation of the selected sub-sequence: one element per selected entry
pub open spec fn each_once(v: Seq<PathBuf>, es: Seq<DirEnt>, log_file_name: &String, ext: &String) -> bool {
    v.to_multiset() == sel_paths(es, log_file_name, ext).to_multiset()
}

/// (sorted)
pub open spec fn sorted_by_path(v: Seq<PathBuf>) -> bool {
    forall|i: int, j: int| 0 <= i <= j < v.len() ==> path_le(#[trigger] v[i], #[trigger] v[j])
}

// ---- lemmas ------------------------------------------------------------------------------------------------------
pub proof fn lemma_sel_step(es: Seq<DirEnt>, k: int, lfn: &String, ext: &String)
    requires 0 <= k < es.len(),
    ensures
        selected(es[k], lfn, ext) ==> sel_paths(es.take(k + 1), lfn, ext) == sel_paths(es.take(k), lfn, ext).push(es[k].path),
        !selected(es[k], lfn, ext) ==> sel_paths(es.take(k + 1), lfn, ext) == sel_paths(es.take(k), lfn, ext),
{
    assert(es.take(k + 1).drop_last() =~= es.take(k));
    assert(es.take(k + 1).last() == es[k]);
}

/// pushing keeps what was there and adds the pushed element
pub proof fn lemma_push_keeps(a: Seq<PathBuf>, x: PathBuf)
    ensures a.push(x).contains(x),
            forall|y: PathBuf| a.contains(y) ==> #[trigger] a.push(x).contains(y),
            forall|j: int| 0 <= j < a.len() ==> #[trigger] a.push(x)[j] == a[j],
{
    assert(a.push(x)[a.len() as int] == x);
    assert forall|y: PathBuf| a.contains(y) implies #[trigger] a.push(x).contains(y) by {
        let j = choose|j: int| 0 <= j < a.len() && a[j] == y;
        assert(a.push(x)[j] == y);
    }
}

/// a permutation `w` of `v` (what sort returns) satisfies the element-wise clauses `v` satisfies; stated as implications so that
/// the call itself never fails
pub proof fn lemma_permutation_keeps_clauses(v: Seq<PathBuf>, w: Seq<PathBuf>, es: Seq<DirEnt>, lfn: &String, ext: &String)
    ensures
        w.to_multiset() == v.to_multiset() && lists_every_file_of_this_log(v, es, lfn) ==> lists_every_file_of_this_log(w, es, lfn),
        w.to_multiset() == v.to_multiset() && lists_only_entries_named_after_this_log(v, es, lfn, ext) ==> lists_only_entries_named_after_this_log(w, es, lfn, ext),
{
    v.to_multiset_ensures();
    w.to_multiset_ensures();
    if w.to_multiset() == v.to_multiset() {
        assert forall|x: PathBuf| v.contains(x) implies w.contains(x) by { assert(v.to_multiset().count(x) > 0); }
        assert forall|x: PathBuf| w.contains(x) implies v.contains(x) by { assert(w.to_multiset().count(x) > 0); }
        if lists_only_entries_named_after_this_log(v, es, lfn, ext) {
            assert forall|j: int| 0 <= j < w.len() implies listed_from(#[trigger] w[j], es, es.len() as int, lfn, ext) by {
                assert(w.contains(w[j]));
                assert(v.contains(w[j]));
                let jj = choose|jj: int| 0 <= jj < v.len() && v[jj] == w[j];
                assert(listed_from(v[jj], es, es.len() as int, lfn, ext));
            }
        }
    }
}

// ==== misc_helpers::get_files / misc_helpers::search_files (the listings the event-directory cap and the rule-dump pruning use) ====
/// the text `misc_helpers::get_file_name(path)` returns for a path (derived from its body, which is proved against it): the last
/// component (`Path::file_name`, uninterpreted `path_file_name`) as text when there is one and it is valid Unicode, the literal
/// "InvalidPath" otherwise
pub open spec fn file_name_text(path: PathBuf) -> Seq<char> {
    match path_file_name(path) {
        Some(Some(t)) => t,
        _ => "InvalidPath"@,
    }
}
/// `regex::bytes::Regex::is_match(haystack)` of the regex compiled from `pattern`: uninterpreted
pub uninterp spec fn regex_matches(pattern: Seq<char>, haystack: Seq<u8>) -> bool;
/// "the regex matches the file name": `Regex::is_match` on the bytes (UTF-8 encoding, vstd's model) of `get_file_name(path)`
pub open spec fn file_name_matches(pattern: Seq<char>, path: PathBuf) -> bool {
    regex_matches(pattern, vstd::utf8::encode_utf8(file_name_text(path)))
}

/// which entries a listing function selects
pub ghost enum Selection {
    /// get_files: the entry is a regular file
    RegularFiles,
    /// search_files(dir, pattern): the entry is a regular file AND the regex matches its file name
    MatchingRegularFiles(Seq<char>),
}

pub open spec fn selects(s: Selection, e: DirEnt) -> bool {
    match s {
        Selection::RegularFiles => e.is_file,
        Selection::MatchingRegularFiles(pattern) => e.is_file && file_name_matches(pattern, e.path),
    }
}

// ---- written from the statement (shared by the two functions; the selection is the parameter) ----
/// (complete) every selected entry is listed
pub open spec fn lists_every(v: Seq<PathBuf>, es: Seq<DirEnt>, s: Selection) -> bool {
    lists_every_upto(v, es, es.len() as int, s)
}
/// the same for the first `n` entries (loop invariant)
pub open spec fn lists_every_upto(v: Seq<PathBuf>, es: Seq<DirEnt>, n: int, s: Selection) -> bool {
    forall|i: int| 0 <= i < n && i < es.len() && selects(s, #[trigger] es[i]) ==> v.contains(es[i].path)
}
/// `p` is the path of a selected entry among the first `n`
pub open spec fn listed_by(p: PathBuf, es: Seq<DirEnt>, n: int, s: Selection) -> bool {
    exists|i: int| 0 <= i < n && i < es.len() && (#[trigger] es[i]).path == p && selects(s, es[i])
}
/// (sound) only paths of selected entries are listed
pub open spec fn lists_only(v: Seq<PathBuf>, es: Seq<DirEnt>, s: Selection) -> bool {
    lists_only_upto(v, es, es.len() as int, s)
}
/// the same with the entry among the first `n` (loop invariant)
pub open spec fn lists_only_upto(v: Seq<PathBuf>, es: Seq<DirEnt>, n: int, s: Selection) -> bool {
    forall|j: int| 0 <= j < v.len() ==> listed_by(#[trigger] v[j], es, n, s)
}
/// the paths of the selected entries, in directory order, one per selected entry (the selected subsequence)
pub open spec fn paths_of(es: Seq<DirEnt>, s: Selection) -> Seq<PathBuf>
    decreases es.len()
{
    if es.len() == 0 {
        Seq::empty()
    } else if selects(s, es.last()) {
        paths_of(es.drop_last(), s).push(es.last().path)
    } else {
        paths_of(es.drop_last(), s)
    }
}
/// (once) the result is a permutation of the selected subsequence: one element per selected entry
pub open spec fn each_once_of(v: Seq<PathBuf>, es: Seq<DirEnt>, s: Selection) -> bool {
    v.to_multiset() == paths_of(es, s).to_multiset()
}

// ---- lemmas ----
pub proof fn lemma_paths_of_step(es: Seq<DirEnt>, k: int, s: Selection)
    requires 0 <= k < es.len(),
    ensures
        selects(s, es[k]) ==> paths_of(es.take(k + 1), s) == paths_of(es.take(k), s).push(es[k].path),
        !selects(s, es[k]) ==> paths_of(es.take(k + 1), s) == paths_of(es.take(k), s),
{
    assert(es.take(k + 1).drop_last() =~= es.take(k));
    assert(es.take(k + 1).last() == es[k]);
}

/// a permutation `w` of `v` (what sort returns) satisfies the element-wise clauses `v` satisfies; stated as implications so that
/// the call itself never fails
pub proof fn lemma_permutation_keeps_lists(v: Seq<PathBuf>, w: Seq<PathBuf>, es: Seq<DirEnt>, s: Selection)
    ensures
        w.to_multiset() == v.to_multiset() && lists_every(v, es, s) ==> lists_every(w, es, s),
        w.to_multiset() == v.to_multiset() && lists_only(v, es, s) ==> lists_only(w, es, s),
{
    v.to_multiset_ensures();
    w.to_multiset_ensures();
    if w.to_multiset() == v.to_multiset() {
        assert forall|x: PathBuf| v.contains(x) implies w.contains(x) by { assert(v.to_multiset().count(x) > 0); }
        assert forall|x: PathBuf| w.contains(x) implies v.contains(x) by { assert(w.to_multiset().count(x) > 0); }
        if lists_only(v, es, s) {
            assert forall|j: int| 0 <= j < w.len() implies listed_by(#[trigger] w[j], es, es.len() as int, s) by {
                assert(w.contains(w[j]));
                assert(v.contains(w[j]));
                let jj = choose|jj: int| 0 <= jj < v.len() && v[jj] == w[j];
                assert(listed_by(v[jj], es, es.len() as int, s));
            }
        }
    }
}
