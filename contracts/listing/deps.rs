// ---- external std types used by the listing unit (opaque; behaviour enters only through the assumed specs below) ----
#[verifier::external_type_specification]
#[verifier::external_body]
pub struct ExPath(std::path::Path);
#[verifier::external_type_specification]
#[verifier::external_body]
pub struct ExIoError(std::io::Error);
#[verifier::external_type_specification]
#[verifier::external_body]
pub struct ExMetadata(std::fs::Metadata);
#[verifier::external_type_specification]
#[verifier::external_body]
pub struct ExDirEntry(std::fs::DirEntry);

// ---- what the opaque values stand for (uninterpreted) ----
/// `DirEntry::path()`: "the full path to the file that this entry represents" (read_dir's path joined with the name)
pub uninterp spec fn de_path(e: std::fs::DirEntry) -> std::path::PathBuf;
/// the entry's bare file name as text, `None` when the OS name is not valid Unicode
pub uninterp spec fn de_name(e: std::fs::DirEntry) -> Option<Seq<char>>;
/// the text of an OsString, `None` when it is not valid Unicode
pub uninterp spec fn os_text(s: std::ffi::OsString) -> Option<Seq<char>>;
/// what `Metadata::is_file` answers
pub uninterp spec fn meta_is_file(m: std::fs::Metadata) -> bool;
/// the owned copy of a borrowed path (`Path::to_path_buf`); only used to name the target of `PathBuf::deref`
pub uninterp spec fn pbuf_of(p: &std::path::Path) -> std::path::PathBuf;
/// `Path::ends_with(child)`: "child is a suffix of self, whole components only" (uninterpreted; generic in the argument as std's)
pub uninterp spec fn path_ends_with<P>(p: std::path::PathBuf, child: P) -> bool;

// ---- assumed specifications (std documentation) ----
pub assume_specification [<std::path::PathBuf as core::ops::Deref>::deref] (p: &std::path::PathBuf) -> (r: &std::path::Path)
    ensures pbuf_of(r) == *p;
pub assume_specification<P: core::convert::AsRef<std::path::Path>> [std::path::Path::ends_with::<P>] (p: &std::path::Path, child: P) -> (r: bool)
    ensures r == path_ends_with::<P>(pbuf_of(p), child);
pub assume_specification [std::fs::DirEntry::path] (e: &std::fs::DirEntry) -> (r: std::path::PathBuf)
    ensures r == de_path(*e);
pub assume_specification [std::fs::DirEntry::file_name] (e: &std::fs::DirEntry) -> (r: std::ffi::OsString)
    ensures os_text(r) == de_name(*e);
// "Converts the OsString into a String if it contains valid Unicode data. On failure, ownership of the original OsString is returned."
pub assume_specification [std::ffi::OsString::into_string] (s: std::ffi::OsString) -> (r: core::result::Result<String, std::ffi::OsString>)
    ensures os_text(s) is Some ==> r is Ok && r->Ok_0@ == os_text(s)->0,
            os_text(s) is None ==> r is Err;
pub assume_specification [std::fs::Metadata::is_file] (m: &std::fs::Metadata) -> (r: bool)
    ensures r == meta_is_file(*m);

// ---- E11 transparent iterator newtype over std::fs::ReadDir (vstd cannot describe the type) ----
#[verifier::external_body]
pub struct VxReadDir(std::fs::ReadDir);
/// the entries the iteration has still to yield
pub uninterp spec fn rd_remaining(it: &VxReadDir) -> Seq<DirEnt>;
impl VxReadDir {
    // delegates to ReadDir::next. Contract = Iterator::next over the remaining entries: None exactly at the end; an item may be
    // Err (the iteration goes on past it); an Ok item is the DirEntry of the next model entry (its path and name).
    #[verifier::external_body]
    pub fn next(&mut self) -> (r: Option<std::io::Result<std::fs::DirEntry>>)
        ensures
            rd_remaining(old(self)).len() == 0 ==> r is None && rd_remaining(final(self)) == rd_remaining(old(self)),
            rd_remaining(old(self)).len() > 0 ==> r is Some && rd_remaining(final(self)) == rd_remaining(old(self)).drop_first(),
            rd_remaining(old(self)).len() > 0 && r->0 is Ok ==> de_path(r->0->Ok_0) == rd_remaining(old(self))[0].path && de_name(r->0->Ok_0) == rd_remaining(old(self))[0].name,
    { self.0.next() }
}
impl Iterator for VxReadDir {
    type Item = std::io::Result<std::fs::DirEntry>;
    #[verifier::external_body]
    fn next(&mut self) -> (r: Option<std::io::Result<std::fs::DirEntry>>) { self.0.next() }
}
#[verifier::external]
pub fn vx_wrap_read_dir(r: std::io::Result<std::fs::ReadDir>) -> std::io::Result<VxReadDir> {
    match r { Ok(x) => Ok(VxReadDir(x)), Err(e) => Err(e) }
}

// ---- regex (search_files): opaque types, `Regex::new` / `Regex::is_match` named by uninterpreted functions ----
#[verifier::external_type_specification]
#[verifier::external_body]
pub struct ExBytesRegex(regex::bytes::Regex);
#[verifier::external_type_specification]
#[verifier::external_body]
pub struct ExRegexError(regex::Error);
/// the pattern text a compiled regex was built from
pub uninterp spec fn regex_pattern(re: regex::bytes::Regex) -> Seq<char>;
// "Compiles a regular expression. Once compiled, it can be used repeatedly" / "If an invalid pattern is given, then an error is returned"
pub assume_specification [regex::bytes::Regex::new] (re: &str) -> (r: core::result::Result<regex::bytes::Regex, regex::Error>)
    ensures r is Ok ==> regex_pattern(r->Ok_0) == re@;
// "Returns true if and only if there is a match for the regex anywhere in the haystack given": named by `regex_matches`
pub assume_specification [regex::bytes::Regex::is_match] (re: &regex::bytes::Regex, haystack: &[u8]) -> (r: bool)
    ensures r == regex_matches(regex_pattern(*re), haystack@);
// `String::as_bytes`: "Returns a byte slice of this String's contents" (the UTF-8 encoding, vstd's model)
pub assume_specification [String::as_bytes] (s: &String) -> (r: &[u8])
    ensures r@ == vstd::utf8::encode_utf8(s@);

// ---- Path::file_name / OsStr::to_str (get_file_name) ----
#[verifier::external_type_specification]
#[verifier::external_body]
pub struct ExOsStr(std::ffi::OsStr);
/// `Path::file_name`: "the final component of the Path, if there is one" - `None`: there is none (the path terminates in `..`);
/// `Some(None)`: it is not valid Unicode; `Some(Some(t))`: its text. Uninterpreted.
pub uninterp spec fn path_file_name(p: std::path::PathBuf) -> Option<Option<Seq<char>>>;
/// the text of an OsStr, `None` when it is not valid Unicode
pub uninterp spec fn os_str_text(s: &std::ffi::OsStr) -> Option<Seq<char>>;
pub assume_specification [std::path::Path::file_name] (p: &std::path::Path) -> (r: Option<&std::ffi::OsStr>)
    ensures r is Some == path_file_name(pbuf_of(p)) is Some,
            r is Some ==> os_str_text(r->0) == path_file_name(pbuf_of(p))->0;
// "Yields a &str slice if the OsStr is valid Unicode."
pub assume_specification [std::ffi::OsStr::to_str] (s: &std::ffi::OsStr) -> (r: Option<&str>)
    ensures r is Some == os_str_text(s) is Some,
            r is Some ==> r->0@ == os_str_text(s)->0;
