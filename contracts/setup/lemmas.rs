// Lemmas of C17 over the command operations. The exec functions (the five arms of `match cli.command`, extracted
// verbatim) are proved to refine `step_ok(cmd, old world, new world)`; everything below is about `step_ok` only, i.e.
// it holds for every initial file system, every file content and every sequence of commands.

pub enum Cmd { Backup, Install, Restore { delete_backup: bool }, Uninstall { package: bool }, Purge }

pub open spec fn cmd_fs(c: Cmd, fs: Fs) -> Fs {
    match c {
        Cmd::Backup => backup_op(fs),
        Cmd::Install => install_op(fs),
        Cmd::Restore { delete_backup } => restore_op(fs, delete_backup),
        Cmd::Uninstall { package } => uninstall_op(fs, package),
        Cmd::Purge => purge_op(fs),
    }
}
pub open spec fn cmd_trace_ok(c: Cmd, o: World, n: World) -> bool {
    match c {
        Cmd::Backup => neutral_ext(o.tr, n.tr),
        Cmd::Install => stop_work_start(o.tr, n.tr),
        Cmd::Restore { delete_backup } => if o.fs.dom().contains(bak_exe()) { restore_trace(o.tr, n.tr, delete_backup) } else { n.tr == o.tr },
        Cmd::Uninstall { package } => quiet_ext(o.tr.push(systemctl("stop"@)), n.tr),
        Cmd::Purge => neutral_ext(o.tr, n.tr),
    }
}
// one command, as far as the property is concerned
pub open spec fn step_ok(c: Cmd, o: World, n: World) -> bool {
    &&& (o.fault ==> n.fault)
    &&& (forall|p: PathV| !may_change(p) ==> #[trigger] at(n.fs, p) == at(o.fs, p))     // even when the environment fails
    &&& (!n.fault ==> n.fs == cmd_fs(c, o.fs) && cmd_trace_ok(c, o, n))
}

pub open spec fn installed(fs: Fs) -> bool {
    fs.dom().contains(sys_exe()) && fs.dom().contains(sys_config()) && fs.dom().contains(sys_ebpf()) && fs.dom().contains(sys_unit())
}
pub open spec fn same_system_files(a: Fs, b: Fs) -> bool {
    at(a, sys_exe()) == at(b, sys_exe()) && at(a, sys_config()) == at(b, sys_config()) && at(a, sys_ebpf()) == at(b, sys_ebpf()) && at(a, sys_unit()) == at(b, sys_unit())
}

// ---- the sentences of the statement, one lemma each ------------------------------------------------------------------
// "backup: the backup paths hold the system files, nothing else changes"
pub proof fn lemma_backup(fs: Fs)
    requires wf_layout()
    ensures
        fs.dom().contains(sys_exe()) ==> at(backup_op(fs), bak_exe()) == at(fs, sys_exe()),  // @C17.lemma_backup.executable_saved
        fs.dom().contains(sys_config()) ==> at(backup_op(fs), bak_config()) == at(fs, sys_config()),  // @C17.lemma_backup.configuration_saved
        fs.dom().contains(sys_ebpf()) ==> at(backup_op(fs), bak_ebpf()) == at(fs, sys_ebpf()),  // @C17.lemma_backup.ebpf_object_saved
        fs.dom().contains(sys_unit()) ==> at(backup_op(fs), bak_unit()) == at(fs, sys_unit()),  // @C17.lemma_backup.service_unit_saved
        forall|p: PathV| !is_bak_slot(p) ==> #[trigger] at(backup_op(fs), p) == at(fs, p),  // @C17.lemma_backup.nothing_else_changes
{
    lemma_layout();
}

// "Install places exactly the packaged files"
pub proof fn lemma_install(fs: Fs)
    requires wf_layout()
    ensures
        at(install_op(fs), sys_exe()) == (if fs.dom().contains(pkg_exe()) { at(fs, pkg_exe()) } else { at(fs, sys_exe()) }),  // @C17.lemma_install.packaged_executable_placed
        at(install_op(fs), sys_config()) == (if fs.dom().contains(pkg_config()) { at(fs, pkg_config()) } else { at(fs, sys_config()) }),  // @C17.lemma_install.packaged_configuration_placed
        at(install_op(fs), sys_ebpf()) == (if fs.dom().contains(pkg_ebpf()) { at(fs, pkg_ebpf()) } else { at(fs, sys_ebpf()) }),  // @C17.lemma_install.packaged_ebpf_object_placed
        at(install_op(fs), sys_unit()) == (if fs.dom().contains(pkg_unit()) { at(fs, pkg_unit()) } else { at(fs, sys_unit()) }),  // @C17.lemma_install.packaged_service_unit_placed
        forall|p: PathV| !is_sys(p) ==> #[trigger] at(install_op(fs), p) == at(fs, p),  // @C17.lemma_install.nothing_else_changes
{
    lemma_layout();
}

// "restore without a backup changes nothing"
pub proof fn lemma_restore_without_backup(fs: Fs, delete_backup: bool)
    requires wf_layout(), no_backup(fs)
    ensures restore_op(fs, delete_backup) == fs  // @C17.lemma_restore.without_backup_changes_nothing
{
    lemma_layout();
    assert(in_backup(bak_exe()));
}

// "uninstall in package mode removes the installed files"
pub proof fn lemma_uninstall(fs: Fs)
    ensures
        at(uninstall_op(fs, true), sys_exe()) is None && at(uninstall_op(fs, true), sys_config()) is None
            && at(uninstall_op(fs, true), sys_ebpf()) is None && at(uninstall_op(fs, true), sys_unit()) is None,  // @C17.lemma_uninstall.installed_files_removed
        forall|p: PathV| !is_sys(p) ==> #[trigger] at(uninstall_op(fs, true), p) == at(fs, p),  // @C17.lemma_uninstall.nothing_else_changes
        forall|p: PathV| p != sys_unit() ==> #[trigger] at(uninstall_op(fs, false), p) == at(fs, p),
{
    lemma_names();
}

// "purge removes only the backup"
pub proof fn lemma_purge(fs: Fs)
    ensures
        forall|p: PathV| in_backup(p) ==> #[trigger] at(purge_op(fs), p) is None,  // @C17.lemma_purge.backup_removed
        forall|p: PathV| !in_backup(p) ==> #[trigger] at(purge_op(fs), p) == at(fs, p),  // @C17.lemma_purge.only_the_backup
{
}

// ---- the round trip ---------------------------------------------------------------------------------------------------
// "After backup, installation of another version and then restore, the four files at their system locations are
//  byte-identical to what they were before the upgrade": whatever the installation wrote to the system locations
// (`f2` is ANY file system that differs from the backed-up one only at system locations), restore reinstates fs0 there.
pub proof fn lemma_round_trip_any_install(fs0: Fs, f2: Fs, delete_backup: bool)
    requires
        wf_layout(),
        installed(fs0),
        forall|p: PathV| !is_sys(p) ==> #[trigger] at(f2, p) == at(backup_op(fs0), p),
    ensures
        same_system_files(restore_op(f2, delete_backup), fs0),  // @C17.lemma_round_trip.system_files_byte_identical
{
    lemma_layout();
    lemma_backup(fs0);
    let f1 = backup_op(fs0);
    assert(at(f2, bak_exe()) == at(f1, bak_exe()));
    assert(at(f2, bak_config()) == at(f1, bak_config()));
    assert(at(f2, bak_ebpf()) == at(f1, bak_ebpf()));
    assert(at(f2, bak_unit()) == at(f1, bak_unit()));
    let r = restore_files(f2);
    assert(at(r, sys_exe()) == at(fs0, sys_exe()));
    assert(at(r, sys_config()) == at(fs0, sys_config()));
    assert(at(r, sys_ebpf()) == at(fs0, sys_ebpf()));
    assert(at(r, sys_unit()) == at(fs0, sys_unit()));
}
// ... in particular for the tool's own install
pub proof fn lemma_round_trip(fs0: Fs, delete_backup: bool)
    requires wf_layout(), installed(fs0)
    ensures same_system_files(restore_op(install_op(backup_op(fs0)), delete_backup), fs0),  // @C17.lemma_round_trip.restore_install_backup_is_identity_on_system_files
{
    lemma_install(backup_op(fs0));
    lemma_round_trip_any_install(fs0, install_op(backup_op(fs0)), delete_backup);
}

// ---- the service ---------------------------------------------------------------------------------------------------------
pub proof fn lemma_stop_work_start(o: Seq<Ev>, n: Seq<Ev>)
    requires stop_work_start(o, n)
    ensures svc(n) == (Svc { stopped: false, dirty: false, bad: svc(o).bad })
{
    lemma_names();
    let t1 = o.push(systemctl("stop"@));
    lemma_svc_push(o, systemctl("stop"@));
    let m = n.drop_last();
    lemma_quiet(t1, m);
    assert(n =~= m.push(n.last()));
    lemma_svc_push(m, n.last());
}

// one command never changes a system file while the service is not stopped; install and restore leave it started
pub proof fn lemma_step_service(c: Cmd, o: World, n: World)
    requires wf_layout(), step_ok(c, o, n), !n.fault
    ensures
        svc(n.tr).bad == svc(o.tr).bad,  // @C17.lemma_step_service.stopped_before_any_system_file_changes
        (c is Install || (c is Restore && o.fs.dom().contains(bak_exe()))) ==> !svc(n.tr).dirty && !svc(n.tr).stopped,  // @C17.lemma_step_service.started_again_afterwards
{
    lemma_layout();
    lemma_names();
    match c {
        Cmd::Backup => { lemma_neutral(o.tr, n.tr); }
        Cmd::Purge => { lemma_neutral(o.tr, n.tr); }
        Cmd::Install => { lemma_stop_work_start(o.tr, n.tr); }
        Cmd::Uninstall { package } => {
            lemma_svc_push(o.tr, systemctl("stop"@));
            lemma_quiet(o.tr.push(systemctl("stop"@)), n.tr);
        }
        Cmd::Restore { delete_backup } => {
            if o.fs.dom().contains(bak_exe()) {
                if delete_backup {
                    let k = n.tr.drop_last();
                    lemma_stop_work_start(o.tr, k);
                    assert(n.tr =~= k.push(n.tr.last()));
                    lemma_svc_push(k, n.tr.last());
                } else {
                    lemma_stop_work_start(o.tr, n.tr);
                }
            }
        }
    }
}

// ---- histories: every sequence of commands from every initial state ---------------------------------------------------
pub open spec fn history_ok(cs: Seq<Cmd>, ws: Seq<World>) -> bool {
    ws.len() == cs.len() + 1 && (forall|i: int| 0 <= i < cs.len() ==> #[trigger] step_ok(cs[i], ws[i], ws[i + 1]))
}

// "no command alters any file outside those locations (and) the backup folder" -- also when the environment fails
pub proof fn lemma_history_frame(cs: Seq<Cmd>, ws: Seq<World>)
    requires history_ok(cs, ws)
    ensures forall|p: PathV| !may_change(p) ==> #[trigger] at(ws.last().fs, p) == at(ws[0].fs, p),  // @C17.lemma_history.nothing_outside_system_locations_and_backup_changes
    decreases cs.len()
{
    if cs.len() > 0 {
        let cs1 = cs.drop_last();
        let ws1 = ws.drop_last();
        assert(history_ok(cs1, ws1)) by {
            assert forall|i: int| 0 <= i < cs1.len() implies #[trigger] step_ok(cs1[i], ws1[i], ws1[i + 1]) by {
                assert(step_ok(cs[i], ws[i], ws[i + 1]));
            }
        }
        lemma_history_frame(cs1, ws1);
        let k = cs.len() - 1;
        assert(step_ok(cs[k], ws[k], ws[k + 1]));
        assert(ws1.last() == ws[k]);
        assert(ws1[0] == ws[0]);
    }
}

// "the service having been stopped before any file was replaced": in a fault-free history no system file ever
// changes while the service is not stopped
pub proof fn lemma_history_service(cs: Seq<Cmd>, ws: Seq<World>)
    requires wf_layout(), history_ok(cs, ws), !ws.last().fault
    ensures svc(ws.last().tr).bad == svc(ws[0].tr).bad,  // @C17.lemma_history.never_a_system_file_change_while_not_stopped
    decreases cs.len()
{
    if cs.len() > 0 {
        let cs1 = cs.drop_last();
        let ws1 = ws.drop_last();
        let k = cs.len() - 1;
        assert(step_ok(cs[k], ws[k], ws[k + 1]));
        assert(ws1.last() == ws[k]);
        assert(ws1[0] == ws[0]);
        assert(history_ok(cs1, ws1)) by {
            assert forall|i: int| 0 <= i < cs1.len() implies #[trigger] step_ok(cs1[i], ws1[i], ws1[i + 1]) by {
                assert(step_ok(cs[i], ws[i], ws[i + 1]));
            }
        }
        lemma_history_service(cs1, ws1);
        lemma_step_service(cs[k], ws[k], ws[k + 1]);
    }
}

// what `bad` means, read off the trace: if it is false, every change of a system file is preceded by a
// `systemctl stop` with no `systemctl start` in between
pub open spec fn stopped_at(tr: Seq<Ev>, i: int) -> bool {
    exists|j: int| 0 <= j < i && is_stop(#[trigger] tr[j]) && (forall|k: int| j < k < i ==> !is_start(#[trigger] tr[k]))
}
pub proof fn lemma_stopped_meaning(tr: Seq<Ev>)
    ensures
        svc(tr).stopped ==> stopped_at(tr, tr.len() as int),
        !svc(tr).bad ==> (forall|i: int| 0 <= i < tr.len() && touches_sys(#[trigger] tr[i]) ==> stopped_at(tr, i)),  // @C17.lemma_trace.every_system_file_change_is_preceded_by_stop_without_start
    decreases tr.len()
{
    lemma_names();
    if tr.len() > 0 {
        let m = tr.drop_last();
        let e = tr.last();
        lemma_stopped_meaning(m);
        let n = m.len() as int;
        assert forall|i: int| 0 <= i <= n && stopped_at(m, i) implies stopped_at(tr, i) by {
            let j = choose|j: int| 0 <= j < i && is_stop(#[trigger] m[j]) && (forall|k: int| j < k < i ==> !is_start(#[trigger] m[k]));
            assert(tr[j] == m[j]);
            assert forall|k: int| j < k < i implies !is_start(#[trigger] tr[k]) by { assert(tr[k] == m[k]); }
        }
        if svc(tr).stopped {
            if is_stop(e) {
                assert(tr[n] == e);
            } else {
                assert(svc(m).stopped && !is_start(e));
                assert(stopped_at(tr, n));
                let j = choose|j: int| 0 <= j < n && is_stop(#[trigger] tr[j]) && (forall|k: int| j < k < n ==> !is_start(#[trigger] tr[k]));
                assert forall|k: int| j < k < n + 1 implies !is_start(#[trigger] tr[k]) by { if k == n { assert(tr[n] == e); } }
                assert(stopped_at(tr, n + 1));
            }
        }
        if !svc(tr).bad {
            assert(!svc(m).bad);
            assert forall|i: int| 0 <= i < tr.len() && touches_sys(#[trigger] tr[i]) implies stopped_at(tr, i) by {
                if i < n {
                    assert(tr[i] == m[i]);
                } else {
                    assert(tr[n] == e);
                    assert(!is_stop(e) && !is_start(e));
                    assert(svc(m).stopped);
                }
            }
        }
    }
}
