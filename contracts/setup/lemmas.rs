// lemmas of C17 over the command operations (round trip, frames)
