// Specification of C17, written from the property statement:
//  "After the setup tool's backup, installation of another version and then restore, the agent executable, its
//   configuration file, its eBPF object and its service unit at their system locations are byte-identical to what
//   they were before the upgrade, the service having been stopped before any file was replaced and started again
//   afterwards. Install places exactly the packaged files, restore without a backup changes nothing, uninstall in
//   package mode removes the installed files, purge removes only the backup, and no command alters any file outside
//   those locations, the backup folder and the tool's own log."
//
// ---- the abstract world ---------------------------------------------------------------------------------------
// A path is its sequence of components (what std::path::Path::components yields; the root directory is the
// component "/"). The file system is a partial map from paths to file contents: a key is present iff a regular
// file exists there (directories are implicit). The trace records the observable effects in order: processes
// spawned (the call log of `systemctl`) and changes of files.
pub type PathV = Seq<Seq<char>>;
pub type Bytes = Seq<u8>;
pub type Fs = Map<PathV, Bytes>;

pub enum Ev {
    Cmd(Seq<char>, Seq<Seq<char>>),   // program, arguments
    Write(PathV),                     // the file at this path was created / overwritten / removed
    RemoveTree(PathV),                // files under this directory were removed
}

// ONE ghost object threaded (rule E4) through every function that touches the file system or spawns a process.
// `fault` is set by the environment stubs when an operation fails for a reason the model does not explain
// (I/O error although the source file exists, `systemctl` cannot be spawned, a folder cannot be created).
pub tracked struct World { pub ghost fs: Fs, pub ghost tr: Seq<Ev>, pub ghost fault: bool }

pub open spec fn at(fs: Fs, p: PathV) -> Option<Bytes> { if fs.dom().contains(p) { Some(fs[p]) } else { None } }
pub open spec fn is_under(d: PathV, p: PathV) -> bool { d.len() <= p.len() && p.subrange(0, d.len() as int) == d }

// ---- the locations named by the statement ------------------------------------------------------------------------
pub open spec fn root() -> Seq<char> { seq!['/'] }
pub open spec fn n_exe() -> Seq<char> { "azure-proxy-agent"@ }
pub open spec fn n_config() -> Seq<char> { "proxy-agent.json"@ }
pub open spec fn n_ebpf() -> Seq<char> { "ebpf_cgroup.o"@ }
pub open spec fn n_unit() -> Seq<char> { "azure-proxy-agent.service"@ }
// system locations: /usr/sbin/azure-proxy-agent, /etc/azure/proxy-agent.json,
// /usr/lib/azure-proxy-agent/ebpf_cgroup.o, /usr/lib/systemd/system/azure-proxy-agent.service
pub open spec fn dir_sbin() -> PathV { seq![root(), "usr"@, "sbin"@] }
pub open spec fn dir_systemd() -> PathV { seq![root(), "usr"@, "lib"@, "systemd"@, "system"@] }
pub open spec fn sys_exe() -> PathV { dir_sbin().push(n_exe()) }
pub open spec fn sys_config() -> PathV { seq![root(), "etc"@, "azure"@, n_config()] }
pub open spec fn sys_ebpf() -> PathV { seq![root(), "usr"@, "lib"@, "azure-proxy-agent"@, n_ebpf()] }
pub open spec fn sys_unit() -> PathV { dir_systemd().push(n_unit()) }
pub open spec fn is_sys(p: PathV) -> bool { p == sys_exe() || p == sys_config() || p == sys_ebpf() || p == sys_unit() }

// <setup dir>: the directory of the running setup tool; arbitrary.
pub uninterp spec fn exe_dir() -> PathV;
pub open spec fn pkg_dir() -> PathV { exe_dir().push("ProxyAgent"@) }              // <setup dir>/ProxyAgent
pub open spec fn backup_dir() -> PathV { pkg_dir().push("Backup"@) }               // <setup dir>/ProxyAgent/Backup
pub open spec fn backup_pkg_dir() -> PathV { backup_dir().push("Package"@) }       // <setup dir>/ProxyAgent/Backup/Package
pub open spec fn in_backup(p: PathV) -> bool { is_under(backup_dir(), p) }
// the backup slot of each system file, and the packaged file that install places there
pub open spec fn bak_exe() -> PathV { backup_pkg_dir().push(n_exe()) }
pub open spec fn bak_config() -> PathV { backup_pkg_dir().push(n_config()) }
pub open spec fn bak_ebpf() -> PathV { backup_pkg_dir().push(n_ebpf()) }
pub open spec fn bak_unit() -> PathV { backup_dir().push(n_unit()) }
pub open spec fn is_bak_slot(p: PathV) -> bool { p == bak_exe() || p == bak_config() || p == bak_ebpf() || p == bak_unit() }
pub open spec fn pkg_exe() -> PathV { pkg_dir().push(n_exe()) }
pub open spec fn pkg_config() -> PathV { pkg_dir().push(n_config()) }
pub open spec fn pkg_ebpf() -> PathV { pkg_dir().push(n_ebpf()) }
pub open spec fn pkg_unit() -> PathV { exe_dir().push(n_unit()) }

// "under the precondition that the setup directory is not itself one of the system directories":
// no system file lives inside the setup directory.
pub open spec fn wf_layout() -> bool {
    !is_under(exe_dir(), sys_exe()) && !is_under(exe_dir(), sys_config()) && !is_under(exe_dir(), sys_ebpf()) && !is_under(exe_dir(), sys_unit())
}

// ---- the commands as operations on the file system (no environment fault) ---------------------------------------
// copy one file if the source exists (a failed copy of a missing source is logged and ignored by the tool)
pub open spec fn cp(fs: Fs, a: PathV, b: PathV) -> Fs { if fs.dom().contains(a) { fs.insert(b, fs[a]) } else { fs } }
pub open spec fn rm(fs: Fs, p: PathV) -> Fs { fs.remove(p) }
pub open spec fn rmtree(fs: Fs, d: PathV) -> Fs { fs.filter_keys(|p: PathV| !is_under(d, p)) }

// backup: "the backup paths hold the system files"
pub open spec fn backup_op(fs: Fs) -> Fs {
    cp(cp(cp(cp(fs, sys_exe(), bak_exe()), sys_config(), bak_config()), sys_ebpf(), bak_ebpf()), sys_unit(), bak_unit())
}
// the three files of a package folder placed at their system locations
pub open spec fn place3(fs: Fs, dir: PathV) -> Fs {
    cp(cp(cp(fs, dir.push(n_exe()), sys_exe()), dir.push(n_config()), sys_config()), dir.push(n_ebpf()), sys_ebpf())
}
// install: "places exactly the packaged files" (the unit file is packaged next to the tool)
pub open spec fn install_op(fs: Fs) -> Fs { cp(place3(fs, pkg_dir()), pkg_unit(), sys_unit()) }
// restore: "restore without a backup changes nothing"; with a backup the saved files are put back
pub open spec fn no_backup(fs: Fs) -> bool { forall|p: PathV| in_backup(p) ==> !fs.dom().contains(p) }
pub open spec fn restore_files(fs: Fs) -> Fs { cp(place3(fs, backup_pkg_dir()), bak_unit(), sys_unit()) }
pub open spec fn restore_op(fs: Fs, delete_backup: bool) -> Fs {
    if !fs.dom().contains(bak_exe()) { fs } else if delete_backup { rmtree(restore_files(fs), backup_dir()) } else { restore_files(fs) }
}
// uninstall in package mode: "removes the installed files"
pub open spec fn uninstall_op(fs: Fs, package: bool) -> Fs {
    if package { rm(rm(rm(rm(fs, sys_unit()), sys_exe()), sys_config()), sys_ebpf()) } else { rm(fs, sys_unit()) }
}
// purge: "removes only the backup"
pub open spec fn purge_op(fs: Fs) -> Fs { rmtree(fs, backup_dir()) }

// "no command alters any file outside those locations, the backup folder (and the tool's own log)"
pub open spec fn frame(o: Fs, n: Fs, allowed: spec_fn(PathV) -> bool) -> bool {
    forall|p: PathV| !allowed(p) ==> #[trigger] at(n, p) == at(o, p)
}
pub open spec fn may_change(p: PathV) -> bool { is_sys(p) || in_backup(p) }

// ---- the service: "stopped before any file was replaced and started again afterwards" ---------------------------
pub open spec fn systemctl(verb: Seq<char>) -> Ev { Ev::Cmd("systemctl"@, seq![verb, "azure-proxy-agent"@]) }
pub open spec fn is_stop(e: Ev) -> bool { e == systemctl("stop"@) }
pub open spec fn is_start(e: Ev) -> bool { e == systemctl("start"@) }
pub open spec fn touches_sys(e: Ev) -> bool {
    match e {
        Ev::Write(p) => is_sys(p),
        Ev::RemoveTree(d) => is_under(d, sys_exe()) || is_under(d, sys_config()) || is_under(d, sys_ebpf()) || is_under(d, sys_unit()),
        Ev::Cmd(_, _) => false,
    }
}
// An automaton over the trace: `stopped` = the last of stop/start was a stop; `dirty` = a system file changed and
// the service has not been started since; `bad` = some system file changed while the service was not stopped.
pub struct Svc { pub stopped: bool, pub dirty: bool, pub bad: bool }
pub open spec fn svc_init() -> Svc { Svc { stopped: false, dirty: false, bad: false } }
pub open spec fn svc_step(s: Svc, e: Ev) -> Svc {
    if is_stop(e) { Svc { stopped: true, dirty: s.dirty, bad: s.bad } }
    else if is_start(e) { Svc { stopped: false, dirty: false, bad: s.bad } }
    else if touches_sys(e) { Svc { stopped: s.stopped, dirty: true, bad: s.bad || !s.stopped } }
    else { s }
}
pub open spec fn svc(tr: Seq<Ev>) -> Svc decreases tr.len() {
    if tr.len() == 0 { svc_init() } else { svc_step(svc(tr.drop_last()), tr.last()) }
}

// trace extensions: `n` continues `o`, and every new event ...
pub open spec fn extends(o: Seq<Ev>, n: Seq<Ev>) -> bool {
    o.len() <= n.len() && (forall|i: int| 0 <= i < o.len() ==> #[trigger] n[i] == o[i])
}
// ... is neither a stop nor a start of the service
pub open spec fn quiet_ext(o: Seq<Ev>, n: Seq<Ev>) -> bool {
    extends(o, n) && (forall|i: int| o.len() <= i < n.len() ==> !is_stop(#[trigger] n[i]) && !is_start(n[i]))
}
// ... additionally does not touch a system file
pub open spec fn neutral_ext(o: Seq<Ev>, n: Seq<Ev>) -> bool {
    quiet_ext(o, n) && (forall|i: int| o.len() <= i < n.len() ==> !touches_sys(#[trigger] n[i]))
}

pub proof fn lemma_svc_push(tr: Seq<Ev>, e: Ev)
    ensures svc(tr.push(e)) == svc_step(svc(tr), e)
{
    assert(tr.push(e).drop_last() =~= tr);
}

pub proof fn lemma_quiet(o: Seq<Ev>, n: Seq<Ev>)
    requires quiet_ext(o, n)
    ensures svc(o).stopped ==> svc(n).stopped && svc(n).bad == svc(o).bad,
            svc(n).stopped == svc(o).stopped,
            svc(o).bad ==> svc(n).bad,
    decreases n.len()
{
    if n.len() == o.len() {
        assert(n =~= o);
    } else {
        let m = n.drop_last();
        assert(quiet_ext(o, m));
        lemma_quiet(o, m);
        assert(!is_stop(n[n.len() - 1]));
    }
}

pub proof fn lemma_neutral(o: Seq<Ev>, n: Seq<Ev>)
    requires neutral_ext(o, n)
    ensures svc(n) == svc(o)
    decreases n.len()
{
    if n.len() == o.len() {
        assert(n =~= o);
    } else {
        let m = n.drop_last();
        assert(neutral_ext(o, m));
        lemma_neutral(o, m);
        assert(!is_stop(n[n.len() - 1]));
        assert(!touches_sys(n[n.len() - 1]));
    }
}

// ---- the environment stubs' contracts (what one file-system call does to the world) -----------------------------
// std::fs::copy(a, b): Ok => the source is a file and b now holds its bytes. Err with a missing source: nothing
// happened (the source is opened first). Err although the source exists: an I/O fault; only b may have changed.
pub open spec fn copy_post(o: World, n: World, a: PathV, b: PathV, ok: bool) -> bool {
    &&& n.fault == (o.fault || (!ok && o.fs.dom().contains(a)))
    &&& (ok ==> o.fs.dom().contains(a) && n.fs == o.fs.insert(b, o.fs[a]) && n.tr == o.tr.push(Ev::Write(b)))
    &&& (!ok && !o.fs.dom().contains(a) ==> n.fs == o.fs && n.tr == o.tr)
    &&& (!ok && o.fs.dom().contains(a) ==> (forall|p: PathV| p != b ==> #[trigger] at(n.fs, p) == at(o.fs, p)) && n.tr == o.tr.push(Ev::Write(b)))
}
// std::fs::remove_file(p): Ok => the file existed and is gone. Err: nothing changed; a fault if the file exists.
pub open spec fn remove_post(o: World, n: World, p: PathV, ok: bool) -> bool {
    &&& n.fault == (o.fault || (!ok && o.fs.dom().contains(p)))
    &&& (ok ==> o.fs.dom().contains(p) && n.fs == o.fs.remove(p) && n.tr == o.tr.push(Ev::Write(p)))
    &&& (!ok ==> n.fs == o.fs && n.tr == o.tr)
}
// std::fs::remove_dir_all(d): Ok => no file is left under d. Err: a subset of the files under d may be gone
// (a fault unless there was nothing under d). Nothing outside d changes in any case.
pub open spec fn remove_tree_post(o: World, n: World, d: PathV, ok: bool) -> bool {
    &&& n.fault == (o.fault || (!ok && exists|p: PathV| is_under(d, p) && o.fs.dom().contains(p)))
    &&& n.tr == o.tr.push(Ev::RemoveTree(d))
    &&& (ok ==> n.fs == rmtree(o.fs, d))
    &&& (!n.fault && !ok ==> n.fs == o.fs)
    &&& (forall|p: PathV| !is_under(d, p) ==> #[trigger] at(n.fs, p) == at(o.fs, p))
    &&& (forall|p: PathV| is_under(d, p) ==> #[trigger] at(n.fs, p) == at(o.fs, p) || at(n.fs, p) is None)
}
// a spawned process: recorded in the trace; if it cannot be spawned that is a fault and nothing is recorded
pub open spec fn cmd_post(o: World, n: World, prog: Seq<char>, args: Seq<Seq<char>>, ok: bool) -> bool {
    &&& n.fs == o.fs
    &&& n.fault == (o.fault || !ok)
    &&& (ok ==> n.tr == o.tr.push(Ev::Cmd(prog, args)))
    &&& (!ok ==> n.tr == o.tr)
}
pub open spec fn strs_view(a: Seq<&str>) -> Seq<Seq<char>> { Seq::new(a.len(), |i: int| a[i]@) }
pub broadcast proof fn lemma_strs1(a: Seq<&str>)
    requires a.len() == 1
    ensures #[trigger] strs_view(a) == seq![a[0]@]
{ assert(strs_view(a) =~= seq![a[0]@]); }
pub broadcast proof fn lemma_strs2(a: Seq<&str>)
    requires a.len() == 2
    ensures #[trigger] strs_view(a) == seq![a[0]@, a[1]@]
{ assert(strs_view(a) =~= seq![a[0]@, a[1]@]); }

// ---- path arithmetic ------------------------------------------------------------------------------------------------
// components of a path string: split at '/', empty pieces dropped, a leading '/' is the root component
pub open spec fn split_slash(s: Seq<char>) -> Seq<Seq<char>> decreases s.len() {
    if s.len() == 0 { seq![Seq::<char>::empty()] }
    else {
        let r = split_slash(s.drop_last());
        if s.last() == '/' { r.push(Seq::<char>::empty()) } else { r.drop_last().push(r.last().push(s.last())) }
    }
}
pub open spec fn drop_empty(q: Seq<Seq<char>>) -> Seq<Seq<char>> decreases q.len() {
    if q.len() == 0 { q } else { let r = drop_empty(q.drop_last()); if q.last().len() > 0 { r.push(q.last()) } else { r } }
}
pub open spec fn has_dot_piece(q: Seq<Seq<char>>) -> bool decreases q.len() {
    if q.len() == 0 { false } else { q.last() == seq!['.'] || has_dot_piece(q.drop_last()) }
}
pub open spec fn parse_path(s: Seq<char>) -> PathV {
    (if s.len() > 0 && s[0] == '/' { seq![root()] } else { Seq::<Seq<char>>::empty() }) + drop_empty(split_slash(s))
}
// strings for which `components()` is exactly parse_path: no "." piece (std drops those except in front)
pub open spec fn plain(s: Seq<char>) -> bool { !has_dot_piece(split_slash(s)) }
// Path::join: an absolute argument replaces the base, a relative one is appended
pub open spec fn path_join(a: PathV, b: PathV) -> PathV { if b.len() > 0 && b[0] == root() { b } else { a + b } }

pub broadcast proof fn lemma_join1(a: PathV, c: Seq<char>)
    requires c.len() > 1
    ensures #[trigger] path_join(a, seq![c]) == a.push(c)
{
    assert(seq![c][0] == c);
    assert(a + seq![c] =~= a.push(c));
}
pub proof fn lemma_under_refl(d: PathV)
    ensures is_under(d, d)
{
    assert(d.subrange(0, d.len() as int) =~= d);
}
pub proof fn lemma_under_push(d: PathV, p: PathV, c: Seq<char>)
    requires is_under(d, p)
    ensures is_under(d, p.push(c))
{
    assert(p.push(c).subrange(0, d.len() as int) =~= p.subrange(0, d.len() as int));
}
pub proof fn lemma_under_trans(a: PathV, b: PathV, c: PathV)
    requires is_under(a, b), is_under(b, c)
    ensures is_under(a, c)
{
    assert(c.subrange(0, a.len() as int) =~= c.subrange(0, b.len() as int).subrange(0, a.len() as int));
}

// ---- facts about the named locations ------------------------------------------------------------------------------
pub proof fn lemma_names()
    ensures
        n_exe().len() == 17, n_config().len() == 16, n_ebpf().len() == 13, n_unit().len() == 25,
        "Backup"@.len() == 6, "Package"@.len() == 7, "ProxyAgent"@.len() == 10,
        "stop"@.len() == 4, "start"@.len() == 5,
        n_exe() + ".service"@ =~= n_unit(),
        !is_stop(systemctl("start"@)), !is_start(systemctl("stop"@)),
        sys_exe() != sys_config(), sys_exe() != sys_ebpf(), sys_exe() != sys_unit(),
        sys_config() != sys_ebpf(), sys_config() != sys_unit(), sys_ebpf() != sys_unit(),
{
    reveal_strlit("azure-proxy-agent"); reveal_strlit("proxy-agent.json"); reveal_strlit("ebpf_cgroup.o");
    reveal_strlit("azure-proxy-agent.service"); reveal_strlit("Backup"); reveal_strlit("Package"); reveal_strlit("ProxyAgent");
    reveal_strlit("stop"); reveal_strlit("start"); reveal_strlit(".service");
    assert(".service"@.len() == 8);
    assert(systemctl("start"@)->Cmd_1[0].len() == 5);
    assert(systemctl("stop"@)->Cmd_1[0].len() == 4);
    assert(sys_exe()[3].len() == 17 && sys_config()[3].len() == 16);
    assert(sys_exe().len() == 4 && sys_config().len() == 4 && sys_ebpf().len() == 5 && sys_unit().len() == 6);
}

pub proof fn lemma_push_ne(p: PathV, a: Seq<char>, b: Seq<char>)
    requires a != b
    ensures p.push(a) != p.push(b)
{
    assert(p.push(a)[p.len() as int] == a);
    assert(p.push(b)[p.len() as int] == b);
}

// everything the tool reads or writes besides the system locations lives under the setup directory
pub proof fn lemma_layout()
    requires wf_layout()
    ensures
        is_under(exe_dir(), pkg_dir()), is_under(exe_dir(), backup_dir()), is_under(exe_dir(), backup_pkg_dir()),
        in_backup(bak_exe()), in_backup(bak_config()), in_backup(bak_ebpf()), in_backup(bak_unit()), in_backup(backup_dir()),
        !in_backup(sys_exe()), !in_backup(sys_config()), !in_backup(sys_ebpf()), !in_backup(sys_unit()),
        !in_backup(pkg_exe()), !in_backup(pkg_config()), !in_backup(pkg_ebpf()), !in_backup(pkg_unit()),
        forall|p: PathV| is_sys(p) ==> !is_under(exe_dir(), p) && !in_backup(p) && !is_bak_slot(p),
        !is_sys(bak_exe()), !is_sys(bak_config()), !is_sys(bak_ebpf()), !is_sys(bak_unit()),
        !is_sys(pkg_exe()), !is_sys(pkg_config()), !is_sys(pkg_ebpf()), !is_sys(pkg_unit()),
        bak_exe() != bak_config(), bak_exe() != bak_ebpf(), bak_exe() != bak_unit(),
        bak_config() != bak_ebpf(), bak_config() != bak_unit(), bak_ebpf() != bak_unit(),
        !touches_sys(Ev::RemoveTree(backup_dir())),
        forall|p: PathV| is_bak_slot(p) ==> in_backup(p),
{
    lemma_names();
    let e = exe_dir();
    lemma_under_refl(e);
    lemma_under_push(e, e, "ProxyAgent"@);
    lemma_under_push(e, pkg_dir(), "Backup"@);
    lemma_under_push(e, backup_dir(), "Package"@);
    let b = backup_dir();
    lemma_under_refl(b);
    lemma_under_push(b, b, "Package"@);
    lemma_under_push(b, backup_pkg_dir(), n_exe());
    lemma_under_push(b, backup_pkg_dir(), n_config());
    lemma_under_push(b, backup_pkg_dir(), n_ebpf());
    lemma_under_push(b, b, n_unit());
    // system files are not under the setup dir, hence not under the backup dir
    if in_backup(sys_exe()) { lemma_under_trans(e, b, sys_exe()); }
    if in_backup(sys_config()) { lemma_under_trans(e, b, sys_config()); }
    if in_backup(sys_ebpf()) { lemma_under_trans(e, b, sys_ebpf()); }
    if in_backup(sys_unit()) { lemma_under_trans(e, b, sys_unit()); }
    // packaged files are under the setup dir ...
    lemma_under_push(e, pkg_dir(), n_exe());
    lemma_under_push(e, pkg_dir(), n_config());
    lemma_under_push(e, pkg_dir(), n_ebpf());
    lemma_under_push(e, e, n_unit());
    // ... but not under the backup dir: same length as the backup dir with another last component, or shorter
    assert(b.len() == e.len() + 2);
    assert(b[e.len() as int + 1] == "Backup"@);
    if in_backup(pkg_exe()) { assert(pkg_exe().subrange(0, b.len() as int)[e.len() as int + 1] == n_exe()); }
    if in_backup(pkg_config()) { assert(pkg_config().subrange(0, b.len() as int)[e.len() as int + 1] == n_config()); }
    if in_backup(pkg_ebpf()) { assert(pkg_ebpf().subrange(0, b.len() as int)[e.len() as int + 1] == n_ebpf()); }
    assert(pkg_unit().len() == e.len() + 1);
    // backup slots are under the setup dir
    lemma_under_trans(e, b, bak_exe());
    lemma_under_trans(e, b, bak_config());
    lemma_under_trans(e, b, bak_ebpf());
    lemma_under_trans(e, b, bak_unit());
    lemma_push_ne(backup_pkg_dir(), n_exe(), n_config());
    lemma_push_ne(backup_pkg_dir(), n_exe(), n_ebpf());
    lemma_push_ne(backup_pkg_dir(), n_config(), n_ebpf());
    assert(bak_unit().len() == e.len() + 3 && bak_exe().len() == e.len() + 4 && bak_config().len() == e.len() + 4 && bak_ebpf().len() == e.len() + 4);
}

// ---- helper contracts (from the code): one file copied / deleted, failures logged and ignored --------------------
pub open spec fn copy_file_post(o: World, n: World, a: PathV, b: PathV) -> bool {
    &&& (o.fault ==> n.fault)
    &&& (!n.fault ==> n.fs =~= cp(o.fs, a, b))
    &&& (forall|p: PathV| p != b ==> #[trigger] at(n.fs, p) == at(o.fs, p))
    &&& quiet_ext(o.tr, n.tr)
    &&& (!is_sys(b) ==> neutral_ext(o.tr, n.tr))
}
pub open spec fn delete_file_post(o: World, n: World, p: PathV) -> bool {
    &&& (o.fault ==> n.fault)
    &&& (!n.fault ==> n.fs =~= rm(o.fs, p))
    &&& (forall|q: PathV| q != p ==> #[trigger] at(n.fs, q) == at(o.fs, q))
    &&& quiet_ext(o.tr, n.tr)
    &&& (!is_sys(p) ==> neutral_ext(o.tr, n.tr))
}

// a file directly inside a folder under the setup directory is not a system file
pub proof fn lemma_src_under(d: PathV)
    requires wf_layout(), is_under(exe_dir(), d)
    ensures forall|c: Seq<char>| !is_sys(#[trigger] d.push(c))
{
    assert forall|c: Seq<char>| !is_sys(#[trigger] d.push(c)) by { lemma_under_push(exe_dir(), d, c); }
}

// ---- helper contracts for the systemd wrappers (from the code) -----------------------------------------------------
pub proof fn lemma_verbs()
    ensures "stop"@.len() == 4, "start"@.len() == 5, "unmask"@.len() == 6, "enable"@.len() == 6, "disable"@.len() == 7,
            "daemon-reload"@.len() == 13, "systemctl"@.len() == 9,
            forall|v: Seq<char>| v.len() > 5 ==> !is_stop(#[trigger] systemctl(v)) && !is_start(systemctl(v)),
            !is_stop(Ev::Cmd("systemctl"@, seq!["daemon-reload"@])), !is_start(Ev::Cmd("systemctl"@, seq!["daemon-reload"@])),
{
    reveal_strlit("stop"); reveal_strlit("start"); reveal_strlit("unmask"); reveal_strlit("enable"); reveal_strlit("disable");
    reveal_strlit("daemon-reload"); reveal_strlit("systemctl");
    assert forall|v: Seq<char>| v.len() > 5 implies !is_stop(#[trigger] systemctl(v)) && !is_start(systemctl(v)) by {
        assert(systemctl(v)->Cmd_1[0] == v);
        assert(systemctl("stop"@)->Cmd_1[0] == "stop"@);
        assert(systemctl("start"@)->Cmd_1[0] == "start"@);
    }
    assert(seq!["daemon-reload"@].len() == 1);
    assert(systemctl("stop"@)->Cmd_1.len() == 2);
    assert(systemctl("start"@)->Cmd_1.len() == 2);
}
// systemctl unmask; daemon-reload; enable -- changes no file, neither stops nor starts the service
pub open spec fn enable_post(o: World, n: World, ok: bool) -> bool {
    &&& n.fs == o.fs
    &&& (o.fault ==> n.fault)
    &&& (!ok ==> n.fault)
    &&& quiet_ext(o.tr, n.tr)
    &&& (!n.fault ==> n.tr == o.tr.push(systemctl("unmask"@)).push(Ev::Cmd("systemctl"@, seq!["daemon-reload"@])).push(systemctl("enable"@)))
}
// (systemctl disable;) remove the unit file (; daemon-reload)
pub open spec fn remove_unit_post(o: World, n: World, ok: bool) -> bool {
    &&& (o.fault ==> n.fault)
    &&& (!ok ==> n.fault)
    &&& (!n.fault ==> n.fs =~= rm(o.fs, sys_unit()))
    &&& (forall|q: PathV| q != sys_unit() ==> #[trigger] at(n.fs, q) == at(o.fs, q))
    &&& quiet_ext(o.tr, n.tr)
}
pub open spec fn stop_and_delete_post(o: World, n: World, ok: bool) -> bool {
    &&& (o.fault ==> n.fault)
    &&& (!ok ==> n.fault)
    &&& (!n.fault ==> n.fs =~= rm(o.fs, sys_unit()))
    &&& (forall|q: PathV| q != sys_unit() ==> #[trigger] at(n.fs, q) == at(o.fs, q))
    &&& (!n.fault ==> quiet_ext(o.tr.push(systemctl("stop"@)), n.tr))
}

// main.rs setup_service (on return; it exits the process when a step fails): unit file placed, service enabled, then started
pub open spec fn setup_service_post(o: World, n: World, src: PathV) -> bool {
    &&& (o.fault ==> n.fault)
    &&& (!n.fault ==> n.fs =~= cp(o.fs, src, sys_unit()))
    &&& (forall|q: PathV| q != sys_unit() ==> #[trigger] at(n.fs, q) == at(o.fs, q))
    &&& (!n.fault ==> n.tr.len() > o.tr.len() && n.tr.last() == systemctl("start"@) && quiet_ext(o.tr, n.tr.drop_last()))
}
pub open spec fn delete_folder_post(o: World, n: World, d: PathV) -> bool {
    &&& (o.fault ==> n.fault)
    &&& (!n.fault ==> n.fs =~= rmtree(o.fs, d))
    &&& (forall|p: PathV| !is_under(d, p) ==> #[trigger] at(n.fs, p) == at(o.fs, p))
    &&& (forall|p: PathV| is_under(d, p) ==> #[trigger] at(n.fs, p) == at(o.fs, p) || at(n.fs, p) is None)
    &&& n.tr == o.tr.push(Ev::RemoveTree(d))
}

// ---- trace shapes of the commands that replace system files ---------------------------------------------------------
// `systemctl stop` first, then events that neither stop nor start the service, and `systemctl start` as the last event
pub open spec fn stop_work_start(o: Seq<Ev>, n: Seq<Ev>) -> bool {
    n.len() > o.len() + 1 && n.last() == systemctl("start"@) && quiet_ext(o.push(systemctl("stop"@)), n.drop_last())
}
// restore: the same, optionally followed by the removal of the backup folder
pub open spec fn restore_trace(o: Seq<Ev>, n: Seq<Ev>, delete_backup: bool) -> bool {
    if delete_backup { n.len() > 0 && n.last() == Ev::RemoveTree(backup_dir()) && stop_work_start(o, n.drop_last()) } else { stop_work_start(o, n) }
}
pub broadcast proof fn lemma_push_drop_last(s: Seq<Ev>, e: Ev)
    ensures #[trigger] s.push(e).drop_last() == s
{
    assert(s.push(e).drop_last() =~= s);
}
