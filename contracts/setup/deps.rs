// ---- external types -----------------------------------------------------------------------------------------------
#[verifier::external_type_specification]
#[verifier::external_body]
pub struct ExPathBuf(std::path::PathBuf);
#[verifier::external_type_specification]
#[verifier::external_body]
pub struct ExPath(std::path::Path);
#[verifier::external_type_specification]
#[verifier::external_body]
pub struct ExIoError(std::io::Error);

// ---- paths: the component view (assumed, from the documentation of std::path) --------------------------------
// `pv`/`pbv`: the components of a Path / PathBuf. Two paths with the same components name the same file
// (assumption: no symbolic links and no ".." among the locations the tool uses; the setup directory comes from
// std::env::current_exe, which is canonical on Linux).
pub uninterp spec fn pv(p: &std::path::Path) -> PathV;
pub uninterp spec fn pbv(p: std::path::PathBuf) -> PathV;
pub uninterp spec fn asref_pv<P>(p: P) -> PathV;          // the components of `p.as_ref(): &Path`
pub uninterp spec fn from_pv<T: ?Sized>(p: &T) -> PathV;  // the components of `PathBuf::from(p)`

pub assume_specification [<std::path::PathBuf as core::ops::Deref>::deref] (p: &std::path::PathBuf) -> (r: &std::path::Path)
    ensures pv(r) == pbv(*p);
pub assume_specification<'a, T: ?Sized + AsRef<std::ffi::OsStr>> [<std::path::PathBuf as From<&'a T>>::from] (s: &T) -> (r: std::path::PathBuf)
    ensures pbv(r) == from_pv::<T>(s);
pub assume_specification<P> [std::path::Path::join] (_0: &std::path::Path, _1: P) -> (r: std::path::PathBuf)
    where P: std::convert::AsRef<std::path::Path>,
    ensures pbv(r) == path_join(pv(_0), asref_pv::<P>(_1));
pub assume_specification [std::path::Path::parent] (_0: &std::path::Path) -> std::option::Option<&std::path::Path>;

#[verifier::external_body]
pub broadcast proof fn axiom_from_str(s: &str)
    ensures plain(s@) ==> #[trigger] from_pv::<str>(s) == parse_path(s@) {}
#[verifier::external_body]
pub broadcast proof fn axiom_asref_str(s: &str)
    ensures plain(s@) ==> #[trigger] asref_pv::<&str>(s) == parse_path(s@) {}
#[verifier::external_body]
pub broadcast proof fn axiom_asref_string_ref(s: &String)
    ensures plain(s@) ==> #[trigger] asref_pv::<&String>(s) == parse_path(s@) {}
#[verifier::external_body]
pub broadcast proof fn axiom_asref_string(s: String)
    ensures plain(s@) ==> #[trigger] asref_pv::<String>(s) == parse_path(s@) {}
#[verifier::external_body]
pub broadcast proof fn axiom_asref_pathbuf_ref(p: &std::path::PathBuf)
    ensures #[trigger] asref_pv::<&std::path::PathBuf>(p) == pbv(*p) {}
#[verifier::external_body]
pub broadcast proof fn axiom_asref_pathbuf(p: std::path::PathBuf)
    ensures #[trigger] asref_pv::<std::path::PathBuf>(p) == pbv(p) {}
#[verifier::external_body]
pub broadcast proof fn axiom_asref_path(p: &std::path::Path)
    ensures #[trigger] asref_pv::<&std::path::Path>(p) == pv(p) {}
pub broadcast group group_paths {
    axiom_from_str, axiom_asref_str, axiom_asref_string_ref, axiom_asref_string, axiom_asref_pathbuf_ref, axiom_asref_pathbuf, axiom_asref_path,
}

// ---- process / formatting -------------------------------------------------------------------------------------
// process::exit does not return
pub assume_specification [std::process::exit] (_0: i32) -> !;
// Debug of these std types does not panic (needed by format!("{:?}", ..)); the produced text is unconstrained
#[verifier::external_body]
pub broadcast proof fn axiom_fmt_pathbuf() ensures #[trigger] vstd::std_specs::fmt::fmt_req_all::<std::path::PathBuf>() {}
#[verifier::external_body]
pub broadcast proof fn axiom_fmt_path() ensures #[trigger] vstd::std_specs::fmt::fmt_req_all::<&std::path::Path>() {}
#[verifier::external_body]
pub broadcast proof fn axiom_fmt_ioerr() ensures #[trigger] vstd::std_specs::fmt::fmt_req_all::<std::io::Error>() {}
pub assume_specification [std::time::Duration::from_secs] (_0: u64) -> std::time::Duration;
