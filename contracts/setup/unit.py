# unit `setup` (C17): proxy_agent_setup (linux.rs, backup.rs, setup.rs, running.rs, main.rs helpers + command arms),
# proxy_agent_shared/src/service.rs + service/linux_service.rs.   Verified target: Linux (cfg(windows) items dropped, E2).
import os
HERE = os.path.dirname(os.path.abspath(__file__))
COMMON = os.path.join(os.path.dirname(HERE), "common")

ASSUMPTIONS = [
    "abstract file system: a path is its component sequence, equal components = same file (no symlinks / '..' among the tool's locations)",
    "std::fs::copy / remove_file / remove_dir_all / Path::exists behave as copy_post / remove_post / remove_tree_post / exists (spec.rs), written from the std documentation",
    "environment faults (I/O error on an existing source, systemctl cannot be spawned, folder cannot be created) set World.fault; positive clauses are stated for fault-free runs, frames hold unconditionally",
    "PathBuf::from / Path::join are component concatenation (parse_path / path_join)",
    "the tool's own log (logger::write, logger_manager::write_info) is outside the modelled file system",
    "misc_helpers::get_proxy_agent_version (runs `<agent> --version`) and try_create_folder do not change any file",
    "process::exit and panic! do not return: no claim is made for runs that end there",
]
FN_PROPS = {}

W = "Tracked(w): Tracked<&mut World>"
WA = "Tracked(w)"
BU = "broadcast use group_paths;\nbroadcast use group_fmt;\n"

# literals of the statement (system locations, folder and file names) and their components
LITS = [
    ("/etc/azure/proxy-agent.json", ["/", "etc", "azure", "proxy-agent.json"]),
    ("/usr/lib/azure-proxy-agent/ebpf_cgroup.o", ["/", "usr", "lib", "azure-proxy-agent", "ebpf_cgroup.o"]),
    ("/usr/sbin", ["/", "usr", "sbin"]),
    ("/usr/lib/systemd/system/", ["/", "usr", "lib", "systemd", "system"]),
    ("azure-proxy-agent", ["azure-proxy-agent"]),
    ("proxy-agent.json", ["proxy-agent.json"]),
    ("ebpf_cgroup.o", ["ebpf_cgroup.o"]),
    ("azure-proxy-agent.service", ["azure-proxy-agent.service"]),
    ("Backup", ["Backup"]),
    ("Package", ["Package"]),
    ("ProxyAgent", ["ProxyAgent"]),
]


def _chars(s):
    return "seq![" + ", ".join("'%s'" % c for c in s) + "]"


def lit_lemmas():
    """ghost text: for every literal of the statement, parse_path(lit) is the expected component list (by computation)"""
    out = []
    ens = []
    body = []
    names = set()
    for lit, comps in LITS:
        names.add(lit)
        for c in comps:
            if c != "/":
                names.add(c)
    for n in sorted(names):
        body.append('    reveal_strlit("%s"); assert("%s"@ =~= %s);' % (n, n, _chars(n)))
    for lit, comps in LITS:
        cs = ", ".join("root()" if c == "/" else '"%s"@' % c for c in comps)
        ens.append('        plain("%s"@) && parse_path("%s"@) == seq![%s],' % (lit, lit, cs))
        ccs = ", ".join(_chars(c) for c in comps)
        body.append("    assert(plain(%s) && parse_path(%s) == seq![%s]) by (compute);" % (_chars(lit), _chars(lit), ccs))
    return "pub proof fn lemma_lits()\n    ensures\n" + "\n".join(ens) + "\n{\n" + "\n".join(body) + "\n}\n"


def build(u):
    lx = u.src("proxy_agent_setup/src/linux.rs")
    bk = u.src("proxy_agent_setup/src/backup.rs")
    st = u.src("proxy_agent_setup/src/setup.rs")
    rn = u.src("proxy_agent_setup/src/running.rs")
    lg = u.src("proxy_agent_setup/src/logger.rs")
    er = u.src("proxy_agent_setup/src/error.rs")
    s_lx = u.src("proxy_agent_shared/src/linux.rs")
    s_mh = u.src("proxy_agent_shared/src/misc_helpers.rs")
    s_er = u.src("proxy_agent_shared/src/error.rs")
    for f in ("str_axioms.rs", "ext_types.rs", "std_string.rs"):
        u.raw(open(os.path.join(COMMON, f)).read())
    u.raw_file("spec.rs")
    u.raw_file("deps.rs")
    u.raw(lit_lemmas())
    u.raw_file("lemmas.rs")

    # ---------------- crate proxy_agent_shared (the parts the setup tool calls) ----------------
    with u.mod("proxy_agent_shared"):
        with u.mod("error"):
            u.take_ext(s_er, ["Error", "ParseVersionErrorType", "CommandErrorType"], "vx_ext_shared_error")
        with u.mod("result", uses="use super::error::Error;"):
            u.raw("pub type Result<T> = core::result::Result<T, Error>;")
        with u.mod("linux"):
            u.take(s_lx, "SERVICE_CONFIG_FOLDER_PATH", "const")
            u.take(s_lx, "EXE_FOLDER_PATH", "const")
        with u.mod("misc_helpers", uses="use super::result::Result;\nuse super::error::Error;\nuse std::path::{Path, PathBuf};"):
            u.take_fn(s_mh, "try_create_folder", external_body=True, ghost=W, contract="""
        ensures final(w).fs == old(w).fs, final(w).tr == old(w).tr, final(w).fault == (old(w).fault || r is Err),
""")
            u.take_fn(s_mh, "get_current_exe_dir", external_body=True, contract="""
        ensures pbv(r) == exe_dir(),
""")
            u.take_fn(s_mh, "get_proxy_agent_version", external_body=True)

    # ---------------- crate proxy_agent_setup ----------------
    with u.mod("error"):
        u.take_ext(er, ["Error"], "vx_ext_setup_error")
    with u.mod("result", uses="use crate::error::Error;"):
        u.raw("pub type Result<T> = core::result::Result<T, Error>;")
    with u.mod("logger"):
        u.take_fn(lg, "write", external_body=True, ret="")
    with u.mod("setup", uses="use proxy_agent_shared::misc_helpers;\nuse std::path::{Path, PathBuf};"):
        u.take_fn(st, "proxy_agent_folder_in_setup", pre_body=BU + "proof { lemma_lits(); }", contract="""
        ensures pbv(r) == pkg_dir(),  // @C17.proxy_agent_folder_in_setup.is_setup_dir_ProxyAgent
""")
        u.take_fn(st, "proxy_agent_exe_path", pre_body=BU + "proof { lemma_lits(); }", contract="""
        ensures pbv(r) == pv(proxy_agent_package_dir).push(n_exe()),  // @C17.proxy_agent_exe_path.appends_exe_name
""")
        u.take_fn(st, "proxy_agent_exe_in_setup", contract="""
        ensures pbv(r) == pkg_exe(),  // @C17.proxy_agent_exe_in_setup.is_packaged_exe
""")
    with u.mod("backup", uses="use crate::setup;\nuse std::path::PathBuf;"):
        u.take_fn(bk, "proxy_agent_backup_folder", pre_body=BU + "proof { lemma_lits(); }", contract="""
        ensures pbv(r) == backup_dir(),  // @C17.proxy_agent_backup_folder.is_ProxyAgent_Backup
""")
        u.take_fn(bk, "proxy_agent_backup_package_folder", pre_body=BU + "proof { lemma_lits(); }", contract="""
        ensures pbv(r) == backup_pkg_dir(),  // @C17.proxy_agent_backup_package_folder.is_Backup_Package
""")
    with u.mod("running", uses="use crate::logger;\nuse proxy_agent_shared::misc_helpers;\nuse std::path::{Path, PathBuf};"):
        u.take_fn(rn, "proxy_agent_running_folder", pre_body=BU + "proof { lemma_lits(); }", contract="""
        ensures pbv(r) == seq![root(), "usr"@, "sbin"@],  // @C17.proxy_agent_running_folder.is_usr_sbin
""")
        u.take_fn(rn, "proxy_agent_version_target_folder", pre_body=BU + "proof { lemma_lits(); }", contract="""
        ensures pbv(r) == seq![root(), "usr"@, "sbin"@],  // @C17.proxy_agent_version_target_folder.is_usr_sbin
""", e9=[("""panic!("Failed to get proxy agent version with error: {}", e)""", None, "e: &proxy_agent_shared::error::Error", "&e", "!", "", dict(name="vx_e9_panic_version"))])
        u.flush_e9()

    with u.mod("linux", uses="use crate::{backup, logger, result::Result, running};\nuse proxy_agent_shared::misc_helpers;\nuse std::{fs, path::PathBuf};"):
        for c in ("SERVICE_CONFIG_FILE_NAME", "CONFIG_FILE", "EBPF_FILE", "CONFIG_PATH", "EBPF_PATH"):
            u.take(lx, c, "const")
        copy_e9 = lambda anchor, a, b, nm, ret="std::io::Result<u64>", body=None: (
            anchor, None, "a: &PathBuf, b: &PathBuf, " + W, "%s, %s, %s" % (a, b, WA), ret, """
        requires pbv(*a) != pbv(*b),
        ensures copy_post(*old(w), *final(w), pbv(*a), pbv(*b), r is Ok),""", dict(name=nm, body=body or "fs::copy(a, b)"))
        u.take_fn(lx, "copy_file", ghost=W, ret="", pre_body=BU,
                  ghost_calls=[("misc_helpers::try_create_folder(", None, WA)],
                  e9=[copy_e9("fs::copy(&src_file, &dst_file)", "&src_file", "&dst_file", "vx_e9_fs_copy_file")],
                  contract="""
        requires pbv(src_file) != pbv(dst_file),
        ensures
            copy_file_post(*old(w), *final(w), pbv(src_file), pbv(dst_file)),
""")
        u.flush_e9()
