# unit `setup` (C17): proxy_agent_setup (linux.rs, backup.rs, setup.rs, running.rs, main.rs helpers + command arms),
# proxy_agent_shared/src/service.rs + service/linux_service.rs.   Verified target: Linux (cfg(windows) items dropped, E2).
import os
HERE = os.path.dirname(os.path.abspath(__file__))

ASSUMPTIONS = [
    "abstract file system: a path is its component sequence and equal components name the same file (no symbolic links / '..' among the tool's locations; the setup directory comes from std::env::current_exe); a key of the map is a regular file, directories are implicit",
    "std::fs::copy / remove_file / remove_dir_all / Path::exists behave as copy_post / remove_post / remove_tree_post / `exists == file present` of spec.rs (written from the std documentation; copy onto itself is excluded by a proved precondition)",
    "environment faults (I/O error although the source exists, systemctl cannot be spawned, a folder cannot be created) set World.fault: the positive clauses (what a command achieves, service order) are stated for fault-free runs, the frame clauses hold unconditionally",
    "PathBuf::from / Path::join / Deref are component parsing and concatenation (parse_path / path_join); format!(\"{}.service\", name) is name + \".service\" (E9 contracts)",
    "a spawned systemctl is an opaque event of the trace: systemd's own bookkeeping (enable/disable symlinks, unmask) is not counted as a file altered by the tool; a stop/start that was issued and returned counts as done (its exit status is ignored by the code)",
    "the tool's own log (logger::write, logger_manager::write_info) is outside the modelled file system",
    "misc_helpers::get_proxy_agent_version (runs `<agent> --version`) changes no file; try_create_folder creates directories only",
    "process::exit and panic! do not return: no claim is made for runs that end there (unit file cannot be copied, systemctl enable/start fails, version query of the packaged/backed-up agent fails)",
    "clap argument parsing, logger::init_logger and the banner line of main are not under contract (E5 drops them); the extension's driver (service_main.rs) is not covered",
]
FN_PROPS = {}

W = "Tracked(w): Tracked<&mut World>"
WA = "Tracked(w)"
BU = "broadcast use group_paths;\nbroadcast use group_fmt;\nbroadcast use lemma_join1;\n"

# literals of the statement (system locations, folder and file names) and their components
LITS = [
    ("/etc/azure/proxy-agent.json", ["/", "etc", "azure", "proxy-agent.json"], "sys_config()"),
    ("/usr/lib/azure-proxy-agent/ebpf_cgroup.o", ["/", "usr", "lib", "azure-proxy-agent", "ebpf_cgroup.o"], "sys_ebpf()"),
    ("/usr/sbin", ["/", "usr", "sbin"], "dir_sbin()"),
    ("/usr/lib/systemd/system/", ["/", "usr", "lib", "systemd", "system"], "dir_systemd()"),
    ("azure-proxy-agent", ["azure-proxy-agent"]),
    ("proxy-agent.json", ["proxy-agent.json"]),
    ("ebpf_cgroup.o", ["ebpf_cgroup.o"]),
    ("azure-proxy-agent.service", ["azure-proxy-agent.service"]),
    ("Backup", ["Backup"]),
    ("Package", ["Package"]),
    ("ProxyAgent", ["ProxyAgent"]),
]


def _chars(s):
    return "seq![" + ", ".join("'%s'" % c for c in s) + "]"


def lit_lemmas():
    """ghost text: for every literal of the statement, parse_path(lit) is the expected component list (by computation)"""
    out = []
    ens = []
    body = []
    names = set()
    for lit, comps, *_ in LITS:
        names.add(lit)
        for c in comps:
            if c != "/":
                names.add(c)
    for n in sorted(names):
        ens.append('        "%s"@.len() == %d,' % (n, len(n)))
        body.append('    reveal_strlit("%s"); assert("%s"@ =~= %s);' % (n, n, _chars(n)))
    for lit, comps, *nm in LITS:
        cs = ", ".join("root()" if c == "/" else '"%s"@' % c for c in comps)
        ens.append('        plain("%s"@) && parse_path("%s"@) == %s,' % (lit, lit, nm[0] if nm else "seq![%s]" % cs))
        ccs = ", ".join(_chars(c) for c in comps)
        body.append("    assert(plain(%s) && parse_path(%s) == seq![%s]) by (compute);" % (_chars(lit), _chars(lit), ccs))
    return "pub proof fn lemma_lits()\n    ensures\n" + "\n".join(ens) + "\n{\n" + "\n".join(body) + "\n}\n"



# every function that takes the ghost World (E4); a call of one of them inside a function under contract gets `Tracked(w)`
GHOSTED = {"copy_file", "delete_file", "backup_service_config_file", "copy_service_config_file", "linux::setup_service",
           "linux::copy_files", "linux::backup_files", "linux::delete_files", "misc_helpers::try_create_folder",
           "misc_helpers::execute_command", "unmask_service", "reload_systemd_daemon", "enable_service", "disable_service",
           "delete_service_config_file", "linux_service::install_or_update_service", "linux_service::stop_service",
           "linux_service::uninstall_service", "linux_service::start_service", "service::stop_service", "service::install_service",
           "service::start_service", "service::stop_and_delete_service", "stop_service", "setup_service", "copy_proxy_agent",
           "backup_proxy_agent", "restore_proxy_agent", "check_backup_exists", "uninstall_service", "delete_package",
           "delete_folder", "delete_backup_folder"}


def GC(sf, fnpath, lo=None, hi=None):
    """E4 call sites, computed from the index: every path call of a GHOSTED callee inside the function (or slice range)."""
    it = sf.item(fnpath, "fn")
    if lo is None:
        lo, hi = it["body"][0] + 1, it["body"][1] - 1
    import re
    dropped = []   # statements under cfg(windows): removed by E2, calls inside them do not exist on the linux target
    for b in it["blocks"]:
        for st in b["stmts"]:
            if re.match(r"\s*#\[cfg\(\s*windows\s*\)\]", sf.s(st[0], st[1])):
                dropped.append(st)
    out = []
    for c in sorted(it["calls"], key=lambda c: c["span"][0]):
        if c["kind"] != "path" or not (lo <= c["span"][0] and c["span"][1] <= hi):
            continue
        if any(d[0] <= c["span"][0] and c["span"][1] <= d[1] for d in dropped):
            continue
        if c["callee"].replace(" ", "") not in GHOSTED:
            continue
        # vxlib matches a ghost-call anchor against callee names (name == anchor, or name ends with "::anchor" / ".anchor"),
        # ordinal = position among the matching calls of the range in source order
        name = c["callee"].replace(" ", "")
        same = sorted([d for d in it["calls"] if lo <= d["span"][0] and d["span"][1] <= hi and
                       (d["callee"].replace(" ", "") == name or d["callee"].replace(" ", "").endswith("::" + name)
                        or d["callee"].replace(" ", "").endswith("." + name))], key=lambda d: d["callee_span"][0])
        out.append((name, same.index(c), WA))
    return out


def call_e9(sf, fnpath, callee, nth, params, ret, contract, name, body):
    """E9 on the nth call of `callee` inside fn: anchor and argument texts are taken from the index (verbatim source)"""
    from vxlib import Undecided
    it = sf.item(fnpath, "fn")
    cs = [c for c in it["calls"] if c.get("callee", "").replace(" ", "") == callee]
    if len(cs) <= nth:
        raise Undecided("%s: call #%d of %s not found" % (fnpath, nth, callee))
    c = cs[nth]
    args = ", ".join(sf.s(a[0], a[1]) for a in c["args"])
    return (sf.s(c["span"][0], c["span"][1]), None, params + ", " + W, args + ", " + WA, ret, contract, dict(name=name, body=body))


def build(u):
    lx = u.src("proxy_agent_setup/src/linux.rs")
    bk = u.src("proxy_agent_setup/src/backup.rs")
    st = u.src("proxy_agent_setup/src/setup.rs")
    rn = u.src("proxy_agent_setup/src/running.rs")
    lg = u.src("proxy_agent_setup/src/logger.rs")
    er = u.src("proxy_agent_setup/src/error.rs")
    s_lx = u.src("proxy_agent_shared/src/linux.rs")
    s_mh = u.src("proxy_agent_shared/src/misc_helpers.rs")
    s_er = u.src("proxy_agent_shared/src/error.rs")
    s_lm = u.src("proxy_agent_shared/src/logger/logger_manager.rs")
    s_sv = u.src("proxy_agent_shared/src/service.rs")
    s_ls = u.src("proxy_agent_shared/src/service/linux_service.rs")
    u.raw_file("spec.rs")
    u.raw_file("deps.rs")
    u.raw(lit_lemmas())
    u.raw_file("lemmas.rs")

    # ---------------- crate proxy_agent_shared (the parts the setup tool calls) ----------------
    with u.mod("proxy_agent_shared"):
        with u.mod("error"):
            u.take_ext(s_er, ["Error", "ParseVersionErrorType", "CommandErrorType"], "vx_ext_shared_error")
        with u.mod("result", uses="use super::error::Error;"):
            u.raw("pub type Result<T> = core::result::Result<T, Error>;")
        with u.mod("linux"):
            u.take(s_lx, "SERVICE_CONFIG_FOLDER_PATH", "const")
            u.take(s_lx, "EXE_FOLDER_PATH", "const")
        with u.mod("misc_helpers", uses="use super::result::Result;\nuse super::error::Error;\nuse std::path::{Path, PathBuf};"):
            u.take_fn(s_mh, "try_create_folder", external_body=True, ghost=W, contract="""
        ensures final(w).fs == old(w).fs, final(w).tr == old(w).tr, final(w).fault == (old(w).fault || r is Err),
""")
            u.take_fn(s_mh, "get_current_exe_dir", external_body=True, contract="""
        ensures pbv(r) == exe_dir(),
""")
            u.take_fn(s_mh, "get_proxy_agent_version", external_body=True)
            u.take_fn(s_mh, "path_to_string", external_body=True)
            u.take(s_mh, "CommandOutput", "struct")
            with u.impl_(s_mh, "CommandOutput"):
                u.take_fn(s_mh, "CommandOutput::message", external_body=True)
            u.take_fn(s_mh, "execute_command", external_body=True, ghost=W, contract="""
        ensures cmd_post(*old(w), *final(w), program@, strs_view(args@), r is Ok),
""")
        with u.mod("logger"):
            with u.mod("logger_manager"):
                u.take_fn(s_lm, "write_info", external_body=True, ret="")
        with u.mod("service", uses="use std::path::PathBuf;\nuse crate::proxy_agent_shared::result::Result;"):
            with u.mod("linux_service", uses="use crate::proxy_agent_shared::linux;\nuse crate::proxy_agent_shared::logger::logger_manager;\nuse crate::proxy_agent_shared::misc_helpers;\nuse crate::proxy_agent_shared::result::Result;\nuse std::fs;\nuse std::path::PathBuf;"):
                NAME = "service_name@ == n_exe()"
                CMD1 = """
        requires %s,
        ensures cmd_post(*old(w), *final(w), "systemctl"@, seq!["%%s"@, n_exe()], r is Ok),  // @C17.%%s.issues_systemctl_%%s
""" % NAME
                PB = BU + "broadcast use lemma_strs1, lemma_strs2;\nproof { lemma_lits(); lemma_names(); lemma_verbs(); }"
                for fn, verb in (("stop_service", "stop"), ("start_service", "start"), ("unmask_service", "unmask"),
                                 ("disable_service", "disable"), ("enable_service", "enable")):
                    u.take_fn(s_ls, fn, ghost=W, ghost_calls=GC(s_ls, fn), pre_body=PB, contract=CMD1 % (verb, fn, verb))
                u.take_fn(s_ls, "reload_systemd_daemon", ghost=W, ghost_calls=GC(s_ls, "reload_systemd_daemon"), pre_body=PB, contract="""
        ensures cmd_post(*old(w), *final(w), "systemctl"@, seq!["daemon-reload"@], r is Ok),
""")
                u.take_fn(s_ls, "install_or_update_service", ghost=W, pre_body=PB,
                          ghost_calls=GC(s_ls, "install_or_update_service"),
                          contract="""
        requires %s,
        ensures enable_post(*old(w), *final(w), r is Ok),
""" % NAME)
                u.take_fn(s_ls, "delete_service_config_file", ghost=W, pre_body=PB,
                          ghost_calls=GC(s_ls, "delete_service_config_file"),
                          e9=[("""format!("{}.service", service_name)""", None, "service_name: &str", "service_name", "String",
                               """        ensures r@ == service_name@ + ".service"@,""", dict(name="vx_e9_format_unit_name2")),
                              call_e9(s_ls, "delete_service_config_file", "fs::remove_file", 0, "a: &PathBuf", "std::io::Result<()>", """
        ensures remove_post(*old(w), *final(w), asref_pv(a), r is Ok),""", "vx_e9_fs_remove_unit", "fs::remove_file(a)")],
                          contract="""
        requires %s,
        ensures remove_unit_post(*old(w), *final(w), r is Ok),
""" % NAME)
                u.take_fn(s_ls, "uninstall_service", ghost=W, pre_body=PB,
                          ghost_calls=GC(s_ls, "uninstall_service"),
                          contract="""
        requires %s,
        ensures remove_unit_post(*old(w), *final(w), r is Ok),
""" % NAME)
                u.flush_e9()
            u.take_fn(s_sv, "install_service", ghost=W, ghost_calls=GC(s_sv, "install_service"), contract="""
        requires %s,
        ensures enable_post(*old(w), *final(w), r is Ok),
""" % NAME)
            u.take_fn(s_sv, "stop_and_delete_service", ghost=W, pre_body="proof { lemma_names(); lemma_verbs(); }",
                      ghost_calls=GC(s_sv, "stop_and_delete_service"), contract="""
        requires %s,
        ensures stop_and_delete_post(*old(w), *final(w), r is Ok),
""" % NAME)
            u.take_fn(s_sv, "start_service", ghost=W, ghost_calls=GC(s_sv, "start_service"), contract=CMD1 % ("start", "service.start_service", "start"))
            u.take_fn(s_sv, "stop_service", ghost=W, ghost_calls=GC(s_sv, "stop_service"), contract=CMD1 % ("stop", "service.stop_service", "stop"))

    u.raw("""
#[verifier::external_body]
pub broadcast proof fn axiom_fmt_shared_error() ensures #[trigger] vstd::std_specs::fmt::fmt_req_all::<proxy_agent_shared::error::Error>() {}
#[verifier::external_body]
pub broadcast proof fn axiom_fmt_setup_error() ensures #[trigger] vstd::std_specs::fmt::fmt_req_all::<crate::error::Error>() {}
pub broadcast group group_fmt { axiom_fmt_pathbuf, axiom_fmt_path, axiom_fmt_ioerr, axiom_fmt_shared_error, axiom_fmt_setup_error }
""")
    # ---------------- crate proxy_agent_setup ----------------
    with u.mod("error"):
        u.take_ext(er, ["Error"], "vx_ext_setup_error")
    with u.mod("result", uses="use crate::error::Error;"):
        u.raw("pub type Result<T> = core::result::Result<T, Error>;")
    with u.mod("logger"):
        u.take_fn(lg, "write", external_body=True, ret="")
    with u.mod("setup", uses="use proxy_agent_shared::misc_helpers;\nuse std::path::{Path, PathBuf};"):
        u.take_fn(st, "proxy_agent_folder_in_setup", pre_body=BU + "proof { lemma_lits(); }", contract="""
        ensures pbv(r) == pkg_dir(),  // @C17.proxy_agent_folder_in_setup.is_setup_dir_ProxyAgent
""")
        u.take_fn(st, "proxy_agent_exe_path", pre_body=BU + "proof { lemma_lits(); }", contract="""
        ensures pbv(r) == pv(proxy_agent_package_dir).push(n_exe()),  // @C17.proxy_agent_exe_path.appends_exe_name
""")
        u.take_fn(st, "proxy_agent_exe_in_setup", contract="""
        ensures pbv(r) == pkg_exe(),  // @C17.proxy_agent_exe_in_setup.is_packaged_exe
""")
    with u.mod("backup", uses="use crate::setup;\nuse std::path::PathBuf;"):
        u.take_fn(bk, "proxy_agent_backup_folder", pre_body=BU + "proof { lemma_lits(); }", contract="""
        ensures pbv(r) == backup_dir(),  // @C17.proxy_agent_backup_folder.is_ProxyAgent_Backup
""")
        u.take_fn(bk, "proxy_agent_backup_package_folder", pre_body=BU + "proof { lemma_lits(); }", contract="""
        ensures pbv(r) == backup_pkg_dir(),  // @C17.proxy_agent_backup_package_folder.is_Backup_Package
""")
    with u.mod("running", uses="use crate::logger;\nuse proxy_agent_shared::misc_helpers;\nuse std::path::{Path, PathBuf};"):
        u.take_fn(rn, "proxy_agent_running_folder", pre_body=BU + "proof { lemma_lits(); }", contract="""
        ensures pbv(r) == dir_sbin(),  // @C17.proxy_agent_running_folder.is_usr_sbin
""")
        u.take_fn(rn, "proxy_agent_version_target_folder", pre_body=BU + "proof { lemma_lits(); }", contract="""
        ensures pbv(r) == dir_sbin(),  // @C17.proxy_agent_version_target_folder.is_usr_sbin
""", e9=[("""panic!("Failed to get proxy agent version with error: {}", e)""", None, "e: &proxy_agent_shared::error::Error", "&e", "!", "", dict(name="vx_e9_panic_version"))])
        u.flush_e9()

    with u.mod("linux", uses="use crate::{backup, logger, result::Result, running};\nuse proxy_agent_shared::misc_helpers;\nuse std::{fs, path::PathBuf};"):
        for c in ("SERVICE_CONFIG_FILE_NAME", "CONFIG_FILE", "EBPF_FILE", "CONFIG_PATH", "EBPF_PATH"):
            u.take(lx, c, "const")
        COPY_C = """
        requires asref_pv(a) != asref_pv(b),
        ensures copy_post(*old(w), *final(w), asref_pv(a), asref_pv(b), r is Ok),"""
        u.take_fn(lx, "copy_file", ghost=W, ret="", pre_body=BU,
                  ghost_calls=GC(lx, "copy_file"),
                  e9=[call_e9(lx, "copy_file", "fs::copy", 0, "a: &PathBuf, b: &PathBuf", "std::io::Result<u64>", COPY_C, "vx_e9_fs_copy_file", "fs::copy(a, b)")],
                  contract="""
        requires pbv(src_file) != pbv(dst_file),
        ensures
            copy_file_post(*old(w), *final(w), pbv(src_file), pbv(dst_file)),
""")
        u.take_fn(lx, "delete_file", ghost=W, ret="", pre_body=BU,
                  e9=[call_e9(lx, "delete_file", "fs::remove_file", 0, "a: &PathBuf", "std::io::Result<()>", """
        ensures remove_post(*old(w), *final(w), asref_pv(a), r is Ok),""", "vx_e9_fs_remove_file", "fs::remove_file(a)")],
                  contract="""
        ensures
            delete_file_post(*old(w), *final(w), pbv(file_to_be_delete)),
""")
        u.take_fn(lx, "backup_service_config_file", ghost=W, ret="", pre_body=BU + "proof { lemma_lits(); }",
                  e9=[call_e9(lx, "backup_service_config_file", "fs::copy", 0, "a: PathBuf, b: &PathBuf", "std::io::Result<u64>", COPY_C, "vx_e9_fs_copy_backup_unit", "fs::copy(a, b)")],
                  contract="""
        requires pbv(backup_folder).push(n_unit()) != sys_unit(),
        ensures
            copy_file_post(*old(w), *final(w), sys_unit(), pbv(backup_folder).push(n_unit())),
""")
        UNIT_C = """
        requires service_name@ == n_exe(), pbv(service_file_dir).push(n_unit()) != sys_unit(),
        ensures copy_post(*old(w), *final(w), pbv(service_file_dir).push(n_unit()), sys_unit(), r is Ok),
"""
        u.take_fn(lx, "copy_service_config_file", ghost=W, pre_body=BU + "proof { lemma_lits(); lemma_names(); }",
                  e9=[("""format!("{}.service", service_name)""", None, "service_name: &str", "service_name", "String",
                       """        ensures r@ == service_name@ + ".service"@,""", dict(name="vx_e9_format_unit_name")),
                      ("fs::copy(src_config_file_path, dst_config_file_path).map_err(Into::into)", None, "a: PathBuf, b: PathBuf, " + W,
                       "src_config_file_path, dst_config_file_path, " + WA, "Result<u64>", COPY_C,
                       dict(name="vx_e9_fs_copy_unit", body="fs::copy(a, b).map_err(Into::into)"))],
                  contract=UNIT_C)
        u.take_fn(lx, "setup_service", ghost=W, ghost_calls=GC(lx, "setup_service"), contract=UNIT_C)
        u.take_fn(lx, "backup_files", ghost=W, ret="", pre_body=BU + "proof { lemma_lits(); lemma_layout(); }",
                  ghost_calls=GC(lx, "backup_files"),
                  contract="""
        requires wf_layout(),
        ensures
            old(w).fault ==> final(w).fault,
            !final(w).fault ==> final(w).fs =~= backup_op(old(w).fs),  // @C17.backup_files.backup_slots_hold_system_files
            forall|p: PathV| !is_bak_slot(p) ==> #[trigger] at(final(w).fs, p) == at(old(w).fs, p),  // @C17.backup_files.nothing_else_changes
            neutral_ext(old(w).tr, final(w).tr),  // @C17.backup_files.service_and_system_files_untouched
""")
        u.take_fn(lx, "copy_files", ghost=W, ret="", pre_body=BU + "proof { lemma_lits(); lemma_layout(); lemma_src_under(pbv(src_folder)); }",
                  ghost_calls=GC(lx, "copy_files"),
                  contract="""
        requires wf_layout(), is_under(exe_dir(), pbv(src_folder)),
        ensures
            old(w).fault ==> final(w).fault,
            !final(w).fault ==> final(w).fs =~= place3(old(w).fs, pbv(src_folder)),  // @C17.copy_files.places_exactly_the_three_files
            forall|p: PathV| !is_sys(p) ==> #[trigger] at(final(w).fs, p) == at(old(w).fs, p),  // @C17.copy_files.only_system_locations_change
            quiet_ext(old(w).tr, final(w).tr),  // @C17.copy_files.no_stop_or_start
""")
        u.take_fn(lx, "delete_files", ghost=W, ret="", pre_body=BU + "proof { lemma_lits(); lemma_names(); }",
                  ghost_calls=GC(lx, "delete_files"),
                  contract="""
        ensures
            old(w).fault ==> final(w).fault,
            !final(w).fault ==> final(w).fs =~= rm(rm(rm(old(w).fs, sys_exe()), sys_config()), sys_ebpf()),  // @C17.delete_files.removes_the_installed_files
            forall|p: PathV| !is_sys(p) ==> #[trigger] at(final(w).fs, p) == at(old(w).fs, p),  // @C17.delete_files.only_system_locations_change
            quiet_ext(old(w).tr, final(w).tr),  // @C17.delete_files.no_stop_or_start
""")
        u.flush_e9()

    # ---------------- main.rs: helper fns and the five command arms (E5b slices), at the crate root ----------------
    mn = u.src("proxy_agent_setup/src/main.rs")
    ar = u.src("proxy_agent_setup/src/args.rs")
    with u.mod("args"):
        u.take(ar, "UninstallMode", "enum", structural=True)
    u.raw("use proxy_agent_shared::misc_helpers;\nuse proxy_agent_shared::service;\nuse std::process;\nuse std::time::Duration;\nuse std::{fs, path::PathBuf};")
    u.take(mn, "SERVICE_DISPLAY_NAME", "const")
    u.take(mn, "SERVICE_NAME", "const")
    PBM = BU + "proof { lemma_lits(); lemma_names(); lemma_verbs(); lemma_layout(); }"
    PBN = BU + "proof { lemma_lits(); lemma_names(); lemma_verbs(); }"
    u.take_fn(mn, "copy_proxy_agent", ghost=W, pre_body=PBM, ghost_calls=GC(mn, "copy_proxy_agent"), contract="""
        requires wf_layout(),
        ensures
            pbv(r) == dir_sbin(),
            old(w).fault ==> final(w).fault,
            !final(w).fault ==> final(w).fs =~= place3(old(w).fs, pkg_dir()),  // @C17.copy_proxy_agent.places_the_packaged_files
            forall|p: PathV| !is_sys(p) ==> #[trigger] at(final(w).fs, p) == at(old(w).fs, p),  // @C17.copy_proxy_agent.only_system_locations_change
            quiet_ext(old(w).tr, final(w).tr),
""")
    u.take_fn(mn, "backup_proxy_agent", ghost=W, ret="", pre_body=PBM, ghost_calls=GC(mn, "backup_proxy_agent"), contract="""
        requires wf_layout(),
        ensures
            old(w).fault ==> final(w).fault,
            !final(w).fault ==> final(w).fs =~= backup_op(old(w).fs),  // @C17.backup_proxy_agent.backup_slots_hold_system_files
            forall|p: PathV| !is_bak_slot(p) ==> #[trigger] at(final(w).fs, p) == at(old(w).fs, p),  // @C17.backup_proxy_agent.nothing_else_changes
            neutral_ext(old(w).tr, final(w).tr),
""")
    u.take_fn(mn, "restore_proxy_agent", ghost=W, pre_body=PBM, ghost_calls=GC(mn, "restore_proxy_agent"), contract="""
        requires wf_layout(),
        ensures
            pbv(r) == dir_sbin(),
            old(w).fault ==> final(w).fault,
            !final(w).fault ==> final(w).fs =~= place3(old(w).fs, backup_pkg_dir()),  // @C17.restore_proxy_agent.restores_from_Backup_Package
            forall|p: PathV| !is_sys(p) ==> #[trigger] at(final(w).fs, p) == at(old(w).fs, p),  // @C17.restore_proxy_agent.only_system_locations_change
            quiet_ext(old(w).tr, final(w).tr),
""")
    u.take_fn(mn, "stop_service", ghost=W, ret="", pre_body=PBN, ghost_calls=GC(mn, "stop_service"), contract="""
        ensures
            final(w).fs == old(w).fs,
            old(w).fault ==> final(w).fault,
            !final(w).fault ==> final(w).tr == old(w).tr.push(systemctl("stop"@)),  // @C17.stop_service.stop_issued
""")
    u.take_fn(mn, "setup_service", ghost=W, ret="", pre_body=PBN,
              ghost_calls=GC(mn, "setup_service"), contract="""
        requires pbv(_service_config_folder_path).push(n_unit()) != sys_unit(),
        ensures setup_service_post(*old(w), *final(w), pbv(_service_config_folder_path).push(n_unit())),
""")
    u.take_fn(mn, "check_backup_exists", ghost=W, pre_body=PBN,
              e9=[("proxy_agent_exe.exists()", None, "p: &PathBuf, " + W, "&proxy_agent_exe, " + WA, "bool", """
        ensures *final(w) == *old(w), r == old(w).fs.dom().contains(pbv(*p)),""", dict(name="vx_e9_path_exists", body="p.exists()"))],
              contract="""
        ensures *final(w) == *old(w), r == old(w).fs.dom().contains(bak_exe()),  // @C17.check_backup_exists.looks_at_the_backed_up_executable
""")
    u.take_fn(mn, "uninstall_service", ghost=W, pre_body=PBN, ghost_calls=GC(mn, "uninstall_service"), contract="""
        ensures stop_and_delete_post(*old(w), *final(w), true),
""")
    u.take_fn(mn, "delete_package", ghost=W, ret="", pre_body=PBN, ghost_calls=GC(mn, "delete_package"), contract="""
        ensures
            old(w).fault ==> final(w).fault,
            !final(w).fault ==> final(w).fs =~= rm(rm(rm(old(w).fs, sys_exe()), sys_config()), sys_ebpf()),  // @C17.delete_package.removes_the_installed_files
            forall|p: PathV| !is_sys(p) ==> #[trigger] at(final(w).fs, p) == at(old(w).fs, p),
            quiet_ext(old(w).tr, final(w).tr),
""")
    u.take_fn(mn, "delete_folder", ghost=W, ret="", pre_body=PBN,
              e9=[call_e9(mn, "delete_folder", "fs::remove_dir_all", 0, "a: &PathBuf", "std::io::Result<()>", """
        ensures remove_tree_post(*old(w), *final(w), asref_pv(a), r is Ok),""", "vx_e9_fs_remove_dir_all", "fs::remove_dir_all(a)")],
              contract="""
        ensures delete_folder_post(*old(w), *final(w), pbv(folder_to_be_delete)),
""")
    u.take_fn(mn, "delete_backup_folder", ghost=W, ret="", pre_body=PBN, ghost_calls=GC(mn, "delete_backup_folder"), contract="""
        ensures delete_folder_post(*old(w), *final(w), backup_dir()),  // @C17.delete_backup_folder.removes_the_backup_folder
""")
    u.flush_e9()

    # the five arms of `match cli.command` in main (E5b): each arm's block becomes the body of a generated async fn;
    # free variables of the arm (the pattern's bindings) become parameters. Dropped by E5: logger::init_logger(),
    # Cli::parse() and the banner line that precede the match.
    from vxlib import Undecided
    it = mn.item("main", "fn")
    if len(it["matches"]) != 1:
        raise Undecided("main: expected exactly one match, found %d" % len(it["matches"]))
    m = it["matches"][0]
    if mn.s(*m["scrutinee"]).replace(" ", "") != "cli.command":
        raise Undecided("main: the match is no longer on cli.command")
    arms = {}
    for a in m["arms"]:
        pat = mn.s(*a["pat"])
        for k in ("Backup", "Restore", "Uninstall", "Purge", "Install"):
            if pat.replace(" ", "").startswith("args::Command::" + k):
                arms[k] = a
    if len(arms) != 5 or len(m["arms"]) != 5:
        raise Undecided("main: expected the five command arms, found %s" % sorted(arms))
    PBA = BU + "broadcast use lemma_push_drop_last;\nproof { lemma_lits(); lemma_names(); lemma_verbs(); lemma_layout(); }\n"

    def arm(k, name, params, contract):
        a = arms[k]
        u.slice_fn(mn, "main", name, a["body"][0], a["body"][1], (params + ", " if params else "") + W, contract=contract, is_async=True,
                   pre_body=PBA, ghost_calls=GC(mn, "main", a["body"][0], a["body"][1]), what="(arm %s of match cli.command)" % mn.s(*a["pat"]))

    arm("Backup", "vx_arm_backup", "", """
        requires wf_layout(),
        ensures
            old(w).fault ==> final(w).fault,
            !final(w).fault ==> final(w).fs =~= backup_op(old(w).fs),  // @C17.backup.backup_slots_hold_system_files
            forall|p: PathV| !is_bak_slot(p) ==> #[trigger] at(final(w).fs, p) == at(old(w).fs, p),  // @C17.backup.nothing_else_changes
            neutral_ext(old(w).tr, final(w).tr),  // @C17.backup.service_and_system_files_untouched
            step_ok(Cmd::Backup, *old(w), *final(w)),  // @C17.backup.refines_command_step
""")
    arm("Restore", "vx_arm_restore", "delete_backup: bool", """
        requires wf_layout(),
        ensures
            old(w).fault ==> final(w).fault,
            no_backup(old(w).fs) ==> *final(w) == *old(w),  // @C17.restore.without_backup_changes_nothing
            !old(w).fs.dom().contains(bak_exe()) ==> *final(w) == *old(w),  // @C17.restore.without_backed_up_executable_changes_nothing
            !final(w).fault ==> final(w).fs =~= restore_op(old(w).fs, delete_backup),  // @C17.restore.puts_back_the_saved_files
            forall|p: PathV| !is_sys(p) && !(delete_backup && in_backup(p)) ==> #[trigger] at(final(w).fs, p) == at(old(w).fs, p),  // @C17.restore.changes_only_system_locations_and_backup
            !final(w).fault && old(w).fs.dom().contains(bak_exe()) ==> restore_trace(old(w).tr, final(w).tr, delete_backup),  // @C17.restore.stopped_before_first_write_started_after_last
            step_ok(Cmd::Restore { delete_backup }, *old(w), *final(w)),  // @C17.restore.refines_command_step
""")
    arm("Uninstall", "vx_arm_uninstall", "uninstall_mode: args::UninstallMode", """
        requires wf_layout(),
        ensures
            old(w).fault ==> final(w).fault,
            !final(w).fault ==> final(w).fs =~= uninstall_op(old(w).fs, uninstall_mode == args::UninstallMode::Package),  // @C17.uninstall.package_mode_removes_the_installed_files
            forall|p: PathV| !is_sys(p) ==> #[trigger] at(final(w).fs, p) == at(old(w).fs, p),  // @C17.uninstall.only_system_locations_change
            !final(w).fault ==> quiet_ext(old(w).tr.push(systemctl("stop"@)), final(w).tr),  // @C17.uninstall.stopped_before_removal
            step_ok(Cmd::Uninstall { package: uninstall_mode == args::UninstallMode::Package }, *old(w), *final(w)),  // @C17.uninstall.refines_command_step
""")
    arm("Purge", "vx_arm_purge", "", """
        requires wf_layout(),
        ensures
            old(w).fault ==> final(w).fault,
            !final(w).fault ==> final(w).fs =~= purge_op(old(w).fs),  // @C17.purge.removes_the_backup
            forall|p: PathV| !in_backup(p) ==> #[trigger] at(final(w).fs, p) == at(old(w).fs, p),  // @C17.purge.removes_only_the_backup
            final(w).tr == old(w).tr.push(Ev::RemoveTree(backup_dir())),  // @C17.purge.service_and_system_files_untouched
            step_ok(Cmd::Purge, *old(w), *final(w)),  // @C17.purge.refines_command_step
""")
    arm("Install", "vx_arm_install", "", """
        requires wf_layout(),
        ensures
            old(w).fault ==> final(w).fault,
            !final(w).fault ==> final(w).fs =~= install_op(old(w).fs),  // @C17.install.places_exactly_the_packaged_files
            forall|p: PathV| !is_sys(p) ==> #[trigger] at(final(w).fs, p) == at(old(w).fs, p),  // @C17.install.only_system_locations_change
            !final(w).fault ==> stop_work_start(old(w).tr, final(w).tr),  // @C17.install.stopped_before_first_write_started_after_last
            step_ok(Cmd::Install, *old(w), *final(w)),  // @C17.install.refines_command_step
""")
