// assumed specifications used by the handler unit (beyond contracts/common/http.rs)
#[verifier::external_type_specification] #[verifier::external_body]
pub struct ExIpv4Addr(std::net::Ipv4Addr);
#[verifier::external_type_specification] #[verifier::external_body]
pub struct ExSocketAddr(std::net::SocketAddr);
#[verifier::external_type_specification] #[verifier::external_body]
pub struct ExInstant(std::time::Instant);
#[verifier::external_type_specification] #[verifier::external_body] #[verifier::reject_recursive_types(T)]
pub struct ExTokioMutex<T: ?Sized>(tokio::sync::Mutex<T>);
#[verifier::external_type_specification] #[verifier::external_body]
pub struct ExCancellationToken(tokio_util::sync::CancellationToken);

// vocabulary fixed in other units (uninterpreted here)
pub uninterp spec fn skip_spec(m: http::Method, u: http::Uri) -> bool;                      // hyper_client::should_skip_sig (unit sign)
pub uninterp spec fn sig_input_spec(m: http::Method, u: http::Uri, h: http::HeaderMap, body: Seq<u8>) -> Seq<u8>;  // canonical string (unit sign)
pub uninterp spec fn mac_spec(key: Seq<char>, input: Seq<u8>) -> Seq<char>;                 // hex(HMAC-SHA256(unhex(key), input))
pub uninterp spec fn is_current_date(s: Seq<char>) -> bool;                                 // produced by get_date_time_rfc1123_string in this call
pub uninterp spec fn body_is_empty(b: http_body_util::combinators::BoxBody<hyper::body::Bytes, hyper::Error>) -> bool;

// ---- core::str ----
pub uninterp spec fn pat_view<P>(p: P) -> Seq<char>;
#[verifier::external_body]
pub broadcast proof fn axiom_pat_view_str(p: &str) ensures #[trigger] pat_view::<&str>(p) == p@ {}
pub assume_specification<P: core::str::pattern::Pattern> [str::contains::<P>] (s: &str, p: P) -> (r: bool)
    ensures r == contains_sub(s@, pat_view(p));
pub assume_specification [http::Uri::path] (u: &http::Uri) -> (r: &str)
    ensures r@ == uri_path(*u);
#[verifier::external_body] pub broadcast proof fn axiom_fmt_error() ensures #[trigger] vstd::std_specs::fmt::fmt_req_all::<crate::common::error::Error>() {}
#[verifier::external_body] pub broadcast proof fn axiom_fmt_serde_error() ensures #[trigger] vstd::std_specs::fmt::fmt_req_all::<serde_json::Error>() {}
#[verifier::external_type_specification] #[verifier::external_body]
pub struct ExIpAddr(std::net::IpAddr);
#[verifier::external_type_specification] #[verifier::external_body]
pub struct ExSerdeJsonError(serde_json::Error);
pub assume_specification [std::time::Instant::elapsed] (i: &std::time::Instant) -> std::time::Duration;
pub assume_specification [std::time::Duration::as_millis] (d: &std::time::Duration) -> u128;
pub assume_specification [std::net::SocketAddr::ip] (a: &std::net::SocketAddr) -> std::net::IpAddr;
pub assume_specification [std::net::SocketAddr::port] (a: &std::net::SocketAddr) -> u16;
pub assume_specification<T: ?Sized + serde::Serialize> [serde_json::to_string] (v: &T) -> std::result::Result<std::string::String, serde_json::Error>;
#[verifier::external_body] pub broadcast proof fn axiom_fmt_ipaddr() ensures #[trigger] vstd::std_specs::fmt::fmt_req_all::<std::net::IpAddr>() {}
#[verifier::external_body]
pub broadcast proof fn axiom_to_string_status(t: &http::StatusCode, s: String)
    ensures #[trigger] vstd::string::to_string_from_display_ensures::<http::StatusCode>(t, s) <==> s@ == status_text(*t) {}
pub uninterp spec fn relayed_body(up: hyper::body::Incoming, out: http_body_util::combinators::BoxBody<hyper::body::Bytes, hyper::Error>) -> bool;  // frames of `up` mapped by the closure (Kani companion: identity on bytes)

// E9 support types for `body.collect().await`: transparent newtypes around http_body_util::Collected and the boxed error
#[verifier::external_body]
pub struct VxCollected(pub http_body_util::Collected<hyper::body::Bytes>);
#[verifier::external_body]
pub struct VxCollectError(pub Box<dyn std::error::Error + Send + Sync>);
pub uninterp spec fn collected_view(c: VxCollected) -> Seq<u8>;
impl VxCollected {
    #[verifier::external_body]
    pub fn to_bytes(self) -> (r: hyper::body::Bytes) ensures bytes_view(r) == collected_view(self) { self.0.to_bytes() }
}
impl core::fmt::Display for VxCollectError {
    #[verifier::external_body]
    fn fmt(&self, f: &mut core::fmt::Formatter<'_>) -> core::fmt::Result { self.0.fmt(f) }
}
impl VxCollectError {
    #[verifier::external_body]
    pub fn to_string(&self) -> (r: String) { self.0.to_string() }
}
#[verifier::external_body] pub broadcast proof fn axiom_fmt_collect_error() ensures #[trigger] vstd::std_specs::fmt::fmt_req_all::<VxCollectError>() {}
proof fn lits_headers()
    ensures crate::common::constants::CLAIMS_HEADER@ == CLAIMS_H(), crate::common::constants::DATE_HEADER@ == DATE_H(),
            crate::common::constants::AUTHORIZATION_HEADER@ == AUTH_H(), crate::common::constants::AUTHORIZATION_SCHEME@ == "Azure-HMAC-SHA256"@,
            crate::common::constants::CLAIMS_IS_ROOT@ == "isRoot"@,
            CLAIMS_H() != DATE_H(), CLAIMS_H() != AUTH_H(), DATE_H() != AUTH_H(),
{
    reveal_strlit("x-ms-azure-host-claims"); reveal_strlit("x-ms-azure-host-date"); reveal_strlit("x-ms-azure-host-authorization");
    assert(CLAIMS_H().len() == 22); assert(DATE_H().len() == 20); assert(AUTH_H().len() == 29);
}

pub open spec fn bool_text(b: bool) -> Seq<char> { if b { "true"@ } else { "false"@ } }     // Display for bool
#[verifier::external_body] pub broadcast proof fn axiom_fmt_socketaddr() ensures #[trigger] vstd::std_specs::fmt::fmt_req_all::<std::net::SocketAddr>() {}
#[verifier::external_body] pub broadcast proof fn axiom_fmt_ipv4() ensures #[trigger] vstd::std_specs::fmt::fmt_req_all::<std::net::Ipv4Addr>() {}
#[verifier::external_body]
pub broadcast proof fn axiom_to_string_ipv4(t: &std::net::Ipv4Addr, s: String)
    ensures #[trigger] vstd::string::to_string_from_display_ensures::<std::net::Ipv4Addr>(t, s) <==> s@ == ip_string(*t) {}
pub assume_specification [std::time::Instant::now] () -> std::time::Instant;
pub assume_specification<'a> [<http::Uri as PartialEq<&'a str>>::eq] (u: &http::Uri, s: &&'a str) -> (r: bool)
    ensures r == uri_is_str(*u, s@);
pub assume_specification [<http::Uri as Clone>::clone] (u: &http::Uri) -> (r: http::Uri)
    ensures r == *u;

// ---- tower / tower-http body limit layer (C15). Assumed: the layer built by RequestBodyLimitLayer::new(n) carries n through
//      ServiceBuilder::layer and clone; tower_http::limit answers 413 for a declared Content-Length > n before the service runs
//      and makes the Limited body fail (collect() -> Err) once more than n bytes arrive; bodies <= n pass unchanged. ----
#[verifier::external_type_specification] #[verifier::external_body]
pub struct ExLimitLayer(tower_http::limit::RequestBodyLimitLayer);
#[verifier::external_type_specification] #[verifier::external_body]
pub struct ExIdentity(tower::layer::util::Identity);
#[verifier::external_type_specification] #[verifier::external_body] #[verifier::reject_recursive_types(A)] #[verifier::reject_recursive_types(B)]
pub struct ExStack<A, B>(tower::layer::util::Stack<A, B>);
#[verifier::external_type_specification] #[verifier::external_body] #[verifier::reject_recursive_types(L)]
pub struct ExServiceBuilder<L>(tower::ServiceBuilder<L>);
pub uninterp spec fn layer_limit(l: tower_http::limit::RequestBodyLimitLayer) -> usize;
pub uninterp spec fn sb_limit<L>(s: tower::ServiceBuilder<L>) -> usize;
pub uninterp spec fn any_limit<T>(t: T) -> usize;
#[verifier::external_body]
pub broadcast proof fn axiom_any_limit(t: tower_http::limit::RequestBodyLimitLayer) ensures #[trigger] any_limit::<tower_http::limit::RequestBodyLimitLayer>(t) == layer_limit(t) {}
pub assume_specification [tower_http::limit::RequestBodyLimitLayer::new] (n: usize) -> (r: tower_http::limit::RequestBodyLimitLayer)
    ensures layer_limit(r) == n;
pub assume_specification [tower::ServiceBuilder::<tower::layer::util::Identity>::new] () -> (r: tower::ServiceBuilder<tower::layer::util::Identity>);
pub assume_specification<L, T> [tower::ServiceBuilder::<L>::layer::<T>] (s: tower::ServiceBuilder<L>, t: T) -> (r: tower::ServiceBuilder<tower::layer::util::Stack<T, L>>)
    ensures sb_limit(r) == any_limit(t);
pub assume_specification<L: Clone> [<tower::ServiceBuilder<L> as Clone>::clone] (s: &tower::ServiceBuilder<L>) -> (r: tower::ServiceBuilder<L>)
    ensures sb_limit(r) == sb_limit(*s);

// ---- the upstream write path: tokio Mutex<Client> -> Client -> hyper SendRequest ----
#[verifier::external_type_specification] #[verifier::external_body] #[verifier::reject_recursive_types(B)]
pub struct ExSendRequest<B>(hyper::client::conn::http1::SendRequest<B>);
pub assume_specification<B> [hyper::client::conn::http1::SendRequest::<B>::is_closed] (_0: &hyper::client::conn::http1::SendRequest<B>) -> bool;
#[verifier::reject_recursive_types(T)]
#[verifier::external_type_specification] #[verifier::external_body]
pub struct ExTokioMutexGuard<'a, T>(tokio::sync::MutexGuard<'a, T>) where T: std::marker::MetaSized + ?Sized;
pub assume_specification<T> [tokio::sync::Mutex::<T>::lock] (_0: &tokio::sync::Mutex<T>) -> impl std::future::Future<Output = tokio::sync::MutexGuard<'_, T>>
    where T: std::marker::MetaSized + ?Sized;
// (only so that Verus' trait-conflict checker sees the Deref impls that std's DerefMut impls of these types depend on)
#[verifier::external_type_specification] #[verifier::external_body]
pub struct ExOsStr(std::ffi::OsStr);
#[verifier::external_type_specification] #[verifier::external_body]
pub struct ExPath(std::path::Path);
pub assume_specification [<std::ffi::OsString as core::ops::Deref>::deref] (s: &std::ffi::OsString) -> &std::ffi::OsStr;
pub assume_specification [<std::path::PathBuf as core::ops::Deref>::deref] (s: &std::path::PathBuf) -> &std::path::Path;
