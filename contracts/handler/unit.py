import re
# unit `handler` (C01, C05, C11, C14, C15): proxy_server.rs request path, proxy_connection.rs contexts
import os, sys
sys.path.insert(0, os.path.join(os.path.dirname(os.path.dirname(os.path.abspath(__file__))), 'common'))
import stubs
from vxlib import Undecided
HERE = os.path.dirname(os.path.abspath(__file__))
CON = os.path.dirname(HERE)
COMMON = os.path.join(CON, "common")

ASSUMPTIONS = [
    "hyper delivers to the handler the Request it parsed and sends the Response the handler returns",
    "hyper http1::SendRequest::send_request, reached through HttpConnectionContext::send_request -> TcpConnectionContext::send_request -> Client::send_request (all three verified), is the only upstream write primitive of the request path (E9 stub vx_e9_hyper_send_request carries the relay preconditions of C01 C03 C04 C05 C10 C14 C15); tokio::sync::Mutex::lock returns a guard that dereferences to the protected Client",
    "proxy_authorizer::authorize / get_access_control_rules satisfy the contracts proved in unit `authorizer`",
    "http::HeaderMap::insert replaces all values of a (case-normalised) name; hyper lower-cases incoming names into HeaderName",
]
FN_PROPS = {}

STATUS = {"INTERNAL_SERVER_ERROR": 500, "NOT_FOUND": 404, "MISDIRECTED_REQUEST": 421, "FORBIDDEN": 403, "BAD_GATEWAY": 502,
          "BAD_REQUEST": 400, "SERVICE_UNAVAILABLE": 503}


def status_e9():
    """E9 for `StatusCode::X` (external associated consts cannot be specified): stub returns the constant"""
    out = []
    for n, c in STATUS.items():
        out.append(("StatusCode::" + n, "all", "", "", "hyper::StatusCode", "    ensures status_code(r) == %d, r == status_const(%d)," % (c, c),
                    dict(name="vx_e9_status_" + n.lower(), optional=True, body="hyper::StatusCode::" + n)))
    return out


CLAIMS_CLONE = ("c: &crate::proxy::Claims", "crate::proxy::Claims", "    ensures r == *c,")


# ghost parameters and preconditions of the upstream write path below TcpConnectionContext::send_request
UPG = "Ghost(tcp): Ghost<TcpConnectionContext>, Ghost(url): Ghost<hyper::Uri>, Ghost(kk): Ghost<KeyKeeperSharedState>, Ghost(orig): Ghost<FwdSpec>"
UPREQ = """
        requires may_relay(tcp, url, kk),    // @C01.%(f)s.only_attributed_and_authorized
                 root_only_respected(tcp),   // @C03.%(f)s.never_for_non_elevated_wireserver_gaplugin_caller_nor_self
                 relayed_unchanged(%(r)s, orig),   // @C14.%(f)s.method_target_and_client_headers_unchanged
                 body_relayed_whole(%(r)s, orig),   // @C14+C15.%(f)s.whole_body_within_limit_is_what_is_sent
                 proxy_owned_headers_are_the_proxys(%(r)s, orig),   // @C05.%(f)s.exactly_one_claims_and_one_date_header_from_the_proxy
                 client_authorization_replaced_when_signed(%(r)s, orig),   // @C05.%(f)s.client_authorization_header_never_reaches_the_host_when_signed
                 signature_covers_what_is_sent(%(r)s, orig),   // @C04.%(f)s.signature_over_exactly_what_the_host_receives
                 key_id_names_signing_key(%(r)s, orig),   // @C10.%(f)s.key_id_names_the_key_that_made_the_mac
"""


# the header vocabulary (literal names, HeaderMap axioms) is made available in the send functions although their present bodies do
# not touch headers, so that an edit that does is decided on its merits and not for want of a broadcast
SEND_PRE = "broadcast use group_http_fmt, axiom_fmt_error, axiom_key_view_hn;\nproof { lits_headers(); }"


def build(u):
    ps = u.src("proxy_agent/src/proxy/proxy_server.rs")
    pc = u.src("proxy_agent/src/proxy/proxy_connection.rs")
    pa = u.src("proxy_agent/src/proxy/proxy_authorizer.rs")
    ar = u.src("proxy_agent/src/proxy/authorization_rules.rs")
    px = u.src("proxy_agent/src/proxy.rs")
    psum = u.src("proxy_agent/src/proxy/proxy_summary.rs")
    key = u.src("proxy_agent/src/key_keeper/key.rs")
    consts = u.src("proxy_agent/src/common/constants.rs")
    err = u.src("proxy_agent/src/common/error.rs")
    hc = u.src("proxy_agent/src/common/hyper_client.rs")
    hp = u.src("proxy_agent/src/common/helpers.rs")
    lg = u.src("proxy_agent/src/common/logger.rs")
    kkw = u.src("proxy_agent/src/shared_state/key_keeper_wrapper.rs")
    asw = u.src("proxy_agent/src/shared_state/agent_status_wrapper.rs")
    prw = u.src("proxy_agent/src/shared_state/provision_wrapper.rs")
    rdw = u.src("proxy_agent/src/shared_state/redirector_wrapper.rs")
    psw = u.src("proxy_agent/src/shared_state/proxy_server_wrapper.rs")
    tlw = u.src("proxy_agent/src/shared_state/telemetry_wrapper.rs")
    prov = u.src("proxy_agent/src/provision.rs")
    mh = u.src("proxy_agent_shared/src/misc_helpers.rs")
    el = u.src("proxy_agent_shared/src/telemetry/event_logger.rs")
    u.features += ["allocator_api", "sized_hierarchy", "pattern", "const_destruct", "const_trait_impl"]
    for f in ("str_axioms.rs", "ext_types.rs", "std_string.rs", "http.rs", "http_consts.rs", "utf8.rs"):
        u.raw(open(os.path.join(COMMON, f)).read())
    u.raw(open(os.path.join(CON, "authorizer", "spec.rs")).read())
    u.raw_file("spec.rs")
    u.raw_file("deps.rs")

    with u.mod("common"):
        with u.mod("error"):
            u.take_ext(err, ["Error", "HyperErrorType", "WireServerErrorType", "KeyErrorType", "AclErrorType", "BpfErrorType"], "vx_ext_error", uses="use http::{uri::InvalidUri, StatusCode};")
        with u.mod("result", uses="use super::error::Error;"):
            u.raw("pub type Result<T> = core::result::Result<T, Error>;", names=("Result",))
        with u.mod("constants"):
            # every constant of the file (an edit may start using one that the pinned code does not use, or add one)
            u.take_all_consts(consts)
        stubs.agent_logger_mod(u)
        with u.mod("hyper_client", uses="use http::Uri;\nuse http::request::Parts;\nuse hyper::body::Bytes;\nuse http_body_util::combinators::BoxBody;"):
            u.take_fn(hc, "should_skip_sig", external_body=True, contract="        ensures r == skip_spec(*method, *relative_uri),\n")
            u.take_fn(hc, "as_sig_input", external_body=True, contract="        ensures r@ == sig_input_spec(parts_method(head), parts_uri(head), parts_headers(head), bytes_view(body)),\n")
            u.take_fn(hc, "empty_body", external_body=True, contract="        ensures body_is_empty(r),\n")
        with u.mod("helpers", uses="use crate::common::result::Result;"):
            u.take_fn(hp, "compute_signature", external_body=True, contract="        ensures r matches Ok(s) ==> s@ == mac_spec(hex_encoded_key@, input_to_sign@),\n")
    with u.mod("provision"):
        with u.mod("provision_query"):
            u.take(prov, "provision_query::PROVISION_URL_PATH", "const")
    sl = u.src("proxy_agent_shared/src/logger.rs")
    with u.mod("proxy_agent_shared"):
        with u.mod("logger"):
            u.take(sl, "LoggerLevel", "type")
        with u.mod("misc_helpers"):
            u.take_fn(mh, "get_date_time_rfc1123_string", external_body=True, contract="        ensures is_current_date(r@),\n")
        with u.mod("telemetry"):
            with u.mod("event_logger", uses="use log::Level;"):
                u.take_fn(el, "write_event", external_body=True)
    with u.mod("key_keeper"):
        with u.mod("key", uses="use std::collections::HashMap;"):
            u.take(key, "Key", "struct")
            u.take(key, "Privilege", "struct")
            u.take(key, "Identity", "struct")
    with u.mod("shared_state"):
        with u.mod("key_keeper_wrapper", uses="use crate::common::result::Result;\nuse crate::proxy::authorization_rules::ComputedAuthorizationItem;\nuse crate::key_keeper::key::Key;"):
            u.placeholder_ext(kkw, ["KeyKeeperSharedState"], "vx_ph_kkw")
            with u.impl_(kkw, "KeyKeeperSharedState"):
                # C10: ONE GetKey round-trip answers with one key record (guid and value latched together; the actor arm is decided
                # in unit `actors`); the single-field getters give NO such fact, so a pair assembled from two messages cannot
                # be shown to be latched together
                for f in ("get_current_key", "get_current_key_value", "get_current_key_guid"):
                    if kkw.has_item("KeyKeeperSharedState::" + f):
                        u.take_fn(kkw, "KeyKeeperSharedState::" + f, external_body=True,
                                  contract=("        ensures r matches Ok(Some(k)) ==> key_record(k),\n" if f == "get_current_key" else ""))
        with u.mod("agent_status_wrapper", uses="use crate::common::result::Result;\nuse crate::proxy::proxy_summary::ProxySummary;"):
            u.placeholder_ext(asw, ["AgentStatusSharedState"], "vx_ph_asw")
            with u.impl_(asw, "AgentStatusSharedState"):
                u.take_fn(asw, "AgentStatusSharedState::increase_connection_count", external_body=True)
                u.take_fn(asw, "AgentStatusSharedState::add_one_connection_summary", external_body=True, ghost="Tracked(tr): Tracked<&mut HTrace>",
                          contract="        ensures final(tr).failed == old(tr).failed, final(tr).decisions == old(tr).decisions,\n")
                u.take_fn(asw, "AgentStatusSharedState::add_one_failed_connection_summary", external_body=True, ghost="Tracked(tr): Tracked<&mut HTrace>",
                          contract="        ensures final(tr).failed == old(tr).failed.push(fail_ev_of(summary)), final(tr).decisions == old(tr).decisions,\n")
        with u.mod("provision_wrapper"):
            u.placeholder_ext(prw, ["ProvisionSharedState"], "vx_ph_prw")
        with u.mod("redirector_wrapper"):
            u.placeholder_ext(rdw, ["RedirectorSharedState"], "vx_ph_rdw")
        with u.mod("proxy_server_wrapper"):
            u.placeholder_ext(psw, ["ProxyServerSharedState"], "vx_ph_psw")
        with u.mod("telemetry_wrapper"):
            u.placeholder_ext(tlw, ["TelemetrySharedState"], "vx_ph_tlw")
    with u.mod("proxy", uses="use std::{ffi::OsString, path::PathBuf};\nuse serde_derive::{Deserialize, Serialize};"):
        u.take_ext(px, ["Claims"], "vx_ext_claims", uses="use std::{ffi::OsString, path::PathBuf};\nuse serde_derive::{Deserialize, Serialize};", transparent=True)
        with u.impl_(px, "Claims"):
            u.take_fn(px, "Claims::empty", external_body=True)
        with u.mod("proxy_summary", uses="use std::path::PathBuf;\nuse serde_derive::{Deserialize, Serialize};"):
            u.take_ext(psum, ["ProxySummary"], "vx_ext_psum", uses="use std::path::PathBuf;\nuse serde_derive::{Deserialize, Serialize};", transparent=True)
        with u.mod("authorization_rules", uses="use super::Claims;\nuse crate::key_keeper::key::{Identity, Privilege};\nuse std::collections::{HashMap, HashSet};"):
            u.take(ar, "AuthorizationMode", "enum", structural=True)
            u.take(ar, "ComputedAuthorizationItem", "struct")
        with u.mod("proxy_authorizer", uses="", auto_uses=pa):
            u.take(pa, "AuthorizeResult", "enum", structural=True)
            # contracts proved in unit `authorizer` (same text), assumed here
            u.take_fn(pa, "get_access_control_rules", external_body=True, contract="""
        ensures r == (match endpoint_of(ip@, port) {
            Endpoint::WireServer => rules_reply(key_keeper_shared_state, Endpoint::WireServer),
            Endpoint::GAPlugin => rules_reply(key_keeper_shared_state, Endpoint::GAPlugin),
            Endpoint::Imds => rules_reply(key_keeper_shared_state, Endpoint::Imds),
            _ => Ok(None),
        }),
""")
            u.take_fn(pa, "authorize", external_body=True, ghost="Tracked(tr): Tracked<&mut HTrace>", contract="""
        ensures r == auth_table(endpoint_of(ip@, port), claims.runAsElevated, rule_view(access_control_rules, request_uri, claims)),
                final(tr).decisions == old(tr).decisions.push(r), final(tr).failed == old(tr).failed,   // ghost record of the decision
                *final(logger) == *old(logger),
""")
        with u.mod("proxy_connection", uses="use crate::shared_state::key_keeper_wrapper::KeyKeeperSharedState;", auto_uses=pc):
            u.take(pc, "RequestBody", "type")
            # Client: the per-connection HTTP/1 client of the host endpoint. Its send_request is verified down to hyper's
            # SendRequest::send_request, which is THE upstream write primitive (E9 stub carrying the relay preconditions)
            u.take(pc, "Client", "struct")
            ci = pc.item("Client::send_request", "fn")
            hs = [c for c in ci["calls"] if c["kind"] == "method" and c["callee"] == "send_request"]
            if len(hs) != 1:
                raise Undecided("Client::send_request: expected exactly one call of hyper's send_request")
            st = u.enclosing_stmt(ci, hs[0]["span"][0])
            closed = [c for c in ci["calls"] if c["kind"] == "path" and c["callee"].replace(" ", "") == "Error::Hyper" and not (st[0] <= c["span"][0] < st[1])]
            with u.impl_(pc, "Client"):
                u.take_fn(pc, "Client::send_request", ghost=UPG,
                          pre_body=SEND_PRE,
                          e9=[(tuple(c["span"]), None, "", "", "Error", "", dict(name="vx_e9_connection_closed_error_%d" % i, local=True)) for i, c in enumerate(closed)] + [
                              ((st[0], st[1]), None, "sender: &mut http1::SendRequest<RequestBody>, req: Request<RequestBody>, full_url: String, " + UPG,
                               "&mut self.sender, req, full_url, Ghost(tcp), Ghost(url), Ghost(kk), Ghost(orig)", "Result<hyper::Response<hyper::body::Incoming>>", UPREQ % dict(r="req", f="hyper_send_request"),
                               dict(name="vx_e9_hyper_send_request", local=True, is_async=True, body=re.sub(r"\bself\.sender\b", "sender", pc.s(st[0], st[1]))))],
                          contract=UPREQ % dict(r="req", f="Client_send_request"))
            u.take(pc, "ConnectionLogger", "struct")
            with u.impl_(pc, "ConnectionLogger"):
                u.take(pc, "ConnectionLogger::CONNECTION_LOGGER_KEY", "impl_const")
                u.take_fn(pc, "ConnectionLogger::new", external_body=True)
                u.take_fn(pc, "ConnectionLogger::write", external_body=True)
            with u.impl_(pc, "<ConnectionLogger as Clone>"):
                u.take_fn(pc, "<ConnectionLogger as Clone>::clone", make_pub=False, ret="")
            u.take(pc, "TcpConnectionContext", "struct", keep_derive=("Clone",))
            with u.impl_(pc, "TcpConnectionContext"):
                u.take_fn(pc, "TcpConnectionContext::get_ip_string", pre_body="broadcast use axiom_to_string_ipv4;", contract="""
        ensures self.destination_ip matches Some(ip) ==> r@ == ip_string(ip),
""")
                u.take_fn(pc, "TcpConnectionContext::log", contract="""
        ensures final(self).id == old(self).id, final(self).client_addr == old(self).client_addr, final(self).claims == old(self).claims,
                final(self).destination_ip == old(self).destination_ip, final(self).destination_port == old(self).destination_port,
                final(self).sender == old(self).sender,   // logging only: nothing but the logger's queue changes
""")
                # THE upstream write primitive of the request path: contract = C01 (+ C05/C14 request leg)
                u.take_fn(pc, "TcpConnectionContext::send_request", pre_body=SEND_PRE,
                          ghost="Ghost(url): Ghost<hyper::Uri>, Ghost(kk): Ghost<KeyKeeperSharedState>, Ghost(orig): Ghost<FwdSpec>",
                          ghost_calls=[("send_request", None, "Ghost(*self), Ghost(url), Ghost(kk), Ghost(orig)")],
                          e9=[("Error::Hyper(HyperErrorType::HostConnection(e.clone()))", None, "e: &String", "e", "Error", "", dict(name="vx_e9_host_connection_error", local=True, body="Error::Hyper(HyperErrorType::HostConnection(e.clone()))"))],
                          contract="""
        requires may_relay(*self, url, kk),    // @C01.send_request.only_attributed_and_authorized
                 root_only_respected(*self),   // @C03.send_request.never_for_non_elevated_wireserver_gaplugin_caller_nor_self
                 relayed_unchanged(request, orig),   // @C14.send_request.method_target_and_client_headers_unchanged
                 body_relayed_whole(request, orig),   // @C14+C15.send_request.whole_body_within_limit_is_what_is_sent
                 proxy_owned_headers_are_the_proxys(request, orig),   // @C05.send_request.exactly_one_claims_and_one_date_header_from_the_proxy
                 client_authorization_replaced_when_signed(request, orig),   // @C05.send_request.client_authorization_header_never_reaches_the_host_when_signed
                 signature_covers_what_is_sent(request, orig),   // @C04.send_request.signature_over_exactly_what_the_host_receives
                 key_id_names_signing_key(request, orig),   // @C10.send_request.key_id_names_the_key_that_made_the_mac
""")
            u.take(pc, "HttpConnectionContext", "struct")
            with u.impl_(pc, "HttpConnectionContext"):
                u.take_fn(pc, "HttpConnectionContext::should_skip_sig", contract="        ensures r == skip_spec(self.method, self.url),\n")
                u.take_fn(pc, "HttpConnectionContext::contains_traversal_characters", pre_body="broadcast use axiom_pat_view_str;",
                          contract="        ensures r == contains_sub(uri_path(self.url), \"..\"@),  // @C01+C14.contains_traversal_characters.exact\n")
                u.take_fn(pc, "HttpConnectionContext::log", contract="""
        ensures final(self).id == old(self).id, final(self).url == old(self).url, final(self).method == old(self).method,
                final(self).tcp_connection_context == old(self).tcp_connection_context, final(self).now == old(self).now,
""")
                u.take_fn(pc, "HttpConnectionContext::get_logger_mut_ref", contract="""
        ensures *r == old(self).logger, final(self).logger == *final(r),
                final(self).id == old(self).id, final(self).url == old(self).url, final(self).method == old(self).method,
                final(self).tcp_connection_context == old(self).tcp_connection_context, final(self).now == old(self).now,
""")
                u.take_fn(pc, "HttpConnectionContext::send_request", ghost="Ghost(kk): Ghost<KeyKeeperSharedState>, Ghost(orig): Ghost<FwdSpec>",
                          ghost_calls=[("send_request", None, "Ghost(self.url), Ghost(kk), Ghost(orig)")],
                          contract="""
        requires may_relay(self.tcp_connection_context, self.url, kk),    // @C01.HttpConnectionContext_send_request.only_attributed_and_authorized
                 root_only_respected(self.tcp_connection_context),   // @C03.HttpConnectionContext_send_request.never_for_non_elevated_wireserver_gaplugin_caller_nor_self
                 relayed_unchanged(request, orig),   // @C14.HttpConnectionContext_send_request.method_target_and_client_headers_unchanged
                 body_relayed_whole(request, orig),   // @C14+C15.HttpConnectionContext_send_request.whole_body_within_limit_is_what_is_sent
                 proxy_owned_headers_are_the_proxys(request, orig),   // @C05.HttpConnectionContext_send_request.exactly_one_claims_and_one_date_header_from_the_proxy
                 client_authorization_replaced_when_signed(request, orig),   // @C05.HttpConnectionContext_send_request.client_authorization_header_never_reaches_the_host_when_signed
                 signature_covers_what_is_sent(request, orig),   // @C04.HttpConnectionContext_send_request.signature_over_exactly_what_the_host_receives
                 key_id_names_signing_key(request, orig),   // @C10.HttpConnectionContext_send_request.key_id_names_the_key_that_made_the_mac
""")

        with u.mod("proxy_server", uses="use tower_http::limit::RequestBodyLimitLayer;", auto_uses=ps):
            u.take(ps, "ProxyServer", "struct", keep_derive=("Clone",))
            with u.impl_(ps, "ProxyServer"):
                u.take_fn(ps, "ProxyServer::empty_response", e9=status_e9(), contract="""
        ensures resp_status(r) == status_code, body_is_empty(resp_body(r)),  // @C01.empty_response.error_status_with_empty_body
""")
                u.take_fn(ps, "ProxyServer::log_connection_summary", extra_attrs="#[verifier::loop_isolation(false)]",
                          ghost="Tracked(tr): Tracked<&mut HTrace>",
                          ghost_calls=[("add_one_failed_connection_summary", None, "Tracked(tr)"), ("add_one_connection_summary", None, "Tracked(tr)")],
                          pre_body="broadcast use group_http_fmt, axiom_fmt_error, axiom_to_string_string, axiom_to_string_status, group_utf8;",
                          loops={0: """
                invariant end <= 4096, utf8_len(error_details@) > 4096,
                decreases end,
"""},
                          e9=[("c.clone()", None, CLAIMS_CLONE[0], "c", CLAIMS_CLONE[1], CLAIMS_CLONE[2], dict(name="vx_e9_claims_clone", body="c.clone()"))],
                          contract="""
        ensures
            final(http_connection_context).id == old(http_connection_context).id, final(http_connection_context).url == old(http_connection_context).url,
            final(http_connection_context).method == old(http_connection_context).method, final(http_connection_context).now == old(http_connection_context).now,
            final(http_connection_context).tcp_connection_context == old(http_connection_context).tcp_connection_context,
            final(tr).decisions == old(tr).decisions,
            !log_authorize_failed ==> final(tr).failed == old(tr).failed,   // @C11.log_connection_summary.only_denials_recorded
            log_authorize_failed ==> final(tr).failed.len() == old(tr).failed.len() + 1 && final(tr).failed.drop_last() == old(tr).failed,  // @C11.log_connection_summary.exactly_one_occurrence
            log_authorize_failed && old(http_connection_context).tcp_connection_context.claims is Some && old(http_connection_context).tcp_connection_context.destination_ip is Some
                ==> final(tr).failed.last() == denial_event(old(http_connection_context).tcp_connection_context, response_status),  // @C11.log_connection_summary.under_callers_user_process_cmdline_destination
""")

                fr = ps.item("ProxyServer::forward_response", "fn")
                st = fr["blocks"][0]["stmts"]
                # the hyper body plumbing = the statements from `let mut logger = ...logger.clone()` to `let mut response = Response::from_parts(..)`
                # (found by content, so that statements added before or after them do not disturb the extraction)
                i_lo = [i for i, x in enumerate(st) if ".logger.clone()" in ps.s(x[0], x[1])]
                i_hi = [i for i, x in enumerate(st) if "Response::from_parts(" in ps.s(x[0], x[1]) and re.match(r"\s*let\s+mut\s+response\b", ps.s(x[0], x[1]))]
                if len(i_lo) != 1 or len(i_hi) != 1 or i_hi[0] <= i_lo[0] or len(fr["matches"]) < 2:
                    raise Undecided("forward_response: the body-plumbing statements (logger clone .. Response::from_parts) were not found")
                plumb = (st[i_lo[0]][0], st[i_hi[0]][1])
                inner_match = [m for m in fr["matches"] if ps.s(m["scrutinee"][0], m["scrutinee"][1]).strip() == "e"]
                if len(inner_match) != 1:
                    raise Undecided("forward_response: `match e` not found")
                u.take_fn(ps, "ProxyServer::forward_response",
                          ghost="Tracked(tr): Tracked<&mut HTrace>",
                          ghost_calls=[("log_connection_summary", "all", "Tracked(tr)")],
                          pre_body="broadcast use group_http_fmt, axiom_fmt_error, axiom_key_view_hn;",
                          e9=status_e9() + [
                              # E9: pattern match on the (opaque) error enum chooses the status
                              ((inner_match[0]["span"][0], inner_match[0]["span"][1]), None, "e: &Error", "&e", "StatusCode",
                               "    ensures status_code(r) == 502 || status_code(r) == 503,", dict(name="vx_e9_upstream_error_status", local=True,
                                body_prefix="let e = e; ", body=None)),
                              # E9 (statement range): hyper body plumbing (map_frame closure, boxed()) -- the response is rebuilt from the
                              # upstream parts; the per-byte map of the closure is checked by the Kani companion (panic_bytes unit)
                              (plumb, None, "http_connection_context: &HttpConnectionContext, proxy_response: Response<Incoming>",
                               "&http_connection_context, proxy_response", "Response<BoxBody<Bytes, hyper::Error>>", """
    ensures resp_status(r) == resp_status(proxy_response), resp_headers(r) == resp_headers(proxy_response),
            relayed_body(resp_body(proxy_response), resp_body(r)),""",
                               dict(name="vx_e9_rebuild_response", local=True, body_suffix=" response", replacement="let mut response = $CALL;")),
                          ],
                          contract="""
        ensures
            final(tr).failed == old(tr).failed, final(tr).decisions == old(tr).decisions,     // @C11.forward_response.records_no_denial
            r is Ok,
            proxy_response matches Ok(up) ==> {
                &&& resp_status(r->Ok_0) == resp_status(up)       // @C14.forward_response.status_unchanged
                &&& hm_view(resp_headers(r->Ok_0)).remove(AUTH_H()) == hm_view(resp_headers(up)).remove(AUTH_H())   // @C14.forward_response.headers_unchanged_except_marker
                &&& one_value(hm_view(resp_headers(r->Ok_0)), AUTH_H())
                &&& relayed_body(resp_body(up), resp_body(r->Ok_0))  // @C14.forward_response.body_relayed
            },
            proxy_response is Err ==> (status_code(resp_status(r->Ok_0)) == 502 || status_code(resp_status(r->Ok_0)) == 503) && body_is_empty(resp_body(r->Ok_0)),
""")

                hs = ps.item("ProxyServer::handle_request_with_signature", "fn")
                u.take_fn(ps, "ProxyServer::handle_request_with_signature",
                          ghost="Ghost(orig): Ghost<FwdSpec>, Tracked(tr): Tracked<&mut HTrace>",
                          ghost_calls=[("forward_response", None, "Tracked(tr)"),
                                       ("send_request", None, "Ghost(self.key_keeper_shared_state), Ghost(orig)")],
                          pre_body="broadcast use group_http_fmt, axiom_fmt_error, axiom_key_view_hn, axiom_fmt_collect_error;\nproof { lits_headers(); }",
                          e9=status_e9() + [
                              # E9: hyper body collection (error type is `Box<dyn Error + Send + Sync>`: not expressible in Verus)
                              ("body.collect().await", None, "body: Limited<Incoming>", "body", "core::result::Result<VxCollected, VxCollectError>", """
    ensures (r matches Ok(d) ==> body_bytes(body) == Some(collected_view(d))),
            (r is Err ==> body_bytes(body) is None),""",
                               dict(name="vx_e9_collect_limited", local=True, is_async=True, body="match body.collect().await { Ok(c) => Ok(VxCollected(c)), Err(e) => Err(VxCollectError(e)) }")),
                          ],
                          e6=[("authorization_value", None, ["$@", "$@", "$@"])],
                          hints=[
                              ("let (head, body) = request.into_parts();", None, "after", "let ghost pre_h = parts_headers(head);"),
                              ('"Added authorization header {}"', None, "before", """
proof {
    reveal_strlit("");
    assert(""@ =~= Seq::<char>::empty());
    let h = hm_view(req_headers(proxy_request));
    assert(h == hm_view(pre_h).insert(AUTH_H(), seq![h[AUTH_H()][0]]));
    assert(hm_view(pre_h).remove(AUTH_H()) =~= h.remove(AUTH_H()));
    assert(hv_view(h[AUTH_H()][0]) =~= sig_value(key_guid@, key@, req_method(proxy_request), req_uri(proxy_request), pre_h, full_view(req_body(proxy_request))));
    assert(auth_signed(proxy_request, key_guid@, key@));   // @C04.handle_request_with_signature.signature_over_what_is_sent
    assert(names_key_of_mac(hv_view(h[AUTH_H()][0]), key_guid@, key@));
}"""),
                          ],
                          contract="""
        requires
            may_relay(http_connection_context.tcp_connection_context, http_connection_context.url, self.key_keeper_shared_state),  // @C01.handle_request_with_signature.only_attributed_and_authorized
            root_only_respected(http_connection_context.tcp_connection_context),  // @C03.handle_request_with_signature.never_for_non_elevated_wireserver_gaplugin_caller_nor_self
            req_method(request) == orig.method,   // @C14.handle_request_with_signature.method_unchanged
            req_uri(request) == orig.uri,         // @C14.handle_request_with_signature.uri_unchanged
            body_bytes(req_body(request)) == orig.body,   // @C14+C15.handle_request_with_signature.body_is_the_clients
            proxy_headers_ok(hm_view(req_headers(request)), orig.elevated),    // @C05.handle_request_with_signature.exactly_one_claims_and_one_date_header_from_the_proxy
            client_headers_kept(hm_view(req_headers(request)), orig.headers0), // @C14.handle_request_with_signature.client_headers_unchanged
            auth_unsigned(hm_view(req_headers(request)), orig.headers0),       // @C05.handle_request_with_signature.authorization_header_not_yet_touched
        ensures
            final(tr).failed == old(tr).failed, final(tr).decisions == old(tr).decisions,     // @C11.handle_request_with_signature.records_no_denial
            r is Ok,
            // C15: a body that could not be read within the limit (over the limit without a declared length, or broken off) is answered 4xx
            orig.body is None ==> 400 <= status_code(resp_status(r->Ok_0)) < 500 && body_is_empty(resp_body(r->Ok_0)),  // @C15.handle_request_with_signature.body_over_limit_answered_4xx
""")

                u.take_fn(ps, "ProxyServer::convert_request",
                          pre_body="broadcast use axiom_fmt_collect_error;",
                          e9=[("body.collect().await", None, "body: Limited<Incoming>", "body", "core::result::Result<VxCollected, VxCollectError>", """
    ensures (r matches Ok(d) ==> body_bytes(body) == Some(collected_view(d))),
            (r is Err ==> body_bytes(body) is None),""",
                               dict(name="vx_e9_collect_limited", local=True, is_async=True, body="match body.collect().await { Ok(c) => Ok(VxCollected(c)), Err(e) => Err(VxCollectError(e)) }")),
                              ("Error::Hyper(HyperErrorType::RequestBody(e.to_string()))", None, "e: &VxCollectError", "&e", "Error", "", dict(name="vx_e9_request_body_error", local=True))],
                          contract="""
        ensures r matches Ok(q) ==> req_method(q) == req_method(request) && req_uri(q) == req_uri(request) && req_headers(q) == req_headers(request)
                    && body_bytes(req_body(request)) == Some(full_view(req_body(q))),   // @C14+C15.convert_request.whole_body_within_limit_or_error
                r is Err ==> body_bytes(req_body(request)) is None,
""")
                u.take_fn(ps, "ProxyServer::handle_provision_state_check_request", external_body=True, contract="        ensures r is Ok,\n")
                u.take_fn(ps, "ProxyServer::handle_new_http_request",
                          ghost="Tracked(tr): Tracked<&mut HTrace>",
                          ghost_calls=[("log_connection_summary", "all", "Tracked(tr)"),
                                       ("forward_response", None, "Tracked(tr)"),
                                       ("authorize", None, "Tracked(tr)"),
                                       ("handle_request_with_signature", None, "Ghost(orig), Tracked(tr)"),
                                       ("send_request", None, "Ghost(self.key_keeper_shared_state), Ghost(orig)")],
                          pre_body="""broadcast use group_http_fmt, axiom_fmt_error, axiom_key_view_hn, axiom_fmt_serde_error, axiom_fmt_socketaddr, axiom_fmt_ipv4, axiom_to_string_ipv4;
proof { lits_headers(); }
let ghost tcp0 = tcp_connection_context;
let ghost url0 = req_uri(request);
let ghost kk0 = self.key_keeper_shared_state;
let ghost orig = fwd_spec_of(request, if tcp_connection_context.claims is Some { tcp_connection_context.claims->0.runAsElevated } else { false });
""",
                          e9=status_e9() + [
                              ("tcp_connection_context.clone()", None, "c: &TcpConnectionContext", "&tcp_connection_context", "TcpConnectionContext",
                               "    ensures r.id == c.id, r.client_addr == c.client_addr, r.claims == c.claims, r.destination_ip == c.destination_ip, r.destination_port == c.destination_port,  // derived Clone: every field cloned (the logger's clone starts with an empty queue)",
                               dict(name="vx_e9_tcp_ctx_clone", local=True, body="c.clone()")),
                              ("c.clone()", None, CLAIMS_CLONE[0], "&c", CLAIMS_CLONE[1], CLAIMS_CLONE[2], dict(name="vx_e9_claims_clone", body="c.clone()")),
                              ("claims.clone()", None, CLAIMS_CLONE[0], "&claims", CLAIMS_CLONE[1], CLAIMS_CLONE[2], dict(name="vx_e9_claims_clone", body="c.clone()")),
                              ("self.key_keeper_shared_state.clone()", None, "k: &KeyKeeperSharedState", "&self.key_keeper_shared_state", "KeyKeeperSharedState", "    ensures r == *k,",
                               dict(name="vx_e9_kk_clone", local=True, body="k.clone()")),
                          ],
                          e6=[("host_claims", None, ["$@", "bool_text($)"])],
                          # each property's precondition of the two relaying calls is asserted on its own just before the call, so that a
                          # failure is reported under every property it concerns (Verus reports one failing requires-clause per call)
                          hints=[(".handle_request_with_signature(", None, "before", """proof {
    assert(root_only_respected(http_connection_context.tcp_connection_context));  // @C03.handle_new_http_request.relays_signed_never_for_non_elevated_wireserver_gaplugin_caller_nor_self
}"""),
                                 ("http_connection_context.send_request(", None, "before", """proof {
    assert(root_only_respected(http_connection_context.tcp_connection_context));  // @C03.handle_new_http_request.relays_unsigned_never_for_non_elevated_wireserver_gaplugin_caller_nor_self
}""")],
                          contract="""
        ensures
            r is Ok,
            // C01: a request that may not be relayed is answered with one of the statement's error statuses and an empty body
            !is_provision_query(req_uri(request)) && !may_relay(tcp_connection_context, req_uri(request), self.key_keeper_shared_state) ==>
                body_is_empty(resp_body(r->Ok_0)) && (status_code(resp_status(r->Ok_0)) == 500
                    || status_code(resp_status(r->Ok_0)) == refusal_status(tcp_connection_context, req_uri(request), self.key_keeper_shared_state)
                    || (status_code(resp_status(r->Ok_0)) == 421 && !contains_sub(uri_path(req_uri(request)), ".."@))),  // @C01.handle_new_http_request.refused_with_404_421_500_403
            // C11: at most one authorization decision is taken per request, it is the declared one, and it is recorded
            // in the failed-authorization summary exactly once iff it is a denial (enforce: Forbidden, audit: OkWithAudit)
            final(tr).decisions == old(tr).decisions || (final(tr).decisions.len() == old(tr).decisions.len() + 1
                && final(tr).decisions.drop_last() == old(tr).decisions
                && reaches_authorization(tcp_connection_context, req_uri(request), self.key_keeper_shared_state)
                && final(tr).decisions.last() == auth_result(tcp_connection_context, req_uri(request), self.key_keeper_shared_state)),  // @C11.handle_new_http_request.decision_is_the_declared_one
            final(tr).decisions != old(tr).decisions && final(tr).decisions.last() == AuthorizeResult::Ok ==> final(tr).failed == old(tr).failed,   // @C11.handle_new_http_request.allowed_request_records_nothing
            final(tr).decisions != old(tr).decisions && final(tr).decisions.last() != AuthorizeResult::Ok ==>
                final(tr).failed.len() == old(tr).failed.len() + 1 && final(tr).failed.drop_last() == old(tr).failed
                && final(tr).failed.last() == denial_event(tcp_connection_context, status_const(403)),   // @C11.handle_new_http_request.every_denial_recorded_exactly_once_under_callers_identity
            final(tr).decisions != old(tr).decisions && final(tr).decisions.last() == AuthorizeResult::Forbidden ==>
                status_code(resp_status(r->Ok_0)) == 403 && body_is_empty(resp_body(r->Ok_0)),   // @C11.handle_new_http_request.enforce_answers_403
""")

            # ---- C15: the body-limit layer chosen per request (E5c slice of the service_fn closure in handle_new_tcp_connection) ----
            for n in ("REQUEST_BODY_LOW_LIMIT_SIZE", "REQUEST_BODY_LARGE_LIMIT_SIZE"):
                u.take(ps, n, "const")
            tc = ps.item("ProxyServer::handle_new_tcp_connection", "fn")
            outer = [c for c in tc["closures"] if ps.s(c["span"][0], c["span"][1]).startswith("move |req|")]
            if len(outer) != 1:
                raise Undecided("handle_new_tcp_connection: service_fn closure `move |req|` not found exactly once (%d)" % len(outer))
            blk = [b for b in tc["blocks"] if b["span"] == outer[0]["body"]]
            if len(blk) != 1:
                raise Undecided("handle_new_tcp_connection: closure body block not found")
            stmts = blk[0]["stmts"]
            ends = [i for i, st in enumerate(stmts) if ps.s(st[0], st[1]).lstrip().startswith("let tower_service_layer")]
            if len(ends) != 1:
                raise Undecided("handle_new_tcp_connection: `let tower_service_layer = ...` not found in the closure")
            u.slice_fn(ps, "ProxyServer::handle_new_tcp_connection", "vx_slice_choose_body_limit", stmts[0][0], stmts[ends[0]][1],
                       "req: &Request<Incoming>", ret_type="tower::ServiceBuilder<tower::layer::util::Stack<RequestBodyLimitLayer, tower::layer::util::Identity>>",
                       pre_body="broadcast use axiom_any_limit;\n", tail="tower_service_layer\n",
                       what="(statements of the service_fn closure that pick the RequestBodyLimitLayer)",
                       contract="""
        ensures sb_limit(r) == (if skip_spec(req_method(*req), req_uri(*req)) { 104857600usize } else { 102400usize }),  // @C15.choose_body_limit.100KiB_unless_exempt_then_100MiB
""")
