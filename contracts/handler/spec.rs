// Specification for the request handler (C01, C05, C11, C14, C15), written from the property statements.
use crate::proxy::proxy_connection::{HttpConnectionContext, TcpConnectionContext};
use crate::shared_state::key_keeper_wrapper::KeyKeeperSharedState;
use crate::proxy::proxy_authorizer::AuthorizeResult;

pub uninterp spec fn ip_string(ip: std::net::Ipv4Addr) -> Seq<char>;      // Ipv4Addr::to_string (dotted quad)
pub uninterp spec fn uri_path(u: http::Uri) -> Seq<char>;                  // Uri::path

// `s` contains `p` as a contiguous substring (str::contains(&str))
pub open spec fn contains_sub(s: Seq<char>, p: Seq<char>) -> bool {
    exists|i: int| 0 <= i && i + p.len() <= s.len() && #[trigger] s.subrange(i, i + p.len()) == p
}

// the policy in force for an endpoint during this request (C01: "the access policy in force")
pub open spec fn policy_of(kk: KeyKeeperSharedState, ep: Endpoint) -> crate::common::result::Result<Option<crate::proxy::authorization_rules::ComputedAuthorizationItem>> {
    match ep {
        Endpoint::WireServer => rules_reply(kk, Endpoint::WireServer),
        Endpoint::GAPlugin => rules_reply(kk, Endpoint::GAPlugin),
        Endpoint::Imds => rules_reply(kk, Endpoint::Imds),
        _ => Ok(None),
    }
}

// C01: a request on this connection for this URL may be relayed upstream only if
//  - the path contains no "..",
//  - the kernel hook attributed the connection (original destination and caller claims are known),
//  - the policy lookup for the ORIGINAL destination succeeded and that policy does not forbid this caller/URL.
pub open spec fn may_relay(tcp: TcpConnectionContext, url: http::Uri, kk: KeyKeeperSharedState) -> bool {
    &&& !contains_sub(uri_path(url), ".."@)
    &&& tcp.destination_ip is Some
    &&& tcp.claims is Some
    &&& {
        let ep = endpoint_of(ip_string(tcp.destination_ip->0), tcp.destination_port);
        let c = tcp.claims->0;
        &&& policy_of(kk, ep) is Ok
        &&& auth_table(ep, c.runAsElevated, rule_view(policy_of(kk, ep)->Ok_0, url, c)) != AuthorizeResult::Forbidden
    }
}

// C03 (stated on its own, independent of any policy): what is relayed on a connection never belongs to a non-elevated caller
// of WireServer / HostGAPlugin, nor to a connection whose recorded destination is the proxy's own listener
pub open spec fn root_only_respected(tcp: TcpConnectionContext) -> bool {
    tcp.destination_ip is Some && tcp.claims is Some && {
        let ep = endpoint_of(ip_string(tcp.destination_ip->0), tcp.destination_port);
        &&& !((ep is WireServer || ep is GAPlugin) && !tcp.claims->0.runAsElevated)
        &&& !(ep is ProxyAgent)
    }
}

// ---- C11: the failed-authorization summary, as a ghost trace of the events handed to the status actor ----
pub struct FailEv {
    pub user: Seq<char>, pub cmd: Seq<char>, pub exe: std::path::PathBuf, pub dest_ip: Seq<char>, pub dest_port: u16,
    pub client_ip: Seq<char>, pub status: Seq<char>,
}
pub uninterp spec fn status_text(s: http::StatusCode) -> Seq<char>;   // StatusCode::to_string ("403 Forbidden")
pub open spec fn fail_ev_of(s: crate::proxy::proxy_summary::ProxySummary) -> FailEv {
    FailEv { user: s.userName@, cmd: s.processCmdLine@, exe: s.processFullPath, dest_ip: s.ip@, dest_port: s.port, client_ip: s.clientIp@, status: s.responseStatus@ }
}
// failed: events handed to the status actor's failed-authorization summary; decisions: results of the authorization decision
pub tracked struct HTrace { pub ghost failed: Seq<FailEv>, pub ghost decisions: Seq<AuthorizeResult> }

// the event a denial of a request on `tcp` must add: the caller's user, process, command line and the destination
pub uninterp spec fn status_const(code: u16) -> http::StatusCode;      // the StatusCode constant with this code
pub open spec fn denial_event(tcp: TcpConnectionContext, status: http::StatusCode) -> FailEv {
    let c = tcp.claims->0;
    FailEv { user: c.userName@, cmd: c.processCmdLine@, exe: c.processFullPath, dest_ip: ip_string(tcp.destination_ip->0),
             dest_port: tcp.destination_port, client_ip: c.clientIp@, status: status_text(status) }
}

// ---- C05 / C14 / C15 / C04-G6: what the host must receive for a client request ---------------------------------
// the client's request as the listener received it (ghost copy taken at the top of the handler)
pub ghost struct FwdSpec {
    pub method: http::Method,
    pub uri: http::Uri,
    pub headers0: Map<Seq<char>, Seq<http::header::HeaderValue>>,   // client headers: lower-case name -> values
    pub body: Option<Seq<u8>>,                                      // all body bytes, None if reading failed / limit exceeded
    pub elevated: bool,                                             // the attributed caller runs elevated
}
pub uninterp spec fn body_bytes<B>(b: B) -> Option<Seq<u8>>;       // bytes a (limited) request body yields when collected
pub open spec fn fwd_spec_of(request: http::Request<tower_http::body::Limited<hyper::body::Incoming>>, elevated: bool) -> FwdSpec {
    FwdSpec { method: req_method(request), uri: req_uri(request), headers0: hm_view(req_headers(request)),
              body: body_bytes(req_body(request)), elevated: elevated }
}
pub open spec fn CLAIMS_H() -> Seq<char> { "x-ms-azure-host-claims"@ }
pub open spec fn DATE_H() -> Seq<char> { "x-ms-azure-host-date"@ }
pub open spec fn AUTH_H() -> Seq<char> { "x-ms-azure-host-authorization"@ }
// the claims header the proxy produces: { "isRoot": "<true|false>"}
pub open spec fn claims_json(elevated: bool) -> Seq<char> {
    "{ \""@ + "isRoot"@ + "\": \""@ + (if elevated { "true"@ } else { "false"@ }) + "\"}"@
}
pub open spec fn one_value(h: Map<Seq<char>, Seq<http::header::HeaderValue>>, name: Seq<char>) -> bool {
    h.contains_key(name) && h[name].len() == 1
}
// C05: exactly one claims header and one date header, both produced by the proxy
pub open spec fn proxy_headers_ok(h: Map<Seq<char>, Seq<http::header::HeaderValue>>, elevated: bool) -> bool {
    &&& one_value(h, CLAIMS_H()) && hv_view(h[CLAIMS_H()][0]) == claims_json(elevated)
    &&& one_value(h, DATE_H()) && is_current_date(hv_view(h[DATE_H()][0]))
}
// C14: every client header other than the three proxy-owned ones is unchanged
pub open spec fn client_headers_kept(h: Map<Seq<char>, Seq<http::header::HeaderValue>>, h0: Map<Seq<char>, Seq<http::header::HeaderValue>>) -> bool {
    forall|n: Seq<char>| n != CLAIMS_H() && n != DATE_H() && n != AUTH_H() ==>
        (#[trigger] h.contains_key(n) == h0.contains_key(n)) && (h0.contains_key(n) ==> h[n] == h0[n])
}
// the authorization header: either the request is not signed and the name is as the client sent it, or it is
// signed: exactly one value `Azure-HMAC-SHA256 <guid> <mac>` where mac is computed under `key` over the canonical
// string of (method, uri, all headers before adding the authorization header, body)
pub open spec fn auth_unsigned(h: Map<Seq<char>, Seq<http::header::HeaderValue>>, h0: Map<Seq<char>, Seq<http::header::HeaderValue>>) -> bool {
    h.contains_key(AUTH_H()) == h0.contains_key(AUTH_H()) && (h0.contains_key(AUTH_H()) ==> h[AUTH_H()] == h0[AUTH_H()])
}
pub open spec fn sig_value(guid: Seq<char>, key: Seq<char>, m: http::Method, u: http::Uri, hm: http::HeaderMap, body: Seq<u8>) -> Seq<char> {
    "Azure-HMAC-SHA256"@ + " "@ + guid + " "@ + mac_spec(key, sig_input_spec(m, u, hm, body))
}
pub open spec fn auth_signed(request: http::Request<http_body_util::Full<hyper::body::Bytes>>, guid: Seq<char>, key: Seq<char>) -> bool {
    let h = hm_view(req_headers(request));
    &&& one_value(h, AUTH_H())
    &&& exists|pre: http::HeaderMap| hm_view(pre).remove(AUTH_H()) == h.remove(AUTH_H())
            && #[trigger] hv_view(h[AUTH_H()][0]) == sig_value(guid, key, req_method(request), req_uri(request), pre, full_view(req_body(request)))
}
// C10: key_record(k) = k is one key record as the key-keeper actor held it at one instant (answer of ONE GetKey message);
// latched(guid, key) = guid and key are the two fields of one such record
pub uninterp spec fn key_record(k: crate::key_keeper::key::Key) -> bool;
pub open spec fn latched(guid: Seq<char>, key: Seq<char>) -> bool {
    exists|k: crate::key_keeper::key::Key| key_record(k) && k.guid@ == guid && #[trigger] k.key@ == key
}
// C04: what leaves for the host is either not signed by the proxy (authorization header state as the client sent it), or carries
// a MAC computed over exactly this request (method, URI, all its other headers, body)
pub open spec fn signature_covers_what_is_sent(request: http::Request<http_body_util::Full<hyper::body::Bytes>>, orig: FwdSpec) -> bool {
    auth_unsigned(hm_view(req_headers(request)), orig.headers0)
    || exists|guid: Seq<char>, key: Seq<char>| #[trigger] auth_signed(request, guid, key)
}
// what leaves for the host either carries the client's own authorization header state, or a signature whose key id names
// the key that produced the MAC
// (C10 is about the PAIRING only: the value has the form `scheme <guid> mac(key, _)` for one key record; that the MAC covers what is
//  sent is C04's clause signature_covers_what_is_sent)
pub open spec fn names_key_of_mac(v: Seq<char>, guid: Seq<char>, key: Seq<char>) -> bool {
    exists|m: http::Method, u: http::Uri, pre: http::HeaderMap, b: Seq<u8>| v == #[trigger] sig_value(guid, key, m, u, pre, b)
}
pub open spec fn key_id_names_signing_key(request: http::Request<http_body_util::Full<hyper::body::Bytes>>, orig: FwdSpec) -> bool {
    let h = hm_view(req_headers(request));
    auth_unsigned(h, orig.headers0)
    || (one_value(h, AUTH_H()) && exists|guid: Seq<char>, key: Seq<char>| latched(guid, key) && #[trigger] names_key_of_mac(hv_view(h[AUTH_H()][0]), guid, key))
}
// C05 (authorization part): on a request the proxy signs, whatever the client supplied under the authorization name is gone:
// exactly one value, and it is a signature produced by the proxy
pub open spec fn client_authorization_replaced_when_signed(request: http::Request<http_body_util::Full<hyper::body::Bytes>>, orig: FwdSpec) -> bool {
    let h = hm_view(req_headers(request));
    auth_unsigned(h, orig.headers0)
    || (one_value(h, AUTH_H()) && exists|guid: Seq<char>, key: Seq<char>| #[trigger] names_key_of_mac(hv_view(h[AUTH_H()][0]), guid, key))
}
// the request handed to the upstream write primitive, relative to what the client sent
// C14: method, target and every client header other than the proxy-owned ones are the client's
pub open spec fn relayed_unchanged(request: http::Request<http_body_util::Full<hyper::body::Bytes>>, orig: FwdSpec) -> bool {
    &&& req_method(request) == orig.method
    &&& req_uri(request) == orig.uri
    &&& client_headers_kept(hm_view(req_headers(request)), orig.headers0)
}
// C14 + C15: the whole body was read within the limit, and it is what is sent
pub open spec fn body_relayed_whole(request: http::Request<http_body_util::Full<hyper::body::Bytes>>, orig: FwdSpec) -> bool {
    orig.body == Some(full_view(req_body(request)))
}
// C05: exactly one claims header and one date header, both the proxy's
pub open spec fn proxy_owned_headers_are_the_proxys(request: http::Request<http_body_util::Full<hyper::body::Bytes>>, orig: FwdSpec) -> bool {
    proxy_headers_ok(hm_view(req_headers(request)), orig.elevated)
}
pub open spec fn fwd_ok(request: http::Request<http_body_util::Full<hyper::body::Bytes>>, orig: FwdSpec) -> bool {
    &&& relayed_unchanged(request, orig)
    &&& body_relayed_whole(request, orig)
    &&& proxy_owned_headers_are_the_proxys(request, orig)
    &&& signature_covers_what_is_sent(request, orig)
}


// ---- C01: what the client gets when the request is NOT relayed -------------------------------------------------
pub uninterp spec fn uri_is_str(u: http::Uri, s: Seq<char>) -> bool;   // Uri == &str (http's PartialEq<&str> for Uri)
pub open spec fn is_provision_query(u: http::Uri) -> bool { uri_is_str(u, "/provision"@) }
// the refusal status, in the order the statement lists the cases:
//   path containing '..' -> 404; connection not attributed (no destination / no claims) -> 421;
//   policy lookup failure -> 500; enforced denial -> 403
// (a request whose caller claims cannot be serialised for the log is also answered 421)
pub open spec fn refusal_status(tcp: TcpConnectionContext, url: http::Uri, kk: KeyKeeperSharedState) -> int {
    if contains_sub(uri_path(url), ".."@) { 404 }
    else if tcp.destination_ip is None || tcp.claims is None { 421 }
    else if policy_of(kk, endpoint_of(ip_string(tcp.destination_ip->0), tcp.destination_port)) is Err { 500 }
    else { 403 }
}
pub open spec fn auth_result(tcp: TcpConnectionContext, url: http::Uri, kk: KeyKeeperSharedState) -> AuthorizeResult {
    let ep = endpoint_of(ip_string(tcp.destination_ip->0), tcp.destination_port);
    auth_table(ep, tcp.claims->0.runAsElevated, rule_view(policy_of(kk, ep)->Ok_0, url, tcp.claims->0))
}
// the request reaches the authorization decision (everything before it succeeded)
pub open spec fn reaches_authorization(tcp: TcpConnectionContext, url: http::Uri, kk: KeyKeeperSharedState) -> bool {
    !contains_sub(uri_path(url), ".."@) && !is_provision_query(url) && tcp.destination_ip is Some && tcp.claims is Some
    && policy_of(kk, endpoint_of(ip_string(tcp.destination_ip->0), tcp.destination_port)) is Ok
}
