// Specification for the request handler (C01, C05, C11, C14, C15), written from the property statements.
use crate::proxy::proxy_connection::{HttpConnectionContext, TcpConnectionContext};
use crate::shared_state::key_keeper_wrapper::KeyKeeperSharedState;
use crate::proxy::proxy_authorizer::AuthorizeResult;

pub uninterp spec fn ip_string(ip: std::net::Ipv4Addr) -> Seq<char>;      // Ipv4Addr::to_string (dotted quad)
pub uninterp spec fn uri_path(u: http::Uri) -> Seq<char>;                  // Uri::path

// `s` contains `p` as a contiguous substring (str::contains(&str))
pub open spec fn contains_sub(s: Seq<char>, p: Seq<char>) -> bool {
    exists|i: int| 0 <= i && i + p.len() <= s.len() && #[trigger] s.subrange(i, i + p.len()) == p
}

// the policy in force for an endpoint during this request (C01: "the access policy in force")
pub open spec fn policy_of(kk: KeyKeeperSharedState, ep: Endpoint) -> crate::common::result::Result<Option<crate::proxy::authorization_rules::ComputedAuthorizationItem>> {
    match ep {
        Endpoint::WireServer => rules_reply(kk, Endpoint::WireServer),
        Endpoint::GAPlugin => rules_reply(kk, Endpoint::GAPlugin),
        Endpoint::Imds => rules_reply(kk, Endpoint::Imds),
        _ => Ok(None),
    }
}

// C01: a request on this connection for this URL may be relayed upstream only if
//  - the path contains no "..",
//  - the kernel hook attributed the connection (original destination and caller claims are known),
//  - the policy lookup for the ORIGINAL destination succeeded and that policy does not forbid this caller/URL.
pub open spec fn may_relay(tcp: TcpConnectionContext, url: http::Uri, kk: KeyKeeperSharedState) -> bool {
    &&& !contains_sub(uri_path(url), ".."@)
    &&& tcp.destination_ip is Some
    &&& tcp.claims is Some
    &&& {
        let ep = endpoint_of(ip_string(tcp.destination_ip->0), tcp.destination_port);
        let c = tcp.claims->0;
        &&& policy_of(kk, ep) is Ok
        &&& auth_table(ep, c.runAsElevated, rule_view(policy_of(kk, ep)->Ok_0, url, c)) != AuthorizeResult::Forbidden
    }
}

// ---- C11: the failed-authorization summary, as a ghost trace of the events handed to the status actor ----
pub struct FailEv {
    pub user: Seq<char>, pub cmd: Seq<char>, pub exe: std::path::PathBuf, pub dest_ip: Seq<char>, pub dest_port: u16,
    pub client_ip: Seq<char>, pub status: Seq<char>,
}
pub uninterp spec fn status_text(s: http::StatusCode) -> Seq<char>;   // StatusCode::to_string ("403 Forbidden")
pub open spec fn fail_ev_of(s: crate::proxy::proxy_summary::ProxySummary) -> FailEv {
    FailEv { user: s.userName@, cmd: s.processCmdLine@, exe: s.processFullPath, dest_ip: s.ip@, dest_port: s.port, client_ip: s.clientIp@, status: s.responseStatus@ }
}
pub tracked struct HTrace { pub ghost failed: Seq<FailEv> }

// the event a denial of a request on `tcp` must add: the caller's user, process, command line and the destination
pub open spec fn denial_event(tcp: TcpConnectionContext, status: http::StatusCode) -> FailEv {
    let c = tcp.claims->0;
    FailEv { user: c.userName@, cmd: c.processCmdLine@, exe: c.processFullPath, dest_ip: ip_string(tcp.destination_ip->0),
             dest_port: tcp.destination_port, client_ip: c.clientIp@, status: status_text(status) }
}
