// assumed specifications of dependency functions used by proxy_authorizer.rs
pub assume_specification [<http::Uri as Clone>::clone] (u: &http::Uri) -> (r: http::Uri)
    ensures r == *u;

// Display for http::Uri does not panic (needed by format!("{}", uri)); the produced text is unconstrained.
#[verifier::external_body]
pub broadcast proof fn axiom_fmt_uri() ensures #[trigger] vstd::std_specs::fmt::fmt_req_all::<http::Uri>() {}
