// Specification for C03 (and the mode table of C11), written from the property statements.
//  C03: "A request to the WireServer or HostGAPlugin endpoint made by a caller that is not running elevated
//        is never relayed, whatever rules, mode (including disabled and audit) or default access ...
//        A request whose recorded original destination is the proxy's own listener address is always refused."
//  C11: "When the rules deny a request: in enforce mode ... 403 and nothing is relayed; in audit mode the request is
//        relayed exactly as an allowed one would be; in disabled mode the rules are not consulted."
pub enum Endpoint { WireServer, GAPlugin, Imds, ProxyAgent, Other }

// the endpoints as the statement / documentation name them (dotted address, port)
pub open spec fn endpoint_of(ip: Seq<char>, port: u16) -> Endpoint {
    if ip == "168.63.129.16"@ && port == 80 { Endpoint::WireServer }
    else if ip == "168.63.129.16"@ && port == 32526 { Endpoint::GAPlugin }
    else if ip == "169.254.169.254"@ && port == 80 { Endpoint::Imds }
    else if ip == "127.0.0.1"@ && port == 3080 { Endpoint::ProxyAgent }
    else { Endpoint::Other }
}

// what the rule set says for this request: None = no rule set for the endpoint;
// Some((allowed, mode)) = decision of the rule set (C02) and its mode
pub struct RuleView { pub allowed: bool, pub audit: bool }

pub open spec fn auth_table(ep: Endpoint, elevated: bool, rules: Option<RuleView>) -> proxy::proxy_authorizer::AuthorizeResult {
    use proxy::proxy_authorizer::AuthorizeResult;
    match ep {
        Endpoint::ProxyAgent => AuthorizeResult::Forbidden,
        Endpoint::Other => AuthorizeResult::Ok,
        _ => {
            if (ep is WireServer || ep is GAPlugin) && !elevated { AuthorizeResult::Forbidden }
            else { match rules {
                None => AuthorizeResult::Ok,
                Some(rv) => if rv.allowed { AuthorizeResult::Ok } else if rv.audit { AuthorizeResult::OkWithAudit } else { AuthorizeResult::Forbidden },
            } }
        }
    }
}

// decision of a rule set for (url, claims): the C02 semantics. In this unit it is uninterpreted (every result
// holds for every decision function); unit `authz` proves that ComputedAuthorizationItem::is_allowed computes it.
pub uninterp spec fn is_allowed_spec(rules: proxy::authorization_rules::ComputedAuthorizationItem, url: http::Uri, claims: proxy::Claims) -> bool;

pub open spec fn rule_view(rules: Option<proxy::authorization_rules::ComputedAuthorizationItem>, url: http::Uri, claims: proxy::Claims) -> Option<RuleView> {
    match rules {
        None => None,
        Some(r) => Some(RuleView { allowed: is_allowed_spec(r, url, claims), audit: r.mode == proxy::authorization_rules::AuthorizationMode::Audit }),
    }
}

// the two sentences of C03 as corollaries of the table, for every rule view:
pub proof fn lemma_c03_root_only(ep: Endpoint, rules: Option<RuleView>)
    requires ep is WireServer || ep is GAPlugin,
    ensures auth_table(ep, false, rules) == proxy::proxy_authorizer::AuthorizeResult::Forbidden,  // @C03.lemma.root_only_under_every_policy
{}
pub proof fn lemma_c03_no_self_proxy(elevated: bool, rules: Option<RuleView>)
    ensures auth_table(Endpoint::ProxyAgent, elevated, rules) == proxy::proxy_authorizer::AuthorizeResult::Forbidden,  // @C03.lemma.no_self_proxying
{}
// C11 mode table as corollaries
pub proof fn lemma_c11_modes(ep: Endpoint, elevated: bool, rv: RuleView)
    requires ep is WireServer || ep is GAPlugin || ep is Imds, elevated || ep is Imds, !rv.allowed,
    ensures auth_table(ep, elevated, Some(rv)) == (if rv.audit { proxy::proxy_authorizer::AuthorizeResult::OkWithAudit } else { proxy::proxy_authorizer::AuthorizeResult::Forbidden }),  // @C11.lemma.audit_forwards_enforce_blocks
{}

proof fn lits_endpoints()
    ensures
        common::constants::WIRE_SERVER_IP@ == "168.63.129.16"@, common::constants::GA_PLUGIN_IP@ == "168.63.129.16"@,
        common::constants::IMDS_IP@ == "169.254.169.254"@, common::constants::PROXY_AGENT_IP@ == "127.0.0.1"@,
        common::constants::WIRE_SERVER_PORT == 80, common::constants::GA_PLUGIN_PORT == 32526,
        common::constants::IMDS_PORT == 80, common::constants::PROXY_AGENT_PORT == 3080,
        "168.63.129.16"@ != "169.254.169.254"@, "168.63.129.16"@ != "127.0.0.1"@, "169.254.169.254"@ != "127.0.0.1"@,
{
    reveal_strlit("168.63.129.16"); reveal_strlit("169.254.169.254"); reveal_strlit("127.0.0.1");
    assert("168.63.129.16"@.len() == 13); assert("169.254.169.254"@.len() == 15); assert("127.0.0.1"@.len() == 9);
}

// the reply of the key-keeper actor to "give me the rules of endpoint e" during this request: uninterpreted,
// so every result holds for every rule set in force (DESIGN 2.3 "one uninterpreted policy in force per request")
pub uninterp spec fn rules_reply(s: shared_state::key_keeper_wrapper::KeyKeeperSharedState, e: Endpoint)
    -> common::result::Result<Option<proxy::authorization_rules::ComputedAuthorizationItem>>;
