# unit `authorizer` (C03, C11 mode table, C01 policy lookup): proxy_authorizer.rs
import os
HERE = os.path.dirname(os.path.abspath(__file__))
COMMON = os.path.join(os.path.dirname(HERE), "common")

ASSUMPTIONS = [
    "ComputedAuthorizationItem::is_allowed returns is_allowed_spec(rules,url,claims) (proved in unit authz, assumed here)",
    "ConnectionLogger::write only logs (body not verified here)",
    "&str / String extensionality axioms; String == &str compares character sequences",
]
FN_PROPS = {}

AUTH_CONTRACT = """
        ensures r == self.spec_auth(request_url, access_control_rules),  // @C03+C11.%s.authorize.refines_table
"""

def build(u):
    pa = u.src("proxy_agent/src/proxy/proxy_authorizer.rs")
    ar = u.src("proxy_agent/src/proxy/authorization_rules.rs")
    pc = u.src("proxy_agent/src/proxy/proxy_connection.rs")
    px = u.src("proxy_agent/src/proxy.rs")
    key = u.src("proxy_agent/src/key_keeper/key.rs")
    consts = u.src("proxy_agent/src/common/constants.rs")
    kkw = u.src("proxy_agent/src/shared_state/key_keeper_wrapper.rs")
    for f in ("str_axioms.rs", "ext_types.rs", "std_string.rs"):
        u.raw(open(os.path.join(COMMON, f)).read())
    u.raw_file("deps.rs")
    u.raw_file("spec.rs")
    with u.mod("common"):
        with u.mod("constants"):
            for n in ("WIRE_SERVER_IP", "WIRE_SERVER_PORT", "GA_PLUGIN_IP", "GA_PLUGIN_PORT", "IMDS_IP", "IMDS_PORT", "PROXY_AGENT_IP", "PROXY_AGENT_PORT"):
                u.take(consts, n, "const")
    with u.mod("key_keeper"):
        with u.mod("key", uses="use std::collections::HashMap;"):
            u.take(key, "Privilege", "struct")
            u.take(key, "Identity", "struct")
    with u.mod("proxy", uses="use std::{ffi::OsString, path::PathBuf};"):
        u.take(px, "Claims", "struct", keep_derive=("Clone",))
        with u.mod("proxy_connection", uses="use log::Level as LoggerLevel;"):
            u.take(pc, "ConnectionLogger", "struct")
            with u.impl_(pc, "ConnectionLogger"):
                u.take_fn(pc, "ConnectionLogger::write", external_body=True)
        with u.mod("authorization_rules", uses="use super::{proxy_connection::ConnectionLogger, Claims};\nuse crate::key_keeper::key::{Identity, Privilege};\nuse std::collections::{HashMap, HashSet};"):
            u.take(ar, "AuthorizationMode", "enum", structural=True)
            u.take(ar, "ComputedAuthorizationItem", "struct")
            with u.impl_(ar, "ComputedAuthorizationItem"):
                u.take_fn(ar, "ComputedAuthorizationItem::is_allowed", external_body=True, contract="""
        ensures r == is_allowed_spec(*self, request_url, claims),
""")
        with u.mod("proxy_authorizer", uses="use super::authorization_rules::{AuthorizationMode, ComputedAuthorizationItem};\nuse super::proxy_connection::ConnectionLogger;\nuse crate::{common::constants, proxy::Claims};\nuse log::Level as LoggerLevel;"):
            u.take(pa, "AuthorizeResult", "enum", structural=True)
            with u.trait_(pa, "Authorizer", extra="    spec fn spec_auth(&self, url: hyper::Uri, rules: Option<ComputedAuthorizationItem>) -> AuthorizeResult;\n"):
                u.take_fn(pa, "Authorizer::authorize", contract="""
        ensures r == self.spec_auth(request_url, access_control_rules),  // @C03+C11.Authorizer.authorize.refines_table
""", make_pub=False)
                u.take_fn(pa, "Authorizer::to_string", make_pub=False, ret="")
            for (ty, ep, elev) in (("WireServer", "WireServer", "self.claims.runAsElevated"), ("Imds", "Imds", "true"), ("GAPlugin", "GAPlugin", "self.claims.runAsElevated")):
                u.take(pa, ty, "struct")
                with u.impl_(pa, "<%s as Authorizer>" % ty):
                    u.raw("""    open spec fn spec_auth(&self, url: hyper::Uri, rules: Option<ComputedAuthorizationItem>) -> AuthorizeResult {
        auth_table(Endpoint::%s, %s, rule_view(rules, url, self.claims))
    }""" % (ep, elev))
                    u.take_fn(pa, "<%s as Authorizer>::authorize" % ty, make_pub=False, pre_body="broadcast use axiom_fmt_uri;",
                              e9=[("self.claims.clone()", None, "c: &crate::proxy::Claims", "&self.claims", "crate::proxy::Claims", "    ensures r == *c,", dict(body="c.clone()", name="vx_e9_claims_clone_" + ty))])
                    u.take_fn(pa, "<%s as Authorizer>::to_string" % ty, make_pub=False, external_body=True, ret="")
            for (ty, ep) in (("ProxyAgent", "ProxyAgent"), ("Default", "Other")):
                u.take(pa, ty, "struct")
                with u.impl_(pa, "<%s as Authorizer>" % ty):
                    u.raw("""    open spec fn spec_auth(&self, url: hyper::Uri, rules: Option<ComputedAuthorizationItem>) -> AuthorizeResult {
        auth_table(Endpoint::%s, true, None)
    }""" % ep)
                    u.take_fn(pa, "<%s as Authorizer>::authorize" % ty, make_pub=False)
                    u.take_fn(pa, "<%s as Authorizer>::to_string" % ty, make_pub=False, external_body=True, ret="")
            u.take_fn(pa, "get_authorizer", pre_body="broadcast use axiom_str_ext;\nproof { lits_endpoints(); }", contract="""
        ensures forall|url: hyper::Uri, rules: Option<ComputedAuthorizationItem>|
            #[trigger] r.spec_auth(url, rules) == auth_table(endpoint_of(ip@, port), claims.runAsElevated, rule_view(rules, url, claims)),  // @C03.get_authorizer.endpoint_selects_table_row
""")
            u.take_fn(pa, "authorize", contract="""
        ensures r == auth_table(endpoint_of(ip@, port), claims.runAsElevated, rule_view(access_control_rules, request_uri, claims)),  // @C03+C11.authorize.refines_table
""")
