# unit `authorizer` (C03, C11 mode table, C01 policy lookup): proxy_authorizer.rs
import os, sys
sys.path.insert(0, os.path.join(os.path.dirname(os.path.dirname(os.path.abspath(__file__))), 'common'))
import stubs
HERE = os.path.dirname(os.path.abspath(__file__))
COMMON = os.path.join(os.path.dirname(HERE), "common")

ASSUMPTIONS = [
    "ComputedAuthorizationItem::is_allowed returns is_allowed_spec(rules,url,claims) (proved in unit authz, assumed here)",
    "ConnectionLogger::write only logs (body not verified here)",
    "&str / String extensionality axioms; String == &str compares character sequences",
]
FN_PROPS = {}

AUTH_CONTRACT = """
        ensures r == self.spec_auth(request_url, access_control_rules),  // @C03+C11.%s.authorize.refines_table
"""

def build(u):
    pa = u.src("proxy_agent/src/proxy/proxy_authorizer.rs")
    ar = u.src("proxy_agent/src/proxy/authorization_rules.rs")
    pc = u.src("proxy_agent/src/proxy/proxy_connection.rs")
    px = u.src("proxy_agent/src/proxy.rs")
    key = u.src("proxy_agent/src/key_keeper/key.rs")
    consts = u.src("proxy_agent/src/common/constants.rs")
    kkw = u.src("proxy_agent/src/shared_state/key_keeper_wrapper.rs")
    for f in ("str_axioms.rs", "ext_types.rs", "std_string.rs"):
        u.raw(open(os.path.join(COMMON, f)).read())
    u.raw_file("deps.rs")
    u.raw_file("spec.rs")
    err = u.src("proxy_agent/src/common/error.rs")
    with u.mod("common"):
        with u.mod("error"):
            u.take_ext(err, ["Error", "HyperErrorType", "WireServerErrorType", "KeyErrorType", "AclErrorType", "BpfErrorType"], "vx_ext_error", uses="use http::{uri::InvalidUri, StatusCode};")
        with u.mod("result", uses="use super::error::Error;"):
            u.raw("pub type Result<T> = core::result::Result<T, Error>;", names=("Result",))
        stubs.agent_logger_mod(u)
        with u.mod("constants"):
            for n in ("WIRE_SERVER_IP", "WIRE_SERVER_PORT", "GA_PLUGIN_IP", "GA_PLUGIN_PORT", "IMDS_IP", "IMDS_PORT", "PROXY_AGENT_IP", "PROXY_AGENT_PORT"):
                u.take(consts, n, "const")
    with u.mod("key_keeper"):
        with u.mod("key", uses="use std::collections::HashMap;"):
            u.take(key, "Key", "struct", extra_attrs="#[verifier::external_body]")
            u.take(key, "Privilege", "struct")
            u.take(key, "Identity", "struct")
    with u.mod("shared_state"):
        with u.mod("key_keeper_wrapper", uses="use crate::common::error::Error;\nuse crate::common::result::Result;\nuse crate::proxy::authorization_rules::ComputedAuthorizationItem;\nuse crate::key_keeper::key::Key;\nuse std::sync::Arc;\nuse tokio::sync::{mpsc, oneshot, Notify};"):
            u.take_ext(kkw, ["KeyKeeperAction", "KeyKeeperSharedState"], "vx_ext_kkw", uses="use crate::proxy::authorization_rules::ComputedAuthorizationItem;\nuse crate::key_keeper::key::Key;\nuse std::sync::Arc;\nuse tokio::sync::{mpsc, oneshot, Notify};")
            with u.impl_(kkw, "KeyKeeperSharedState"):
                for (f, ep) in (("get_wireserver_rules", "WireServer"), ("get_hostga_rules", "GAPlugin"), ("get_imds_rules", "Imds")):
                    u.take_fn(kkw, "KeyKeeperSharedState::" + f, external_body=True, contract="""
        ensures r == rules_reply(*self, Endpoint::%s),
""" % ep)
    with u.mod("proxy", uses="use std::{ffi::OsString, path::PathBuf};"):
        u.take(px, "Claims", "struct", keep_derive=("Clone",))
        with u.mod("proxy_connection", uses="use log::Level as LoggerLevel;"):
            u.take(pc, "ConnectionLogger", "struct")
            with u.impl_(pc, "ConnectionLogger"):
                u.take_fn(pc, "ConnectionLogger::write", external_body=True)
        with u.mod("authorization_rules", uses="use super::{proxy_connection::ConnectionLogger, Claims};\nuse crate::key_keeper::key::{Identity, Privilege};\nuse std::collections::{HashMap, HashSet};"):
            u.take(ar, "AuthorizationMode", "enum", structural=True)
            u.take(ar, "ComputedAuthorizationItem", "struct")
            with u.impl_(ar, "ComputedAuthorizationItem"):
                u.take_fn(ar, "ComputedAuthorizationItem::is_allowed", external_body=True, contract="""
        ensures r == is_allowed_spec(*self, request_url, claims),
""")
        with u.mod("proxy_authorizer", uses="use log::Level as LoggerLevel;", auto_uses=pa):
            u.take(pa, "AuthorizeResult", "enum", structural=True)
            with u.trait_(pa, "Authorizer", extra="    spec fn spec_auth(&self, url: hyper::Uri, rules: Option<ComputedAuthorizationItem>) -> AuthorizeResult;\n"):
                u.take_fn(pa, "Authorizer::authorize", contract="""
        ensures r == self.spec_auth(request_url, access_control_rules),  // @C03+C11.Authorizer.authorize.refines_table
""", make_pub=False)
                u.take_fn(pa, "Authorizer::to_string", make_pub=False, ret="")
            for (ty, ep, elev) in (("WireServer", "WireServer", "self.claims.runAsElevated"), ("Imds", "Imds", "true"), ("GAPlugin", "GAPlugin", "self.claims.runAsElevated")):
                u.take(pa, ty, "struct")
                with u.impl_(pa, "<%s as Authorizer>" % ty):
                    u.raw("""    open spec fn spec_auth(&self, url: hyper::Uri, rules: Option<ComputedAuthorizationItem>) -> AuthorizeResult {
        auth_table(Endpoint::%s, %s, rule_view(rules, url, self.claims))
    }""" % (ep, elev))
                    u.take_fn(pa, "<%s as Authorizer>::authorize" % ty, make_pub=False, pre_body="broadcast use axiom_fmt_uri;",
                              e9=[("self.claims.clone()", None, "c: &crate::proxy::Claims", "&self.claims", "crate::proxy::Claims", "    ensures r == *c,", dict(body="c.clone()", name="vx_e9_claims_clone_" + ty))])
                    u.take_fn(pa, "<%s as Authorizer>::to_string" % ty, make_pub=False, external_body=True, ret="")
            for (ty, ep) in (("ProxyAgent", "ProxyAgent"), ("Default", "Other")):
                u.take(pa, ty, "struct")
                with u.impl_(pa, "<%s as Authorizer>" % ty):
                    u.raw("""    open spec fn spec_auth(&self, url: hyper::Uri, rules: Option<ComputedAuthorizationItem>) -> AuthorizeResult {
        auth_table(Endpoint::%s, true, None)
    }""" % ep)
                    u.take_fn(pa, "<%s as Authorizer>::authorize" % ty, make_pub=False)
                    u.take_fn(pa, "<%s as Authorizer>::to_string" % ty, make_pub=False, external_body=True, ret="")
            u.take_fn(pa, "get_authorizer", pre_body="broadcast use axiom_str_ext;\nproof { lits_endpoints(); }", contract="""
        ensures forall|url: hyper::Uri, rules: Option<ComputedAuthorizationItem>|
            #[trigger] r.spec_auth(url, rules) == auth_table(endpoint_of(ip@, port), claims.runAsElevated, rule_view(rules, url, claims)),  // @C03.get_authorizer.endpoint_selects_table_row
""")
            u.take_fn(pa, "get_access_control_rules", pre_body="broadcast use axiom_str_ext;\nproof { lits_endpoints(); }", contract="""
        ensures r == (match endpoint_of(ip@, port) {
            Endpoint::WireServer => rules_reply(key_keeper_shared_state, Endpoint::WireServer),
            Endpoint::GAPlugin => rules_reply(key_keeper_shared_state, Endpoint::GAPlugin),
            Endpoint::Imds => rules_reply(key_keeper_shared_state, Endpoint::Imds),
            _ => Ok(None),
        }),  // @C01.get_access_control_rules.policy_of_original_destination
""")
            u.take_fn(pa, "authorize", contract="""
        ensures r == auth_table(endpoint_of(ip@, port), claims.runAsElevated, rule_view(access_control_rules, request_uri, claims)),  // @C03+C11.authorize.refines_table
""")

    # cross-site obligation of C03's second sentence: the listener port given to the redirector (the port the kernel
    # hook diverts to) and to the proxy server is the PROXY_AGENT_PORT that get_authorizer refuses (3080).
    # E5c: the first-argument expressions of the two constructor calls are lifted verbatim.
    sv = u.src("proxy_agent/src/service.rs")
    it = sv.item("start_service", "fn")
    from vxlib import Undecided
    with u.mod("service", uses="use crate::common::constants;"):
        for callee, nm in (("Redirector::new", "redirector"), ("ProxyServer::new", "proxy_server")):
            cs = [c for c in it["calls"] if c["kind"] == "path" and c["callee"].replace(" ", "") == callee]
            if len(cs) != 1 or not cs[0]["args"]:
                raise Undecided("start_service: expected exactly one call of %s, found %d" % (callee, len(cs)))
            a = cs[0]["args"][0]
            u.slice_fn(sv, "start_service", "vx_slice_%s_port" % nm, a[0], a[1], "", ret_type="u16", contract="""
        ensures r == 3080 && r == constants::PROXY_AGENT_PORT,  // @C03.start_service.%s_listens_on_refused_port
""" % nm, what="(first argument of %s)" % callee)
