// ---- assumed specifications of std functions used by unit `redirect` (trusted; copied from contracts/conn/deps.rs) ----
#[verifier::external_type_specification] #[verifier::external_body] #[verifier::reject_recursive_types(T)]
pub struct ExStdMutex<T: ?Sized>(std::sync::Mutex<T>);
#[verifier::external_type_specification] #[verifier::external_body] #[verifier::reject_recursive_types(T)]
pub struct ExStdMutexGuard<'a, T: ?Sized + 'a>(std::sync::MutexGuard<'a, T>);
#[verifier::external_type_specification] #[verifier::external_body] #[verifier::reject_recursive_types(T)]
pub struct ExPoisonError<T>(std::sync::PoisonError<T>);
// -- std::sync::Mutex: `lock` blocks until the mutex is acquired; ASSUMED not poisoned (no holder of the BpfObject
//    mutex panics; DESIGN 2.5 item 8). The guard dereferences to the protected value.
pub assume_specification<T: ?Sized> [std::sync::Mutex::<T>::lock] (m: &std::sync::Mutex<T>) -> (r: std::sync::LockResult<std::sync::MutexGuard<'_, T>>)
    ensures r is Ok;
#[verifier::external_body] pub broadcast proof fn axiom_fmt_poison_error<T>() ensures #[trigger] vstd::std_specs::fmt::fmt_req_all::<std::sync::PoisonError<T>>() {}
// -- field types of common::error::Error (opaque)
#[verifier::external_type_specification] #[verifier::external_body]
pub struct ExIoError(std::io::Error);
#[verifier::external_type_specification] #[verifier::external_body]
pub struct ExFromHexError(hex::FromHexError);
#[verifier::external_type_specification] #[verifier::external_body]
pub struct ExRecvError(tokio::sync::oneshot::error::RecvError);
#[verifier::external_type_specification] #[verifier::external_body]
pub struct ExNulError(std::ffi::NulError);
// (only so that Verus' trait-conflict checker sees the Deref impls that std's DerefMut impls of these types depend on)
#[verifier::external_type_specification] #[verifier::external_body]
pub struct ExOsStr(std::ffi::OsStr);
#[verifier::external_type_specification] #[verifier::external_body]
pub struct ExPath(std::path::Path);
pub assume_specification [<std::ffi::OsString as core::ops::Deref>::deref] (s: &std::ffi::OsString) -> &std::ffi::OsStr;
pub assume_specification [<std::path::PathBuf as core::ops::Deref>::deref] (s: &std::path::PathBuf) -> &std::path::Path;
