// ---- C09 / C06: what ONE redirect-policy update must hand to the BPF object --------------------------------------------------
// Written from the property statements and the endpoint documentation, NOT from the code's constants:
//   C09 "whenever the reported channel state changes each endpoint is intercepted exactly when its mode is not disabled"
//   C06 "every outbound TCP connect ... to an address currently listed in the redirect policy ... is diverted to the proxy listener"
//   endpoints: WireServer 168.63.129.16:80, IMDS 169.254.169.254:80, HostGAPlugin 168.63.129.16:32526

/// the u32 whose IN-MEMORY bytes are a.b.c.d on a little-endian host (C06 "Assumed: little-endian host"): the form in which
/// destination_entry::from_ipv4 copies the address into the policy key, i.e. network byte order as the kernel program reads
/// ctx->user_ip4 (that the key image is built from `dest_ipv4.to_ne_bytes()` is C06.rs.update_redirect_policy_key, Kani)
pub open spec fn ipv4_net(a: int, b: int, c: int, d: int) -> int { a + 256 * b + 65536 * c + 16777216 * d }

pub open spec fn endpoint_ip(e: Endpoint) -> int {
    match e {
        Endpoint::WireServer => ipv4_net(168, 63, 129, 16),
        Endpoint::Imds => ipv4_net(169, 254, 169, 254),
        Endpoint::HostGA => ipv4_net(168, 63, 129, 16),
    }
}
pub open spec fn endpoint_port(e: Endpoint) -> int {
    match e { Endpoint::WireServer => 80, Endpoint::Imds => 80, Endpoint::HostGA => 32526 }
}

/// the arguments of one call of BpfObject::update_redirect_policy(dest_ipv4, dest_port, local_port, redirect)
pub struct PolicyCall { pub dest_ipv4: u32, pub dest_port: u16, pub local_port: u16, pub redirect: bool }

/// THE update the statement asks for when endpoint e is to be intercepted (flag) / left alone (!flag): policy key = e's
/// address and port, value = the agent's listener port
pub open spec fn is_policy_call(c: PolicyCall, e: Endpoint, local_port: u16, flag: bool) -> bool {
    c.dest_ipv4 as int == endpoint_ip(e) && c.dest_port as int == endpoint_port(e) && c.local_port == local_port && c.redirect == flag
}

/// ghost record (E4) of the calls made on the BPF object, in order. What ONE such call does to policy_map (exactly one
/// insert of key (dest_ipv4, dest_port, TCP) -> 127.0.0.1:local_port when redirect, exactly one remove of that key
/// otherwise, byte images as the kernel reads them) is proved with Kani: kani/ebpf_rs clauses C06.rs.update_redirect_policy_*
pub tracked struct Bpf { pub ghost calls: Seq<PolicyCall> }

/// the redirector actor (shared_state/redirector_wrapper.rs: locals `bpf_object`, `local_port`) as ONE update sees it
pub tracked struct RdActor {
    pub ghost loaded: bool,        // the actor holds a BPF object (set by redirector start, cleared by close)
    pub ghost local_port: u16,     // the listener port the redirector was started with ("configured local proxy port")
    pub ghost failed: bool,        // some actor request of this update returned Err (actor task gone)
}
impl RdActor {
    pub open spec fn read_failed(self) -> RdActor { RdActor { failed: true, ..self } }
}

// the endpoint constants are pairwise distinguishable where the statement needs it: an update for one endpoint is not the
// update for another (WireServer and HostGAPlugin share the address and differ in the port; IMDS differs in the address)
pub proof fn lemma_endpoints_have_distinct_policy_keys(a: Endpoint, b: Endpoint)
    requires a != b,
    ensures endpoint_ip(a) != endpoint_ip(b) || endpoint_port(a) != endpoint_port(b),  // @C09+C06.endpoints.distinct_policy_keys
{
}
