# unit `redirect` (C09, argument clause of C06): redirector/linux.rs update_{wire_server,imds,hostga}_redirect_policy.
#   Each is proved to call BpfObject::update_redirect_policy EXACTLY ONCE with ITS endpoint's address and port (taken from the
#   property documentation, not from the code's constants), the local port the redirector actor holds and the flag it was given,
#   and to do nothing when the actor holds no BPF object (or an actor request fails).
#   Unit keykeeper ASSUMES that a call of update_<e>_redirect_policy(flag) is the policy update (Endpoint::<e>, flag) (ghost Redir);
#   REDIRECT_FNS / ENDPOINT_SPEC below are imported there, so both units speak about the same endpoints.
import os
import sys
HERE = os.path.dirname(os.path.abspath(__file__))
COMMON = os.path.join(os.path.dirname(HERE), "common")
sys.path.insert(0, os.path.join(os.path.dirname(os.path.dirname(HERE)), "tools"))
import vxlib  # noqa: E402
from vxlib import Undecided  # noqa: E402

# ---- vocabulary shared with unit `keykeeper` (imported there from this file) ----
ENDPOINT_SPEC = "pub enum Endpoint { WireServer, Imds, HostGA }\n"
# function of redirector/linux.rs <-> the endpoint whose policy entry it maintains
REDIRECT_FNS = (("update_wire_server_redirect_policy", "WireServer"), ("update_imds_redirect_policy", "Imds"), ("update_hostga_redirect_policy", "HostGA"))

ASSUMPTIONS = [
    "BpfObject::update_redirect_policy(dest_ipv4, dest_port, local_port, redirect) is a stub (real signature) that RECORDS its arguments in the ghost Bpf.calls (E4); "
    "what one such call does to policy_map -- exactly one insert of key (dest_ipv4, dest_port, TCP) -> 127.0.0.1:local_port when redirect, exactly one remove of that "
    "key otherwise, byte images as the kernel program reads them -- is PROVED with Kani in kani/ebpf_rs (clauses C06.rs.update_redirect_policy_{map_name,one_call,key,insert,value,remove}; "
    "check C06), not here; that a failed map operation inside it is only logged is visible there too",
    "RedirectorSharedState::{get_bpf_object,get_local_port} are stubs (real signatures): ONE atomic read each of the redirector actor's locals (ghost RdActor{loaded, local_port}): "
    "Ok(Some(_)) iff the actor holds a BPF object, Ok(p) with p the port handed to set_local_port by redirector start; Err sets the ghost flag `failed`. The actor locals are NOT "
    "havocked between the two reads of one update (set_local_port / update_bpf_object / clear_bpf_object are called only by redirector start and close; not checked by a census here). "
    "The real bodies of these two wrappers (ONE Get message each, the value returned is the actor's reply to it) and the four arms of the redirector actor (Get arms reply the "
    "stored local, Set arms store their argument) are under contract in unit `actors` (labels C09+C06.redirector_wrapper.* / C09+C06.redirector_actor.*)",
    "std::sync::Mutex::lock on the BpfObject mutex blocks until acquired and is not poisoned (no holder panics; DESIGN 2.5 item 8), so `.lock().unwrap()` does not panic; "
    "the guard dereferences to the protected BpfObject",
    "the address constants are compared as the u32 whose in-memory bytes on a LITTLE-ENDIAN host are a.b.c.d (ipv4_net; C06 assumes a little-endian host; that "
    "update_redirect_policy builds the key from dest_ipv4.to_ne_bytes() is C06.rs.update_redirect_policy_key)",
    "E13 placeholders BpfObject (wraps aya::Ebpf) and RedirectorSharedState (actor handle); common::error::Error kept verbatim as an opaque external type",
]
FN_PROPS = {f: ["C09", "C06"] for (f, _) in REDIRECT_FNS}

A_ = "Tracked(a): Tracked<&mut RdActor>"
B_ = "Tracked(b): Tracked<&mut Bpf>"

GET_BPF_CONTRACT = """
        ensures
            r matches Ok(v) ==> (v is Some <==> old(a).loaded) && *final(a) == *old(a),
            r is Err ==> *final(a) == old(a).read_failed(),
"""
GET_PORT_CONTRACT = """
        ensures
            r matches Ok(p) ==> p == old(a).local_port && *final(a) == *old(a),
            r is Err ==> *final(a) == old(a).read_failed(),
"""
# the stub of BpfObject::update_redirect_policy: a ghost record of (dest ip, dest port, local port, flag). PROVED in kani/ebpf_rs: what the call does to policy_map
UPDATE_POLICY_CONTRACT = """
        ensures final(b).calls == old(b).calls.push(PolicyCall { dest_ipv4, dest_port, local_port, redirect }),
"""
ONE = "final(b).calls.len() == old(b).calls.len() + 1 && final(b).calls.drop_last() == old(b).calls"


def redirect_fn_contract(f, e):
    return """
        requires !old(a).failed,  // @C09.%(f)s.update_starts_with_no_failed_request
        ensures
            final(a).loaded == old(a).loaded && final(a).local_port == old(a).local_port,
            old(a).loaded && !final(a).failed ==> %(one)s,  // @C09+C06.%(f)s.exactly_one_policy_update_when_the_bpf_object_is_present
            old(a).loaded && !final(a).failed ==> final(b).calls.last().dest_ipv4 as int == endpoint_ip(Endpoint::%(e)s),  // @C09+C06.%(f)s.destination_address_is_its_endpoints
            old(a).loaded && !final(a).failed ==> final(b).calls.last().dest_port as int == endpoint_port(Endpoint::%(e)s),  // @C09+C06.%(f)s.destination_port_is_its_endpoints
            old(a).loaded && !final(a).failed ==> final(b).calls.last().local_port == old(a).local_port,  // @C09+C06.%(f)s.redirects_to_the_configured_local_port
            old(a).loaded && !final(a).failed ==> final(b).calls.last().redirect == redirect,  // @C09+C06.%(f)s.flag_is_the_one_it_was_given
            old(a).loaded && !final(a).failed ==> is_policy_call(final(b).calls.last(), Endpoint::%(e)s, old(a).local_port, redirect),  // @C09+C06.%(f)s.is_the_policy_update_for_its_endpoint
            !old(a).loaded || final(a).failed ==> final(b).calls == old(b).calls,  // @C09+C06.%(f)s.does_nothing_when_the_bpf_object_is_absent
            final(b).calls == old(b).calls || (%(one)s),  // @C09+C06.%(f)s.at_most_one_policy_update
""" % dict(f=f, e=e, one=ONE)


def gc(sf, path, pairs):
    """E4 ghost arguments for every call of the named callees that is present (a call deleted from the tree must make the
    postcondition fail, not the extraction; a duplicated call gets the ghost argument too and is judged by the contract)"""
    it = sf.item(path, "fn")
    out = []
    for (n, extra) in pairs:
        hit = [c for c in it["calls"] if c["callee"].replace(" ", "") == n or c["callee"].replace(" ", "").endswith("::" + n) or c["callee"].replace(" ", "").endswith("." + n)]
        if hit:
            out.append((n, "all", extra))
    return out


def build(u):
    u.features += ["allocator_api", "sized_hierarchy"]
    lx = u.src("proxy_agent/src/redirector/linux.rs")
    rdw = u.src("proxy_agent/src/shared_state/redirector_wrapper.rs")
    cs = u.src("proxy_agent/src/common/constants.rs")
    err = u.src("proxy_agent/src/common/error.rs")
    for f in ("str_axioms.rs", "ext_types.rs", "std_string.rs"):
        u.raw(open(os.path.join(COMMON, f)).read())
    u.raw_file("deps.rs")
    u.raw(ENDPOINT_SPEC)
    u.raw_file("spec.rs")

    with u.mod("common"):
        with u.mod("error"):
            u.take_ext(err, ["Error", "HyperErrorType", "WireServerErrorType", "KeyErrorType", "AclErrorType", "BpfErrorType"], "vx_ext_error", uses="use http::{uri::InvalidUri, StatusCode};")
        with u.mod("result", uses="use super::error::Error;"):
            u.raw("pub type Result<T> = core::result::Result<T, Error>;", names=("Result",))
        with u.mod("constants"):
            # the code's constants, verbatim: the contracts compare them with the documented addresses / ports (spec.rs)
            u.take_all_consts(cs)
    with u.mod("shared_state"):
        with u.mod("redirector_wrapper", uses="use crate::common::result::Result;\nuse crate::redirector;\nuse std::sync::{Arc, Mutex};"):
            u.placeholder_ext(rdw, ["RedirectorSharedState"], "vx_ph_rdw")
            with u.impl_(rdw, "RedirectorSharedState"):
                u.take_fn(rdw, "RedirectorSharedState::get_bpf_object", external_body=True, ghost=A_, contract=GET_BPF_CONTRACT)
                u.take_fn(rdw, "RedirectorSharedState::get_local_port", external_body=True, ghost=A_, contract=GET_PORT_CONTRACT)
    with u.mod("redirector", uses="pub use linux::BpfObject;"):
        with u.mod("linux", auto_uses=lx):
            u.placeholder_ext(lx, ["BpfObject"], "vx_ph_bpf", keep=())
            with u.impl_(lx, "BpfObject"):
                u.take_fn(lx, "BpfObject::update_redirect_policy", external_body=True, ghost=B_, contract=UPDATE_POLICY_CONTRACT, ret="")
            for (f, e) in REDIRECT_FNS:
                u.take_fn(lx, f, ghost=A_ + ", " + B_, ret="", contract=redirect_fn_contract(f, e),
                          ghost_calls=gc(lx, f, [("get_bpf_object", "Tracked(a)"), ("get_local_port", "Tracked(a)"), ("update_redirect_policy", "Tracked(b)")]))
