// ---- external std types used by the disk unit (opaque) ----
#[verifier::external_type_specification]
#[verifier::external_body]
pub struct ExPath(std::path::Path);
#[verifier::external_type_specification]
#[verifier::external_body]
pub struct ExIoError(std::io::Error);
#[verifier::external_type_specification]
#[verifier::external_body]
pub struct ExPathDisplay<'a>(std::path::Display<'a>);

// Display for std::path::Display / the crate's Error does not panic; the text is unconstrained.
#[verifier::external_body]
pub broadcast proof fn axiom_fmt_path_display<'a>() ensures #[trigger] vstd::std_specs::fmt::fmt_req_all::<std::path::Display<'a>>() {}
#[verifier::external_body]
pub broadcast proof fn axiom_fmt_io_error() ensures #[trigger] vstd::std_specs::fmt::fmt_req_all::<std::io::Error>() {}
#[verifier::external_body]
pub broadcast proof fn axiom_fmt_error() ensures #[trigger] vstd::std_specs::fmt::fmt_req_all::<crate::error::Error>() {}

// ---- assumed specifications of std functions (minimal; values unconstrained unless stated) ----
pub assume_specification [std::path::Path::display] (_0: &std::path::Path) -> std::path::Display<'_>;
pub assume_specification<P: core::str::pattern::Pattern> [str::replace::<P>] (s: &str, from: P, to: &str) -> (r: String);
pub assume_specification<P: core::convert::AsRef<std::path::Path>> [std::path::Path::join::<P>] (_0: &std::path::Path, _1: P) -> std::path::PathBuf;
// Result::unwrap_or_else: the closure is called only on Err (std documentation)
pub assume_specification<T, E, F: FnOnce(E) -> T + core::marker::Destruct> [core::result::Result::<T, E>::unwrap_or_else] (res: core::result::Result<T, E>, op: F) -> (r: T)
    requires res is Err ==> op.requires((res->Err_0,)),
    ensures res is Ok ==> r == res->Ok_0,
            res is Err ==> op.ensures((res->Err_0,), r);

// ---- std::io / std::fs types of the rolling logger (opaque) ----
#[verifier::external_type_specification]
#[verifier::external_body]
pub struct ExFile(std::fs::File);
#[verifier::external_type_specification]
#[verifier::external_body]
#[verifier::reject_recursive_types(W)]
pub struct ExLineWriter<W: ?Sized + std::io::Write>(std::io::LineWriter<W>);
#[verifier::external_type_specification]
#[verifier::external_body]
pub struct ExMetadata(std::fs::Metadata);
#[verifier::external_body]
pub broadcast proof fn axiom_fmt_i128() ensures #[trigger] vstd::std_specs::fmt::fmt_req_all::<i128>() {}
#[verifier::external_trait_specification]
pub trait ExIoWrite {
    type ExternalTraitSpecificationFor: std::io::Write;
}
pub assume_specification [std::fs::Metadata::len] (m: &std::fs::Metadata) -> (r: u64)
    ensures r == meta_len(*m);
pub assume_specification [std::path::Path::to_path_buf] (_0: &std::path::Path) -> std::path::PathBuf;
pub assume_specification<P: core::convert::AsRef<std::path::Path>> [std::path::PathBuf::push::<P>] (_0: &mut std::path::PathBuf, _1: P);
