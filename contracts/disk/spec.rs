// ---- C19: abstract directory (ghost, E4) and the bounds of the statement ----------------------------
// One `Dir` value stands for ONE class of files of one directory, as the statement counts them:
//   * the files `RollingLogger::get_log_files` lists for one rolling log (current file + archives),
//   * the files `misc_helpers::get_files` lists in the event directory,
//   * the files `misc_helpers::search_files(dir, "^AuthorizationRules_.*\.json$")` lists (rule dumps).
// `files` maps each such file to its length in bytes. `io_failed` is a sticky flag: some `remove_file`, or the
// directory listing that decides what to delete / whether to write, returned Err since the ghost value was created
// (the bounds are stated for histories in which the OS performs these operations, DESIGN C19).
pub tracked struct Dir {
    pub ghost files: Map<PathBuf, nat>,
    pub ghost io_failed: bool,
}

/// WHICH files of its directory a `Dir` value stands for (= the class the bound is stated about). Each listing function lists one
/// class: `get_files` every regular file, `search_files` the regular files whose name matches its pattern.
pub enum DirKind { AllRegularFiles, FilesMatchingAPattern, FilesOfOneRollingLog }

impl Dir {
    pub open spec fn names(self) -> Set<PathBuf> { self.files.dom() }
    pub open spec fn count(self) -> nat { self.files.dom().len() }
    pub open spec fn wf(self) -> bool { self.files.dom().finite() }
    pub open spec fn size(self, p: PathBuf) -> nat { if self.files.contains_key(p) { self.files[p] } else { 0 } }
}

/// the order `Vec<PathBuf>::sort` uses (Ord for PathBuf: component-wise, bytes of the names). Uninterpreted:
/// the proofs only use that the listing functions return their result sorted by it. Archive / dump names embed
/// the creation time (fixed-width date, then nanoseconds), so `path_le` on them is "not younger than" (assumed).
pub uninterp spec fn path_le(a: PathBuf, b: PathBuf) -> bool;

/// a listing as the three directory-listing functions return it: exactly the files of the class, each once, sorted
pub open spec fn is_listing(l: Seq<PathBuf>, d: Dir) -> bool {
    &&& l.no_duplicates()
    &&& l.to_set() == d.names()
    &&& forall|i: int, j: int| 0 <= i <= j < l.len() ==> path_le(#[trigger] l[i], #[trigger] l[j])
}

// ---- written from the statement --------------------------------------------------------------------
/// "at most the configured number ... is kept"
pub open spec fn within(d: Dir, max: int) -> bool { d.count() <= max }

/// "the oldest being removed first": everything that was removed sorts before (= is not younger than) everything
/// that was kept, and nothing else changed (kept files keep their length; no file appears).
pub open spec fn removed_oldest_first(old_d: Dir, new_d: Dir) -> bool {
    &&& new_d.names().subset_of(old_d.names())
    &&& forall|p: PathBuf| #[trigger] new_d.files.contains_key(p) ==> new_d.files[p] == old_d.files[p]
    &&& forall|x: PathBuf, y: PathBuf| old_d.names().contains(x) && !new_d.names().contains(x) && #[trigger] new_d.names().contains(y)
            ==> #[trigger] path_le(x, y)
}

/// at most one file appeared, nothing else changed
pub open spec fn added_at_most_one(old_d: Dir, new_d: Dir) -> bool {
    exists|p: PathBuf| #[trigger] new_d.names().subset_of(old_d.names().insert(p))
}

pub proof fn lemma_added_one_count(a: Dir, b: Dir)
    requires a.wf(), added_at_most_one(a, b),
    ensures b.wf(), b.count() <= a.count() + 1,
{
    let p = choose|p: PathBuf| #[trigger] b.names().subset_of(a.names().insert(p));
    vstd::set_lib::lemma_len_subset(b.names(), a.names().insert(p));
}

pub proof fn lemma_subset_count(a: Dir, b: Dir)
    requires a.wf(), b.names().subset_of(a.names()),
    ensures b.wf(), b.count() <= a.count(),
{
    vstd::set_lib::lemma_len_subset(b.names(), a.names());
}

/// the effect the statement allows for one rule dump: delete oldest first, then add one file
pub open spec fn deleted_oldest_then_added_one(o: Dir, n: Dir) -> bool {
    exists|mid: Dir| #[trigger] removed_oldest_first(o, mid) && added_at_most_one(mid, n) && mid.names().subset_of(n.names())
}

pub open spec fn min_int(a: int, b: int) -> int { if a <= b { a } else { b } }

pub proof fn lemma_added_refl(a: Dir)
    ensures added_at_most_one(a, a), removed_oldest_first(a, a),
{
    let p: PathBuf = arbitrary();
    assert(a.names().subset_of(a.names().insert(p)));
}

/// deleting the first `c` entries of a sorted duplicate-free listing leaves |l| - c files and removes oldest first
pub proof fn lemma_prefix_removed(l: Seq<PathBuf>, d0: Dir, d: Dir, c: int)
    requires
        d0.wf(), is_listing(l, d0), 0 <= c <= l.len(),
        d.names().subset_of(d0.names()),
        forall|p: PathBuf| #[trigger] d.files.contains_key(p) ==> d.files[p] == d0.files[p],
        forall|k: int| c <= k < l.len() ==> d.files.contains_key(#[trigger] l[k]),
        forall|k: int| 0 <= k < c ==> !d.files.contains_key(#[trigger] l[k]),
    ensures
        d.wf(), d.count() == l.len() - c, removed_oldest_first(d0, d),
{
    let s = l.subrange(c, l.len() as int);
    assert(s.no_duplicates());
    s.unique_seq_to_set();
    assert(d.names() =~= s.to_set()) by {
        assert forall|p: PathBuf| d.names().contains(p) implies s.to_set().contains(p) by {
            assert(l.to_set().contains(p));
            let k = choose|k: int| 0 <= k < l.len() && l[k] == p;
            assert(k >= c);
            assert(s[k - c] == p);
        }
        assert forall|p: PathBuf| s.to_set().contains(p) implies d.names().contains(p) by {
            let k = choose|k: int| 0 <= k < s.len() && s[k] == p;
            assert(l[k + c] == p);
        }
    }
    assert forall|x: PathBuf, y: PathBuf| d0.names().contains(x) && !d.names().contains(x) && #[trigger] d.names().contains(y)
        implies #[trigger] path_le(x, y) by {
        assert(l.to_set().contains(x));
        assert(l.to_set().contains(y));
        let a = choose|k: int| 0 <= k < l.len() && l[k] == x;
        let b = choose|k: int| 0 <= k < l.len() && l[k] == y;
        assert(a < c);
        assert(b >= c);
    }
}

/// File::create / OpenOptions::append on the current log file: creates it empty if it is absent, else leaves it
pub open spec fn created_if_absent(f: Map<PathBuf, nat>, p: PathBuf) -> Map<PathBuf, nat> {
    if f.contains_key(p) { f } else { f.insert(p, 0) }
}

// ---- rolling log: count invariant and size limit ------------------------------------------------------
/// "the number of files kept per rolling log never exceeds its configured count": the invariant that every operation
/// preserves. While the current file is absent (between archiving and re-opening) one slot is kept free for it.
pub open spec fn log_inv(d: Dir, cur: PathBuf, max: int) -> bool {
    d.count() <= max && (!d.files.contains_key(cur) ==> d.count() <= max - 1)
}

/// every file of the class is at most `b` bytes long
pub open spec fn all_sizes_le(d: Dir, b: nat) -> bool {
    forall|p: PathBuf| #[trigger] d.files.contains_key(p) ==> d.files[p] <= b
}

/// number of bytes of the UTF-8 encoding (`String::as_bytes().len()`); uninterpreted, only its being a number is used
pub uninterp spec fn utf8_len(s: Seq<char>) -> nat;

/// bytes `write_many` hands to the writer: every message plus its newline
pub open spec fn total_bytes(ms: Seq<String>) -> nat
    decreases ms.len()
{
    if ms.len() == 0 { 0 } else { total_bytes(ms.drop_last()) + utf8_len(ms.last()@) + 1 }
}

pub proof fn lemma_total_step(ms: Seq<String>, i: int)
    requires 0 <= i < ms.len(),
    ensures total_bytes(ms.take(i + 1)) == total_bytes(ms.take(i)) + utf8_len(ms[i]@) + 1,
{
    assert(ms.take(i + 1).drop_last() =~= ms.take(i));
}

/// a writer on file `p` was handed `k` bytes: only `p` may have grown, by at most `k`; no file appeared or vanished
pub open spec fn appended_at_most(o: Dir, n: Dir, p: PathBuf, k: nat) -> bool {
    &&& n.files.dom() == o.files.dom()
    &&& n.io_failed == o.io_failed
    &&& forall|q: PathBuf| q != p && #[trigger] n.files.contains_key(q) ==> n.files[q] == o.files[q]
    &&& n.files.contains_key(p) ==> n.files[p] <= o.files[p] + k
}

/// length `std::fs::Metadata::len` reports
pub uninterp spec fn meta_len(m: std::fs::Metadata) -> u64;

pub open spec fn renamed(o: Dir, from: PathBuf, to: PathBuf) -> Dir {
    Dir { files: o.files.remove(from).insert(to, o.files[from]), io_failed: o.io_failed }
}

/// archive_file's effect: the current file got its archive name, then oldest files were removed first
pub open spec fn archived_then_removed_oldest(o: Dir, n: Dir, cur: PathBuf) -> bool {
    exists|to: PathBuf| to != cur && o.files.contains_key(cur) && #[trigger] removed_oldest_first(renamed(o, cur, to), n)
}

pub proof fn lemma_rename(o: Dir, n: Dir, from: PathBuf, to: PathBuf)
    requires o.wf(), o.files.contains_key(from), n.files == renamed(o, from, to).files,
    ensures n.wf(), n.count() <= o.count(), n.count() >= o.count() - 1,
            forall|b: nat| #[trigger] all_sizes_le(o, b) ==> all_sizes_le(n, b),
{
    assert(n.files.dom() =~= o.files.dom().remove(from).insert(to));
}

/// the file an open writer appends to (fixed when `open_file` creates the writer)
pub uninterp spec fn wpath(w: LineWriter<File>) -> PathBuf;

pub proof fn lemma_total_mono(ms: Seq<String>, i: int)
    requires 0 <= i <= ms.len(),
    ensures total_bytes(ms.take(i)) <= total_bytes(ms),
    decreases ms.len() - i,
{
    if i == ms.len() {
        assert(ms.take(i) =~= ms);
    } else {
        lemma_total_step(ms, i);
        lemma_total_mono(ms, i + 1);
    }
}

/// a listing has as many entries as the class has files
pub broadcast proof fn lemma_listing_len(l: Seq<PathBuf>, d: Dir)
    requires #[trigger] is_listing(l, d),
    ensures l.len() == d.count(),
{
    l.unique_seq_to_set();
}
