// ---- C19: abstract directory (ghost, E4) and the bounds of the statement ----------------------------
// One `Dir` value stands for ONE class of files of one directory, as the statement counts them:
//   * the files `RollingLogger::get_log_files` lists for one rolling log (current file + archives),
//   * the files `misc_helpers::get_files` lists in the event directory,
//   * the files `misc_helpers::search_files(dir, "^AuthorizationRules_.*\.json$")` lists (rule dumps).
// `files` maps each such file to its length in bytes. `rm_failed` is a sticky flag: some
// `remove_file` returned Err since the ghost value was created (the OS refused to delete; the bound
// is stated for histories in which deletions succeed, DESIGN C19).
pub tracked struct Dir {
    pub ghost files: Map<PathBuf, nat>,
    pub ghost rm_failed: bool,
}

impl Dir {
    pub open spec fn names(self) -> Set<PathBuf> { self.files.dom() }
    pub open spec fn count(self) -> nat { self.files.dom().len() }
    pub open spec fn wf(self) -> bool { self.files.dom().finite() }
    pub open spec fn size(self, p: PathBuf) -> nat { if self.files.contains_key(p) { self.files[p] } else { 0 } }
}

/// the order `Vec<PathBuf>::sort` uses (Ord for PathBuf: component-wise, bytes of the names). Uninterpreted:
/// the proofs only use that the listing functions return their result sorted by it. Archive / dump names embed
/// the creation time (fixed-width date, then nanoseconds), so `path_le` on them is "not younger than" (assumed).
pub uninterp spec fn path_le(a: PathBuf, b: PathBuf) -> bool;

/// a listing as the three directory-listing functions return it: exactly the files of the class, each once, sorted
pub open spec fn is_listing(l: Seq<PathBuf>, d: Dir) -> bool {
    &&& l.no_duplicates()
    &&& l.to_set() == d.names()
    &&& forall|i: int, j: int| 0 <= i <= j < l.len() ==> path_le(#[trigger] l[i], #[trigger] l[j])
}

// ---- written from the statement --------------------------------------------------------------------
/// "at most the configured number ... is kept"
pub open spec fn within(d: Dir, max: int) -> bool { d.count() <= max }

/// "the oldest being removed first": everything that was removed sorts before (= is not younger than) everything
/// that was kept, and nothing else changed (kept files keep their length; no file appears).
pub open spec fn removed_oldest_first(old_d: Dir, new_d: Dir) -> bool {
    &&& new_d.names().subset_of(old_d.names())
    &&& forall|p: PathBuf| #[trigger] new_d.files.contains_key(p) ==> new_d.files[p] == old_d.files[p]
    &&& forall|x: PathBuf, y: PathBuf| old_d.names().contains(x) && !new_d.names().contains(x) && #[trigger] new_d.names().contains(y)
            ==> #[trigger] path_le(x, y)
}

/// at most one file appeared, nothing else changed
pub open spec fn added_at_most_one(old_d: Dir, new_d: Dir) -> bool {
    exists|p: PathBuf| #[trigger] new_d.names().subset_of(old_d.names().insert(p))
}

pub proof fn lemma_added_one_count(a: Dir, b: Dir)
    requires a.wf(), added_at_most_one(a, b),
    ensures b.wf(), b.count() <= a.count() + 1,
{
    let p = choose|p: PathBuf| #[trigger] b.names().subset_of(a.names().insert(p));
    vstd::set_lib::lemma_len_subset(b.names(), a.names().insert(p));
}

pub proof fn lemma_subset_count(a: Dir, b: Dir)
    requires a.wf(), b.names().subset_of(a.names()),
    ensures b.wf(), b.count() <= a.count(),
{
    vstd::set_lib::lemma_len_subset(b.names(), a.names());
}
