# unit `disk` (C19): rolling_logger.rs, event_logger.rs (file-count guard of `start`), authorization_rules.rs write_all
import os
import re
HERE = os.path.dirname(os.path.abspath(__file__))
COMMON = os.path.join(os.path.dirname(HERE), "common")

ASSUMPTIONS = [
    "directory model (E4 ghost `Dir`, one value per class of files): the listing functions RollingLogger::get_log_files, misc_helpers::get_files "
    "and misc_helpers::search_files (stubs here; their real bodies are proved in unit `listing` to list exactly the selected read_dir entries, each "
    "once, sorted - the identification of `Dir.files` with those entries is not proved) return, when Ok, exactly the files of their class, each once, sorted "
    "by Ord for PathBuf; nothing else (other processes, other threads using the same logger) creates files of that class; archive and "
    "dump names embed the creation time (fixed-width date, then nanoseconds) so that path order is age order",
    "POSIX file operations (E9 stubs around std::fs::remove_file / rename / Path::metadata): remove_file Ok removes exactly that file, "
    "Err changes nothing; rename Ok means the source existed and now carries the target name with its length, Err changes nothing; "
    "metadata().len() is the file's length",
    "RollingLogger::open_file (stub) creates the current log file empty if it is absent and changes nothing else; "
    "get_current_file_full_path(Some(t)) differs from get_current_file_full_path(None) (stub)",
    "misc_helpers::json_write_to_file (stub: temp file + rename) adds at most one file to the directory and removes none",
    "LineWriter<File>::write_all of n bytes grows the file it was opened on by at most n bytes and no other file, flush by 0; bytes are "
    "accounted when handed to the writer (they reach the disk at the latest when the writer is dropped at the end of write_line / "
    "write_many, i.e. before the next length check)",
    "a Vec<PathBuf> holds fewer than usize::MAX elements (allocation limit isize::MAX bytes); file lengths fit u64",
    "the bounds are stated for histories in which remove_file and the listing that precedes a deletion / event write do not fail "
    "(ghost flag io_failed); after such a failure the next successful archive_file / write_all restores the bound from any state (proved)",
    "logging helpers (common::logger::write_error/write_information, logger_manager::write_log, get_log_header, date-time helpers) do not "
    "touch the modelled class of files; Display of std::path::Display, std::io::Error, the crate Error and i128 does not panic",
    "configured counts are >= 1: proved at every non-test construction / call site (E5c argument slices), not for arbitrary configuration",
]

DIR = "Tracked(d): Tracked<&mut Dir>"
DIR_RO = "Tracked(d): Tracked<&Dir>"

# std::fs::remove_file (E9 + E4): Ok means the file is gone, Err means nothing changed (POSIX unlink)
REMOVE_FILE_CONTRACT = """
        ensures r is Ok ==> final(d).files == old(d).files.remove(%(p)s) && final(d).io_failed == old(d).io_failed,
                r is Err ==> final(d).files == old(d).files && final(d).io_failed,
"""

# std::fs::rename (E9 + E4): POSIX rename: Ok means `from` existed and now is `to` (replacing it); Err: nothing changed
RENAME_CONTRACT = """
        ensures r is Ok ==> old(d).files.contains_key(from) && final(d).files == old(d).files.remove(from).insert(to, old(d).files[from]),
                r is Err ==> final(d).files == old(d).files,
                final(d).io_failed == old(d).io_failed,
"""

# <LineWriter<File> as Write>::write_all / flush (E9 + E4)
WRITE_CONTRACT = """
        ensures wpath(*final(writer)) == wpath(*old(writer)),
                appended_at_most(*old(d), *final(d), wpath(*old(writer)), %s),
"""

LOGGER_SPEC = """
/// the path `get_current_file_full_path` computes (uninterpreted; `None` = the file being written)
pub uninterp spec fn log_path(l: RollingLogger, ts: Option<String>) -> PathBuf;
impl RollingLogger {
    pub open spec fn cur(self) -> PathBuf { log_path(self, None) }
    pub open spec fn max(self) -> int { self.max_log_file_count as int }
}
"""

# the deletion loop shared (textually) by write_all and archive_file: `count` starts at max and counts removals.
# %(g)s guards the "already removed" fact: write_all ignores a failed removal (flag), archive_file returns on it.
DELETE_LOOP_INV = """
                invariant_except_break
                    it.index@ == count - %(m)s,  // @C19.%(f)s.delete_loop.count_is_max_plus_removed
                    count <= %(l)s.len(),  // @C19.%(f)s.delete_loop.stops_once_count_exceeds_len
                invariant
                    d.wf(),
                    %(m)s <= count <= %(l)s.len() + 1,  // @C19.%(f)s.delete_loop.count_range
                    d.names().subset_of(d0.names()),
                    d.count() <= d0.count(),
                    d0.io_failed ==> d.io_failed,
                    forall|p: PathBuf| #[trigger] d.files.contains_key(p) ==> d.files[p] == d0.files[p],
                    forall|k: int| count - %(m)s <= k < %(l)s.len() ==> d.files.contains_key(#[trigger] %(l)s[k]),  // @C19.%(f)s.delete_loop.newer_files_untouched
                    %(g)sforall|k: int| 0 <= k < count - %(m)s ==> !d.files.contains_key(#[trigger] %(l)s[k]),  // @C19.%(f)s.delete_loop.oldest_prefix_removed
                ensures
                    %(m)s >= 1 ==> count == %(l)s.len() + 1,  // @C19.%(f)s.delete_loop.removes_len_minus_max_plus_one
"""

SIZE_CLAUSE = "forall|b: nat| %s#[trigger] all_sizes_le(*old(d), b) ==> all_sizes_le(*final(d), b)"


def ext_verbatim(u, sf, modname, uses, type_paths, impl_paths, opaque_names):
    """E1: type definitions AND the listed trait impls copied byte-for-byte into a plain-Rust module outside verus!{}
    (rustc checks them, Verus sees the types as opaque external types). take_ext does the types; the impls are copied
    with the same mechanism (no edit at all)."""
    from vxlib import apply_edits
    u.take_ext(sf, type_paths, modname, uses=uses, opaque=False)
    # re-open the module text: take_ext closed it with "} // mod <modname>" as the last ext piece
    close = u.ext_pieces.pop()
    assert close.text.startswith("} // mod " + modname)
    saved = u.pieces
    u.pieces = u.ext_pieces
    for p in impl_paths:
        it = sf.item(p, "impl")
        u.pieces += apply_edits(sf, it["span"][0], it["span"][1], [])
        u.emit("", "glue")
        u.rule("E1", "impl %s kept outside verus! verbatim  <- %s:%d" % (p, sf.rel, sf.line_of(it["span"][0])))
    u.ext_pieces.append(close)
    u.pieces = saved
    for n in opaque_names:
        u.emit("#[verifier::external_type_specification]\n#[verifier::external_body]\npub struct VxEx_%s_%s(crate::%s::%s);" % (modname, n, modname, n), "glue", "E1")


def arg_slices(u, sf, callee, kind, argno, nargs, name, ret_type, contract, only_fns=None):
    """E5c: lift the `argno`-th argument expression of every (non-test) call of `callee` in file `sf` into a generated fn."""
    from vxlib import Undecided
    n = 0
    for it in sf.all_fns():
        if it["path"].startswith("tests::") or it.get("body") is None:
            continue
        if only_fns is not None and it["path"] not in only_fns:
            continue
        for c in it["calls"]:
            if c["kind"] == kind and c["callee"].replace(" ", "") == callee and len(c["args"]) == nargs:
                a = c["args"][argno]
                n += 1
                nm = "%s_%d" % (name, n)
                u.slice_fn(sf, it["path"], nm, a[0], a[1], "", ret_type=ret_type, contract=contract % nm,
                           what="(argument %d of %s)" % (argno, callee))
    if n == 0:
        raise Undecided("no call of %s found in %s" % (callee, sf.rel))
    return n


def build(u):
    u.externs.append("serde_derive")
    u.features += ["pattern", "const_destruct", "print_internals"]
    ar = u.src("proxy_agent/src/proxy/authorization_rules.rs")
    key = u.src("proxy_agent/src/key_keeper/key.rs")
    mh = u.src("proxy_agent_shared/src/misc_helpers.rs")
    err = u.src("proxy_agent_shared/src/error.rs")
    plog = u.src("proxy_agent/src/common/logger.rs")
    for f in ("ext_types.rs",):
        u.raw(open(os.path.join(COMMON, f)).read())
    u.raw("use std::path::{Path, PathBuf};\nuse std::fs::{self, File};\nuse std::io::{LineWriter, Write};")
    u.raw_file("deps.rs")
    u.raw_file("spec.rs")

    # ---- proxy_agent_shared (its modules sit at the crate root, as the bodies' `crate::` paths expect) ----
    with u.mod("error"):
        u.take_ext(err, ["Error", "ParseVersionErrorType", "CommandErrorType"], "vx_ext_error", uses="")
    with u.mod("result", uses="use super::error::Error;"):
        u.raw("pub type Result<T> = core::result::Result<T, Error>;")
    with u.mod("misc_helpers", uses="use crate::result::Result;\nuse serde::Serialize;\nuse std::path::{Path, PathBuf};"):
        # `kind`: WHICH files of the directory the ghost `Dir` stands for; each listing function lists one class only, so counting the
        # files of a directory whose bound is about all files with the pattern-matching listing (or vice versa) fails the precondition
        u.take_fn(mh, "search_files", external_body=True, ghost=DIR_RO + ", Ghost(kind): Ghost<DirKind>", contract="""
        requires kind is FilesMatchingAPattern,  // @C19.search_files.lists_the_class_the_bound_is_about
        ensures r is Ok ==> is_listing(r->Ok_0@, *d) && r->Ok_0@.len() < usize::MAX,
""")
        u.take_fn(mh, "get_files", external_body=True, ghost=DIR + ", Ghost(kind): Ghost<DirKind>", contract="""
        requires kind is AllRegularFiles,  // @C19.get_files.lists_the_class_the_bound_is_about
        ensures final(d).files == old(d).files,
                r is Ok ==> is_listing(r->Ok_0@, *old(d)) && r->Ok_0@.len() < usize::MAX && final(d).io_failed == old(d).io_failed,
                r is Err ==> final(d).io_failed,
""")
        u.take_fn(mh, "json_write_to_file", external_body=True, ghost=DIR, contract="""
        ensures added_at_most_one(*old(d), *final(d)),
                final(d).io_failed == old(d).io_failed,
                forall|p: PathBuf| old(d).files.contains_key(p) ==> #[trigger] final(d).files.contains_key(p),
""")
        u.take_fn(mh, "get_date_time_string_with_milliseconds", external_body=True)
        u.take_fn(mh, "get_date_time_unix_nano", external_body=True)

    # ---- rolling logger ----
    lg = u.src("proxy_agent_shared/src/logger.rs")
    rl = u.src("proxy_agent_shared/src/logger/rolling_logger.rs")
    lm = u.src("proxy_agent_shared/src/logger/logger_manager.rs")
    with u.mod("logger", uses="use crate::misc_helpers;"):
        u.raw("pub type LoggerLevel = log::Level;")
        u.take_fn(lg, "get_log_header", external_body=True)
        with u.mod("logger_manager", uses="use log::Level;"):
            u.take_fn(lm, "write_log", external_body=True, ret="")
        with u.mod("rolling_logger", uses="use crate::misc_helpers;\nuse crate::result::Result;\nuse log::Level;\nuse std::fs::{self, File, OpenOptions};\nuse std::io::{LineWriter, Write};\nuse std::path::PathBuf;"):
            u.take(rl, "RollingLogger", "struct")
            u.raw(LOGGER_SPEC)
            with u.impl_(rl, "RollingLogger"):
                u.take_fn(rl, "RollingLogger::create_new", contract="""
        ensures r.max_log_file_count == log_count,  // @C19.create_new.configured_count_stored
                r.max_log_file_size == log_size,  // @C19.create_new.configured_size_stored
""")
                u.take_fn(rl, "RollingLogger::new", contract="""
        ensures r.max_log_file_count >= 1,
""")
                u.take_fn(rl, "RollingLogger::open_file", external_body=True, ghost=DIR, contract="""
        requires old(d).wf(),
        ensures r is Ok ==> final(d).files == created_if_absent(old(d).files, self.cur()) && wpath(r->Ok_0) == self.cur(),
                r is Err ==> final(d).files == old(d).files,
                final(d).io_failed == old(d).io_failed,
""")
                u.take_fn(rl, "RollingLogger::get_current_file_full_path", external_body=True, contract="""
        ensures r == log_path(*self, timestamp),
                timestamp is Some ==> r != self.cur(),
""")
                u.take_fn(rl, "RollingLogger::get_log_files", external_body=True, ghost=DIR, contract="""
        ensures final(d).files == old(d).files,
                r is Ok ==> is_listing(r->Ok_0@, *old(d)) && r->Ok_0@.len() < usize::MAX && final(d).io_failed == old(d).io_failed,
                r is Err ==> final(d).io_failed,
""")
                u.take_fn(rl, "RollingLogger::archive_file", ghost=DIR,
                          ghost_calls=[("get_log_files", None, "Tracked(d)")],
                          e9=[("fs::rename(current_name, new_file_name)", None, "from: PathBuf, to: PathBuf, " + DIR, "current_name, new_file_name, Tracked(d)", "std::io::Result<()>", RENAME_CONTRACT,
                               dict(name="vx_e9_rename_log", body="fs::rename(from, to)")),
                              ("fs::remove_file(log)", None, "log: PathBuf, " + DIR, "log, Tracked(d)", "std::io::Result<()>", REMOVE_FILE_CONTRACT % dict(p="log"),
                               dict(name="vx_e9_remove_log"))],
                          pre_body="broadcast use axiom_fmt_i128;",
                          loop_iter_names={0: "it"},
                          loop_attrs={0: "#[verifier::loop_isolation(false)]"},
                          loops={0: DELETE_LOOP_INV % dict(l="l", m="max_count", g="", f="archive_file")},
                          hints=[("fs::rename(current_name", None, "after", "proof { lemma_rename(*old(d), *d, current_name, new_file_name); }"),
                                 ("let max_count: usize", None, "before", "let ghost d0 = *d;\nlet ghost l = log_files@;"),
                                 ("for log in log_files", None, "after", "proof { lemma_prefix_removed(l, d0, *d, count - max_count); }"),
                                 ("Ok(())", None, "before", "proof { if l.len() < self.max_log_file_count { lemma_prefix_removed(l, d0, *d, 0); } }"),
                                 ],
                          contract="""
        requires old(d).wf(),
                 self.max_log_file_count >= 1,
        ensures final(d).wf(),
                r is Ok ==> final(d).count() <= self.max() - 1,  // @C19.archive_file.at_most_max_minus_one_kept_for_any_start
                r is Ok ==> !final(d).files.contains_key(self.cur()),  // @C19.archive_file.current_file_archived
                r is Ok ==> archived_then_removed_oldest(*old(d), *final(d), self.cur()),  // @C19.archive_file.oldest_removed_first
                r is Ok ==> final(d).count() >= min_int(old(d).count() - 1, self.max() - 1),  // @C19.archive_file.keeps_allowed_number
                final(d).count() <= old(d).count(),  // @C19.archive_file.never_adds_a_file
                !final(d).io_failed ==> r is Ok || final(d).files == old(d).files,
                old(d).io_failed ==> final(d).io_failed,
                %s,  // @C19.archive_file.no_file_grows
""" % (SIZE_CLAUSE % ""))
                u.take_fn(rl, "RollingLogger::roll_if_needed", ghost=DIR,
                          ghost_calls=[("open_file", 0, "Tracked(d)"), ("open_file", 1, "Tracked(d)"), ("archive_file", None, "Tracked(d)")],
                          e9=[("file.metadata()", None, "file: &PathBuf, " + DIR_RO, "&file, Tracked(d)", "std::io::Result<std::fs::Metadata>", """
        ensures r is Ok ==> d.files.contains_key(*file) && meta_len(r->Ok_0) == d.files[*file],
""", dict(name="vx_e9_metadata"))],
                          hints=[("let file = self.get_current_file_full_path(None);", None, "before",
                                  "let ghost m1 = *d;\nproof { assert forall|b: nat| #[trigger] all_sizes_le(*old(d), b) implies all_sizes_le(m1, b) by {} }")],
                          contract="""
        requires old(d).wf(),
                 self.max_log_file_count >= 1,
        ensures final(d).wf(),
                !final(d).io_failed ==> (log_inv(*old(d), self.cur(), self.max()) ==> log_inv(*final(d), self.cur(), self.max())),  // @C19.roll_if_needed.file_count_invariant
                old(d).io_failed ==> final(d).io_failed,
                r is Ok ==> final(d).files.contains_key(self.cur()) && (final(d).files[self.cur()] < self.max_log_file_size || final(d).files[self.cur()] == 0),  // @C19.roll_if_needed.current_file_below_limit
                %s,  // @C19.roll_if_needed.no_file_grows
""" % (SIZE_CLAUSE % ""))
                WL = """
        requires old(d).wf(),
                 self.max_log_file_count >= 1,
        ensures final(d).wf(),
                !final(d).io_failed ==> (log_inv(*old(d), self.cur(), self.max()) ==> log_inv(*final(d), self.cur(), self.max())),  // @C19.%(f)s.file_count_invariant
                r is Ok ==> final(d).size(self.cur()) <= self.max_log_file_size + %(w)s,  // @C19.%(f)s.current_file_beyond_limit_by_at_most_this_write
                %(s)s,  // @C19.%(f)s.no_file_beyond_limit_by_more_than_one_write
"""
                u.take_fn(rl, "RollingLogger::write_line", ghost=DIR,
                          ghost_calls=[("roll_if_needed", None, "Tracked(d)"), ("open_file", None, "Tracked(d)")],
                          e9=[("writer.write_all(message.as_bytes())", None, "writer: &mut LineWriter<File>, message: &String, " + DIR, "&mut writer, &message, Tracked(d)",
                               "std::io::Result<()>", WRITE_CONTRACT % "utf8_len(message@)", dict(name="vx_e9_write_line_msg")),
                              ('writer.write_all(b"\\n")', None, "writer: &mut LineWriter<File>, " + DIR, "&mut writer, Tracked(d)",
                               "std::io::Result<()>", WRITE_CONTRACT % "1", dict(name="vx_e9_write_line_nl")),
                              ("writer.flush()", None, "writer: &mut LineWriter<File>, " + DIR, "&mut writer, Tracked(d)",
                               "std::io::Result<()>", WRITE_CONTRACT % "0", dict(name="vx_e9_write_line_flush"))],
                          contract=WL % dict(f="write_line", w="utf8_len(message@) + 1",
                                             s=SIZE_CLAUSE % "b >= self.max_log_file_size + utf8_len(message@) + 1 && "))
                u.take_fn(rl, "RollingLogger::write_many", ghost=DIR,
                          ghost_calls=[("roll_if_needed", None, "Tracked(d)"), ("open_file", None, "Tracked(d)")],
                          e9=[("writer.write_all(message.as_bytes())", None, "writer: &mut LineWriter<File>, message: &String, " + DIR, "&mut writer, &message, Tracked(d)",
                               "std::io::Result<()>", WRITE_CONTRACT % "utf8_len(message@)", dict(name="vx_e9_write_many_msg")),
                              ('writer.write_all(b"\\n")', None, "writer: &mut LineWriter<File>, " + DIR, "&mut writer, Tracked(d)",
                               "std::io::Result<()>", WRITE_CONTRACT % "1", dict(name="vx_e9_write_many_nl")),
                              ("writer.flush()", None, "writer: &mut LineWriter<File>, " + DIR, "&mut writer, Tracked(d)",
                               "std::io::Result<()>", WRITE_CONTRACT % "0", dict(name="vx_e9_write_many_flush"))],
                          loop_iter_names={0: "it"},
                          loops={0: """
                invariant
                    d.wf(),
                    wpath(writer) == self.cur(),
                    appended_at_most(d1, *d, self.cur(), total_bytes(ms.take(it.index@))),
"""},
                          # NB the loop attribute is part of the hint text: a hint placed before the `for` statement would
                          # otherwise land between a loop_attrs attribute and the loop
                          hints=[("for message in messages", None, "before", "let ghost d1 = *d;\nlet ghost ms = messages@;\nproof { assert(ms.take(0) =~= Seq::<String>::empty()); }\n#[verifier::loop_isolation(false)]"),
                                 ("writer.write_all(message.as_bytes())", None, "before", "proof { lemma_total_step(ms, it.index@); lemma_total_mono(ms, it.index@ + 1); }"),
                                 ("writer.flush()", None, "before", "proof { assert(ms.take(ms.len() as int) =~= ms); }")],
                          contract=WL % dict(f="write_many", w="total_bytes(messages@)",
                                             s=SIZE_CLAUSE % "b >= self.max_log_file_size + total_bytes(messages@) && "))
                u.take_fn(rl, "RollingLogger::write", ghost=DIR, ghost_calls=[("write_line", None, "Tracked(d)")],
                          contract="""
        requires old(d).wf(),
                 self.max_log_file_count >= 1,
        ensures final(d).wf(),
                !final(d).io_failed ==> (log_inv(*old(d), self.cur(), self.max()) ==> log_inv(*final(d), self.cur(), self.max())),  // @C19.write.file_count_invariant
""")

    # ---- event logger: file-count guard of `start` (E5a loop-body tail) ----
    el = u.src("proxy_agent_shared/src/telemetry/event_logger.rs")
    tl = u.src("proxy_agent_shared/src/telemetry.rs")
    from vxlib import Undecided
    with u.mod("telemetry"):
        u.take_ext(tl, ["Event"], "vx_ext_event", uses="use serde_derive::{Deserialize, Serialize};")
        with u.mod("event_logger", uses="use crate::logger::logger_manager;\nuse crate::misc_helpers;\nuse crate::telemetry::Event;\nuse log::Level;\nuse std::path::PathBuf;"):
            # E13: opaque stand-ins for the two process-wide statics of event_logger.rs, under their own names, so that an edit of the sliced
            # text that consults them is judged by the contract (their answers are unconstrained) instead of failing to compile
            txt = el.s(0, len(el.b))
            if not re.search(r"\bstatic\s+EVENT_QUEUE\s*:", txt) or not re.search(r"\bstatic\s+SHUT_DOWN\s*:", txt):
                raise Undecided("event_logger.rs: the statics EVENT_QUEUE / SHUT_DOWN are no longer declared")
            u.raw("""pub struct VxEventQueue(());
impl VxEventQueue {
    #[verifier::external_body] pub fn is_closed(&self) -> bool { unimplemented!() }
    #[verifier::external_body] pub fn is_empty(&self) -> bool { unimplemented!() }
    #[verifier::external_body] pub fn is_full(&self) -> bool { unimplemented!() }
    #[verifier::external_body] pub fn len(&self) -> usize { unimplemented!() }
    #[verifier::external_body] pub fn close(&self) -> bool { unimplemented!() }
}
pub struct VxShutDown(());
impl VxShutDown {
    #[verifier::external_body] pub fn load(&self, order: std::sync::atomic::Ordering) -> bool { unimplemented!() }
}
#[verifier::external_body] pub const fn vx_mk_event_queue() -> VxEventQueue { VxEventQueue(()) }
#[verifier::external_body] pub const fn vx_mk_shut_down() -> VxShutDown { VxShutDown(()) }
pub exec static EVENT_QUEUE: VxEventQueue ensures true { vx_mk_event_queue() }
pub exec static SHUT_DOWN: VxShutDown ensures true { vx_mk_shut_down() }""")
            u.rule("E13", "event_logger.rs: statics EVENT_QUEUE (ConcurrentQueue<Event>) and SHUT_DOWN (Arc<AtomicBool>) declared as opaque stand-ins with unconstrained is_closed/is_empty/is_full/len/close and load")
            it = el.item("start", "fn")
            if len(it["loops"]) < 1 or it["loops"][0]["kind"] != "loop":
                raise Undecided("event_logger::start: outer `loop` not found")
            lo_, hi_ = it["loops"][0]["body"]
            # the statement that lists the event directory: found from the index (whichever listing function an edit uses: judged by the
            # stub's `kind` precondition, not by the extraction)
            listers = sorted([c for c in it["calls"] if lo_ <= c["span"][0] and c["span"][1] <= hi_ and c["kind"] == "path"
                              and c["callee"].replace(" ", "") in ("misc_helpers::get_files", "misc_helpers::search_files")], key=lambda c: c["span"][0])
            if not listers:
                raise Undecided("event_logger::start: no call of misc_helpers::get_files / search_files in the loop")
            st = u.enclosing_stmt(it, listers[0]["span"][0])
            lister_names = sorted(set(c["callee"].replace(" ", "") for c in listers))
            # census: the only thing in event_logger.rs that creates a file is the json_write_to_file call inside the slice
            writers = [(f["path"], c) for f in el.all_fns() if not f["path"].startswith("tests::") for c in f["calls"]
                       if c["kind"] == "path" and re.search(r"(json_write_to_file|File::create|fs::write|OpenOptions|fs::copy|fs::rename)", c["callee"])]
            if len(writers) != 1 or writers[0][0] != "start" or not (st[0] <= writers[0][1]["span"][0] < hi_):
                raise Undecided("event_logger.rs: expected exactly one file-creating call, inside the guarded part of start's loop; found %s" % [(w[0], w[1]["callee"]) for w in writers])
            u.slice_fn(el, "start", "vx_slice_event_flush", st[0], hi_ - 1,
                       "event_dir: PathBuf, max_event_file_count: usize, events: Vec<Event>, " + DIR + ", Ghost(kind): Ghost<DirKind>",
                       replacements=[("continue;", "all", "return;")],
                       ghost_calls=[(nm, "all", "Tracked(d), Ghost(kind)") for nm in lister_names] + [("misc_helpers::json_write_to_file", None, "Tracked(d)")],
                       pre_body="broadcast use axiom_fmt_path_display;\nbroadcast use axiom_fmt_error;\nbroadcast use axiom_fmt_i128;\nbroadcast use lemma_listing_len;\n",
                       hints=[("let mut file_path", None, "before", "let ghost mid = *d;"),
                              ("match misc_helpers::json_write_to_file", None, "after", "proof { lemma_added_one_count(mid, *d); }")],
                       what="(loop body of start from the file-count check to the end; E5 drops: sleep, shutdown flag, queue draining)",
                       contract="""
        requires old(d).wf(),
                 kind is AllRegularFiles,   // "the event directory never holds more FILES than its cap": the bound is about every regular file
        ensures final(d).wf(),
                final(d).count() <= old(d).count() + 1,
                !final(d).io_failed ==> (final(d).count() > old(d).count() ==> old(d).count() < max_event_file_count),  // @C19.event_logger.start.file_written_only_below_cap
                !final(d).io_failed ==> (within(*old(d), max_event_file_count as int) ==> within(*final(d), max_event_file_count as int)),  // @C19.event_logger.start.cap_never_exceeded
                within(*old(d), max_event_file_count as int) ==> within(*final(d), max_event_file_count as int),  // @C19.event_logger.start.cap_never_exceeded_even_if_listing_fails
""")

    # ---- proxy_agent ----
    consts = u.src("proxy_agent/src/common/constants.rs")
    with u.mod("common"):
        with u.mod("constants"):
            u.take(consts, "MAX_LOG_FILE_COUNT", "const")
        with u.mod("logger"):
            u.take_fn(plog, "write_error", external_body=True, ret="")
            u.take_fn(plog, "write_information", external_body=True, ret="")
    with u.mod("key_keeper"):
        with u.mod("key"):
            ext_verbatim(u, key, "vx_ext_key", "use serde_derive::{Deserialize, Serialize};\nuse std::collections::HashMap;",
                         ["AuthorizationRules", "AuthorizationItem", "AccessControlRules", "Privilege", "Role", "Identity", "RoleAssignment"],
                         ["<AuthorizationItem as Clone>", "<Privilege as Clone>", "<Role as Clone>", "<Identity as Clone>", "<RoleAssignment as Clone>"],
                         [])
    with u.mod("proxy"):
        with u.mod("authorization_rules", uses="use crate::common::logger;\nuse crate::misc_helpers;\nuse std::path::Path;"):
            ext_verbatim(u, ar, "vx_ext_rules", "use serde_derive::{Deserialize, Serialize};\nuse std::collections::{HashMap, HashSet};\nuse crate::vx_ext_key::*;",
                         ["AuthorizationMode", "ComputedAuthorizationItem", "ComputedAuthorizationRules", "AuthorizationRulesForLogging"],
                         [], ["AuthorizationRulesForLogging"])
            with u.impl_(ar, "AuthorizationRulesForLogging"):
                u.take_fn(ar, "AuthorizationRulesForLogging::write_all", ret="", ghost=DIR + ", Ghost(kind): Ghost<DirKind>",
                          ghost_calls=[("misc_helpers::search_files", None, "Tracked(d), Ghost(kind)"),
                                       ("misc_helpers::json_write_to_file", None, "Tracked(d)")],
                          e9=[("std::fs::remove_file(file)", None, "file: &PathBuf, " + DIR, "file, Tracked(d)", "std::io::Result<()>", REMOVE_FILE_CONTRACT % dict(p="*file"), dict(name="vx_e9_remove_dump"))],
                          pre_body="broadcast use axiom_fmt_path_display;\nbroadcast use axiom_fmt_error;\nbroadcast use axiom_fmt_io_error;",
                          loop_iter_names={0: "it"},
                          loop_attrs={0: "#[verifier::loop_isolation(false)]"},
                          loops={0: DELETE_LOOP_INV % dict(l="files@", m="max_file_count", g="!d.io_failed ==> ", f="write_all")},
                          hints=[("return;", None, "before", "proof { lemma_added_refl(*d); }"),
                                 ("let files = match misc_helpers::search_files", None, "after", "let ghost d0 = *d;"),
                                 ("for file in &files", None, "after", "proof { if !d.io_failed { lemma_prefix_removed(files@, d0, *d, count - max_file_count); } }"),
                                 ("let new_file_name", None, "before", "let ghost mid = *d;\nproof { if files.len() < max_file_count { lemma_prefix_removed(files@, d0, mid, 0); } }"),
                                 ("misc_helpers::json_write_to_file", None, "after", "proof { lemma_added_one_count(mid, *d); lemma_subset_count(*d, mid); }")],
                          contract="""
        requires old(d).wf(),
                 max_file_count >= 1,
                 kind is FilesMatchingAPattern,   // "at most the configured number of authorization-rule dumps": the files named like a dump
        ensures final(d).wf(),
                !final(d).io_failed ==> within(*final(d), max_file_count as int) || final(d).files == old(d).files,  // @C19.write_all.at_most_max_dumps_for_any_start
                !final(d).io_failed ==> deleted_oldest_then_added_one(*old(d), *final(d)),  // @C19.write_all.oldest_removed_first
                !final(d).io_failed ==> final(d).count() >= min_int(old(d).count() as int, max_file_count - 1),  // @C19.write_all.keeps_allowed_number
""")

    # ---- call sites: the configured counts are >= 1 (precondition of the functions above) ----
    kk = u.src("proxy_agent/src/key_keeper.rs")
    with u.mod("vx_call_sites", uses="use crate::common::constants;"):
        arg_slices(u, kk, "write_all", "method", 1, 2, "vx_slice_write_all_max", "usize", """
        ensures r >= 1,  // @C19.call_site.%s.max_dump_count_at_least_one
""")
        for rel in ("proxy_agent/src/service.rs", "proxy_agent_extension/src/logger.rs", "proxy_agent_setup/src/logger.rs",
                    "proxy_agent_shared/src/logger/rolling_logger.rs"):
            sf = u.src(rel)
            nm = "vx_slice_log_count_" + rel.split("/")[0].replace("proxy_agent", "pa") + "_" + os.path.basename(rel)[:-3]
            arg_slices(u, sf, "RollingLogger::create_new", "path", 3, 4, nm, "u16", """
        ensures r >= 1,  // @C19.call_site.%s.max_log_file_count_at_least_one
""")
