# unit `disk` (C19): rolling_logger.rs, event_logger.rs (file-count guard of `start`), authorization_rules.rs write_all
import os
HERE = os.path.dirname(os.path.abspath(__file__))
COMMON = os.path.join(os.path.dirname(HERE), "common")

ASSUMPTIONS = []

DIR = "Tracked(d): Tracked<&mut Dir>"
DIR_RO = "Tracked(d): Tracked<&Dir>"


def ext_verbatim(u, sf, modname, uses, type_paths, impl_paths, opaque_names):
    """E1: type definitions AND the listed trait impls copied byte-for-byte into a plain-Rust module outside verus!{}
    (rustc checks them, Verus sees the types as opaque external types). take_ext does the types; the impls are copied
    with the same mechanism (no edit at all)."""
    from vxlib import apply_edits
    u.take_ext(sf, type_paths, modname, uses=uses, opaque=False)
    # re-open the module text: take_ext closed it with "} // mod <modname>" as the last ext piece
    close = u.ext_pieces.pop()
    assert close.text.startswith("} // mod " + modname)
    saved = u.pieces
    u.pieces = u.ext_pieces
    for p in impl_paths:
        it = sf.item(p, "impl")
        u.pieces += apply_edits(sf, it["span"][0], it["span"][1], [])
        u.emit("", "glue")
        u.rule("E1", "impl %s kept outside verus! verbatim  <- %s:%d" % (p, sf.rel, sf.line_of(it["span"][0])))
    u.ext_pieces.append(close)
    u.pieces = saved
    for n in opaque_names:
        u.emit("#[verifier::external_type_specification]\n#[verifier::external_body]\npub struct VxEx_%s_%s(crate::%s::%s);" % (modname, n, modname, n), "glue", "E1")


def build(u):
    u.externs.append("serde_derive")
    u.features += ["pattern", "const_destruct"]
    ar = u.src("proxy_agent/src/proxy/authorization_rules.rs")
    key = u.src("proxy_agent/src/key_keeper/key.rs")
    mh = u.src("proxy_agent_shared/src/misc_helpers.rs")
    err = u.src("proxy_agent_shared/src/error.rs")
    plog = u.src("proxy_agent/src/common/logger.rs")
    for f in ("ext_types.rs",):
        u.raw(open(os.path.join(COMMON, f)).read())
    u.raw("use std::path::{Path, PathBuf};")
    u.raw_file("deps.rs")
    u.raw_file("spec.rs")

    # ---- proxy_agent_shared (its modules sit at the crate root, as the bodies' `crate::` paths expect) ----
    with u.mod("error"):
        u.take_ext(err, ["Error", "ParseVersionErrorType", "CommandErrorType"], "vx_ext_error", uses="")
    with u.mod("result", uses="use super::error::Error;"):
        u.raw("pub type Result<T> = core::result::Result<T, Error>;")
    with u.mod("misc_helpers", uses="use crate::result::Result;\nuse serde::Serialize;\nuse std::path::{Path, PathBuf};"):
        u.take_fn(mh, "search_files", external_body=True, ghost=DIR_RO, contract="""
        ensures r is Ok ==> is_listing(r->Ok_0@, *d) && r->Ok_0@.len() < usize::MAX,
""")
        u.take_fn(mh, "json_write_to_file", external_body=True, ghost=DIR, contract="""
        ensures added_at_most_one(*old(d), *final(d)),
                final(d).rm_failed == old(d).rm_failed,
                forall|p: PathBuf| old(d).files.contains_key(p) ==> #[trigger] final(d).files.contains_key(p),
""")
        u.take_fn(mh, "get_date_time_string_with_milliseconds", external_body=True)
        u.take_fn(mh, "get_date_time_unix_nano", external_body=True)

    # ---- proxy_agent ----
    with u.mod("common"):
        with u.mod("logger"):
            u.take_fn(plog, "write_error", external_body=True, ret="")
            u.take_fn(plog, "write_information", external_body=True, ret="")
    with u.mod("key_keeper"):
        with u.mod("key"):
            ext_verbatim(u, key, "vx_ext_key", "use serde_derive::{Deserialize, Serialize};\nuse std::collections::HashMap;",
                         ["AuthorizationRules", "AuthorizationItem", "AccessControlRules", "Privilege", "Role", "Identity", "RoleAssignment"],
                         ["<AuthorizationItem as Clone>", "<Privilege as Clone>", "<Role as Clone>", "<Identity as Clone>", "<RoleAssignment as Clone>"],
                         [])
    with u.mod("proxy"):
        with u.mod("authorization_rules", uses="use crate::common::logger;\nuse crate::misc_helpers;\nuse std::path::Path;"):
            ext_verbatim(u, ar, "vx_ext_rules", "use serde_derive::{Deserialize, Serialize};\nuse std::collections::{HashMap, HashSet};\nuse crate::vx_ext_key::*;",
                         ["AuthorizationMode", "ComputedAuthorizationItem", "ComputedAuthorizationRules", "AuthorizationRulesForLogging"],
                         [], ["AuthorizationRulesForLogging"])
            with u.impl_(ar, "AuthorizationRulesForLogging"):
                u.take_fn(ar, "AuthorizationRulesForLogging::write_all", ret="", ghost=DIR,
                          ghost_calls=[("misc_helpers::search_files", None, "Tracked(d)"),
                                       ("misc_helpers::json_write_to_file", None, "Tracked(d)")],
                          e9=[("std::fs::remove_file(file)", None, "file: &PathBuf, " + DIR, "file, Tracked(d)", "std::io::Result<()>", """
        ensures r is Ok ==> final(d).files == old(d).files.remove(*file) && final(d).rm_failed == old(d).rm_failed,
                r is Err ==> final(d).files == old(d).files && final(d).rm_failed,
""", dict(name="vx_e9_remove_dump"))],
                          pre_body="broadcast use axiom_fmt_path_display;\nbroadcast use axiom_fmt_error;\nbroadcast use axiom_fmt_io_error;",
                          loop_iter_names={0: "it"},
                          loop_attrs={0: "#[verifier::loop_isolation(false)]"},
                          loops={0: """
                invariant_except_break
                    it.index@ == count - max_file_count,
                    count <= files.len(),
                invariant
                    d.wf(),
                ensures
                    count <= files.len() + 1,
"""},
                          contract="""
        requires old(d).wf(),
        ensures final(d).wf(),
""")
