# unit `disk` (C19): rolling_logger.rs, event_logger.rs (file-count guard of `start`), authorization_rules.rs write_all
import os
HERE = os.path.dirname(os.path.abspath(__file__))
COMMON = os.path.join(os.path.dirname(HERE), "common")

ASSUMPTIONS = []

DIR = "Tracked(d): Tracked<&mut Dir>"
DIR_RO = "Tracked(d): Tracked<&Dir>"

# std::fs::remove_file (E9 + E4): Ok means the file is gone, Err means nothing changed (POSIX unlink)
REMOVE_FILE_CONTRACT = """
        ensures r is Ok ==> final(d).files == old(d).files.remove(%(p)s) && final(d).rm_failed == old(d).rm_failed,
                r is Err ==> final(d).files == old(d).files && final(d).rm_failed,
"""

# std::fs::rename (E9 + E4): POSIX rename: Ok means `from` existed and now is `to` (replacing it); Err: nothing changed
RENAME_CONTRACT = """
        ensures r is Ok ==> old(d).files.contains_key(from) && final(d).files == old(d).files.remove(from).insert(to, old(d).files[from]),
                r is Err ==> final(d).files == old(d).files,
                final(d).rm_failed == old(d).rm_failed,
"""

LOGGER_SPEC = """
/// the path `get_current_file_full_path` computes (uninterpreted; `None` = the file being written)
pub uninterp spec fn log_path(l: RollingLogger, ts: Option<String>) -> PathBuf;
/// the file an open writer appends to
pub uninterp spec fn wpath(w: LineWriter<File>) -> PathBuf;
impl RollingLogger {
    pub open spec fn cur(self) -> PathBuf { log_path(self, None) }
}
"""

# the deletion loop shared (textually) by write_all and archive_file: `count` starts at max and counts removals
DELETE_LOOP_INV = """
                invariant_except_break
                    it.index@ == count - %(m)s,
                    count <= %(l)s.len(),
                invariant
                    d.wf(),
                    %(m)s <= count <= %(l)s.len() + 1,
                    d.names().subset_of(d0.names()),
                    forall|p: PathBuf| #[trigger] d.files.contains_key(p) ==> d.files[p] == d0.files[p],
                    forall|k: int| count - %(m)s <= k < %(l)s.len() ==> d.files.contains_key(#[trigger] %(l)s[k]),
                    !d.rm_failed ==> forall|k: int| 0 <= k < count - %(m)s ==> !d.files.contains_key(#[trigger] %(l)s[k]),
                ensures
                    %(m)s >= 1 ==> count == %(l)s.len() + 1,
"""


def ext_verbatim(u, sf, modname, uses, type_paths, impl_paths, opaque_names):
    """E1: type definitions AND the listed trait impls copied byte-for-byte into a plain-Rust module outside verus!{}
    (rustc checks them, Verus sees the types as opaque external types). take_ext does the types; the impls are copied
    with the same mechanism (no edit at all)."""
    from vxlib import apply_edits
    u.take_ext(sf, type_paths, modname, uses=uses, opaque=False)
    # re-open the module text: take_ext closed it with "} // mod <modname>" as the last ext piece
    close = u.ext_pieces.pop()
    assert close.text.startswith("} // mod " + modname)
    saved = u.pieces
    u.pieces = u.ext_pieces
    for p in impl_paths:
        it = sf.item(p, "impl")
        u.pieces += apply_edits(sf, it["span"][0], it["span"][1], [])
        u.emit("", "glue")
        u.rule("E1", "impl %s kept outside verus! verbatim  <- %s:%d" % (p, sf.rel, sf.line_of(it["span"][0])))
    u.ext_pieces.append(close)
    u.pieces = saved
    for n in opaque_names:
        u.emit("#[verifier::external_type_specification]\n#[verifier::external_body]\npub struct VxEx_%s_%s(crate::%s::%s);" % (modname, n, modname, n), "glue", "E1")


def build(u):
    u.externs.append("serde_derive")
    u.features += ["pattern", "const_destruct"]
    ar = u.src("proxy_agent/src/proxy/authorization_rules.rs")
    key = u.src("proxy_agent/src/key_keeper/key.rs")
    mh = u.src("proxy_agent_shared/src/misc_helpers.rs")
    err = u.src("proxy_agent_shared/src/error.rs")
    plog = u.src("proxy_agent/src/common/logger.rs")
    for f in ("ext_types.rs",):
        u.raw(open(os.path.join(COMMON, f)).read())
    u.raw("use std::path::{Path, PathBuf};\nuse std::fs::{self, File};\nuse std::io::{LineWriter, Write};")
    u.raw_file("deps.rs")
    u.raw_file("spec.rs")

    # ---- proxy_agent_shared (its modules sit at the crate root, as the bodies' `crate::` paths expect) ----
    with u.mod("error"):
        u.take_ext(err, ["Error", "ParseVersionErrorType", "CommandErrorType"], "vx_ext_error", uses="")
    with u.mod("result", uses="use super::error::Error;"):
        u.raw("pub type Result<T> = core::result::Result<T, Error>;")
    with u.mod("misc_helpers", uses="use crate::result::Result;\nuse serde::Serialize;\nuse std::path::{Path, PathBuf};"):
        u.take_fn(mh, "search_files", external_body=True, ghost=DIR_RO, contract="""
        ensures r is Ok ==> is_listing(r->Ok_0@, *d) && r->Ok_0@.len() < usize::MAX,
""")
        u.take_fn(mh, "json_write_to_file", external_body=True, ghost=DIR, contract="""
        ensures added_at_most_one(*old(d), *final(d)),
                final(d).rm_failed == old(d).rm_failed,
                forall|p: PathBuf| old(d).files.contains_key(p) ==> #[trigger] final(d).files.contains_key(p),
""")
        u.take_fn(mh, "get_date_time_string_with_milliseconds", external_body=True)
        u.take_fn(mh, "get_date_time_unix_nano", external_body=True)

    # ---- rolling logger ----
    lg = u.src("proxy_agent_shared/src/logger.rs")
    rl = u.src("proxy_agent_shared/src/logger/rolling_logger.rs")
    with u.mod("logger", uses="use crate::misc_helpers;"):
        u.raw("pub type LoggerLevel = log::Level;")
        u.take_fn(lg, "get_log_header", external_body=True)
        with u.mod("rolling_logger", uses="use crate::misc_helpers;\nuse crate::result::Result;\nuse log::Level;\nuse std::fs::{self, File, OpenOptions};\nuse std::io::{LineWriter, Write};\nuse std::path::PathBuf;"):
            u.take(rl, "RollingLogger", "struct")
            u.raw(LOGGER_SPEC)
            with u.impl_(rl, "RollingLogger"):
                u.take_fn(rl, "RollingLogger::open_file", external_body=True, ghost=DIR, contract="""
        requires old(d).wf(),
        ensures r is Ok ==> final(d).files == created_if_absent(old(d).files, self.cur()) && wpath(r->Ok_0) == self.cur(),
                r is Err ==> final(d).files == old(d).files,
                final(d).rm_failed == old(d).rm_failed,
""")
                u.take_fn(rl, "RollingLogger::get_current_file_full_path", external_body=True, contract="""
        ensures r == log_path(*self, timestamp),
                timestamp is Some ==> r != self.cur(),
""")
                u.take_fn(rl, "RollingLogger::get_log_files", external_body=True, ghost=DIR_RO, contract="""
        ensures r is Ok ==> is_listing(r->Ok_0@, *d) && r->Ok_0@.len() < usize::MAX,
""")
                u.take_fn(rl, "RollingLogger::archive_file", ghost=DIR,
                          ghost_calls=[("get_log_files", None, "Tracked(d)")],
                          e9=[("fs::rename(current_name, new_file_name)", None, "from: PathBuf, to: PathBuf, " + DIR, "current_name, new_file_name, Tracked(d)", "std::io::Result<()>", RENAME_CONTRACT,
                               dict(name="vx_e9_rename_log", body="fs::rename(from, to)")),
                              ("fs::remove_file(log)", None, "log: PathBuf, " + DIR, "log, Tracked(d)", "std::io::Result<()>", REMOVE_FILE_CONTRACT % dict(p="log"),
                               dict(name="vx_e9_remove_log"))],
                          pre_body="broadcast use axiom_fmt_i128;",
                          loop_iter_names={0: "it"},
                          loop_attrs={0: "#[verifier::loop_isolation(false)]"},
                          loops={0: DELETE_LOOP_INV % dict(l="l", m="max_count")},
                          hints=[("let log_files = self.get_log_files", None, "before", "let ghost dr = *d;"),
                                 ("let max_count: usize", None, "before", "let ghost d0 = *d;\nlet ghost l = log_files@;"),
                                 ],
                          contract="""
        requires old(d).wf(),
                 self.max_log_file_count >= 1,
        ensures final(d).wf(),
""")
    # ---- proxy_agent ----
    with u.mod("common"):
        with u.mod("logger"):
            u.take_fn(plog, "write_error", external_body=True, ret="")
            u.take_fn(plog, "write_information", external_body=True, ret="")
    with u.mod("key_keeper"):
        with u.mod("key"):
            ext_verbatim(u, key, "vx_ext_key", "use serde_derive::{Deserialize, Serialize};\nuse std::collections::HashMap;",
                         ["AuthorizationRules", "AuthorizationItem", "AccessControlRules", "Privilege", "Role", "Identity", "RoleAssignment"],
                         ["<AuthorizationItem as Clone>", "<Privilege as Clone>", "<Role as Clone>", "<Identity as Clone>", "<RoleAssignment as Clone>"],
                         [])
    with u.mod("proxy"):
        with u.mod("authorization_rules", uses="use crate::common::logger;\nuse crate::misc_helpers;\nuse std::path::Path;"):
            ext_verbatim(u, ar, "vx_ext_rules", "use serde_derive::{Deserialize, Serialize};\nuse std::collections::{HashMap, HashSet};\nuse crate::vx_ext_key::*;",
                         ["AuthorizationMode", "ComputedAuthorizationItem", "ComputedAuthorizationRules", "AuthorizationRulesForLogging"],
                         [], ["AuthorizationRulesForLogging"])
            with u.impl_(ar, "AuthorizationRulesForLogging"):
                u.take_fn(ar, "AuthorizationRulesForLogging::write_all", ret="", ghost=DIR,
                          ghost_calls=[("misc_helpers::search_files", None, "Tracked(d)"),
                                       ("misc_helpers::json_write_to_file", None, "Tracked(d)")],
                          e9=[("std::fs::remove_file(file)", None, "file: &PathBuf, " + DIR, "file, Tracked(d)", "std::io::Result<()>", REMOVE_FILE_CONTRACT % dict(p="*file"), dict(name="vx_e9_remove_dump"))],
                          pre_body="broadcast use axiom_fmt_path_display;\nbroadcast use axiom_fmt_error;\nbroadcast use axiom_fmt_io_error;",
                          loop_iter_names={0: "it"},
                          loop_attrs={0: "#[verifier::loop_isolation(false)]"},
                          loops={0: DELETE_LOOP_INV % dict(l="files@", m="max_file_count")},
                          hints=[("return;", None, "before", "proof { lemma_added_refl(*d); }"),
                                 ("if files.len() >= max_file_count", None, "before", "let ghost d0 = *d;"),
                                 ("for file in &files", None, "after", "proof { if !d.rm_failed { lemma_prefix_removed(files@, d0, *d, count - max_file_count); } }"),
                                 ("let new_file_name", None, "before", "let ghost mid = *d;\nproof { if files.len() < max_file_count { lemma_prefix_removed(files@, d0, mid, 0); } }"),
                                 ("misc_helpers::json_write_to_file", None, "after", "proof { lemma_added_one_count(mid, *d); lemma_subset_count(*d, mid); }")],
                          contract="""
        requires old(d).wf(),
                 max_file_count >= 1,
        ensures final(d).wf(),
                !final(d).rm_failed ==> within(*final(d), max_file_count as int) || final(d).files == old(d).files,  // @C19.write_all.at_most_max_dumps_for_any_start
                !final(d).rm_failed ==> deleted_oldest_then_added_one(*old(d), *final(d)),  // @C19.write_all.oldest_removed_first
                !final(d).rm_failed ==> final(d).count() >= min_int(old(d).count() as int, max_file_count - 1),  // @C19.write_all.keeps_allowed_number
""")
