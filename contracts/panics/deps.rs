#[verifier::external_type_specification]
pub struct ExLogLevel(log::Level);
#[verifier::external_body]
pub struct VxPushError(());
impl core::fmt::Display for VxPushError {
    #[verifier::external_body]
    fn fmt(&self, f: &mut core::fmt::Formatter<'_>) -> core::fmt::Result { Ok(()) }
}
#[verifier::external_body] pub fn vx_push(ev: crate::proxy_agent_shared::telemetry::Event) -> core::result::Result<(), VxPushError> { unimplemented!() }
#[verifier::external_body] pub fn vx_log(logger_key: String, level: log::Level, message: String) { unimplemented!() }
#[verifier::external_body] pub broadcast proof fn axiom_fmt_push_error() ensures #[trigger] vstd::std_specs::fmt::fmt_req_all::<VxPushError>() {}
#[verifier::external_body]
pub broadcast proof fn axiom_to_string_level(t: &log::Level, s: String)
    ensures #[trigger] vstd::string::to_string_from_display_ensures::<log::Level>(t, s) <==> true {}

#[verifier::external_body]
pub struct VxOpaqueError(());
impl core::fmt::Display for VxOpaqueError {
    #[verifier::external_body]
    fn fmt(&self, f: &mut core::fmt::Formatter<'_>) -> core::fmt::Result { Ok(()) }
}
#[verifier::external_body] pub broadcast proof fn axiom_fmt_opaque_error() ensures #[trigger] vstd::std_specs::fmt::fmt_req_all::<VxOpaqueError>() {}
#[verifier::external_body] pub broadcast proof fn axiom_fmt_usize() ensures #[trigger] vstd::std_specs::fmt::fmt_req_all::<crate::shared_state::agent_status_wrapper::AgentStatusModule>() {}
