# unit `panics` (C13): string slicing / truncation sites fed by caller- or host-controlled text
import os, sys
HERE = os.path.dirname(os.path.abspath(__file__))
CON = os.path.dirname(HERE)
COMMON = os.path.join(CON, "common")
sys.path.insert(0, COMMON)
from vxlib import Undecided

ASSUMPTIONS = [
    "vstd's UTF-8 model of str slicing / is_char_boundary / len (its own specifications)",
    "EVENT_QUEUE.push / logger_manager::log only queue/log (stubs)",
]
FN_PROPS = {}


def build(u):
    el = u.src("proxy_agent_shared/src/telemetry/event_logger.rs")
    tl = u.src("proxy_agent_shared/src/telemetry.rs")
    asw = u.src("proxy_agent/src/shared_state/agent_status_wrapper.rs")
    u.features += ["allocator_api", "sized_hierarchy"]
    for f in ("str_axioms.rs", "std_string.rs", "utf8.rs"):
        u.raw(open(os.path.join(COMMON, f)).read())
    u.raw_file("deps.rs")
    sl = u.src("proxy_agent_shared/src/logger.rs")
    pas = u.src("proxy_agent_shared/src/proxy_agent_aggregate_status.rs")
    u.emit("pub mod proxy_agent_shared {\n#[allow(unused_imports)] use vstd::prelude::*;\n#[allow(unused_imports)] use crate::*;", "glue", "E1")
    u._modpath.append("proxy_agent_shared"); u._emitted.add(("proxy_agent_shared",))
    with u.mod("logger"):
        u.take(sl, "LoggerLevel", "type")
    with u.mod("proxy_agent_aggregate_status"):
        u.take_ext(pas, ["ModuleState", "ProxyAgentDetailStatus"], "vx_ext_aggstatus", uses="use serde_derive::{Deserialize, Serialize};\nuse std::collections::HashMap;", transparent=True)
    with u.mod("telemetry", uses="use serde_derive::{Deserialize, Serialize};"):
        u.take_ext(tl, ["Event"], "vx_ext_event", uses="use serde_derive::{Deserialize, Serialize};")
        with u.impl_(tl, "Event"):
            u.take_fn(tl, "Event::new", external_body=True)
        with u.mod("event_logger", uses="use crate::proxy_agent_shared::telemetry::Event;\nuse log::Level;"):
            u.take(el, "MAX_MESSAGE_LENGTH", "const")
            it = el.item("write_event", "fn")
            pushes = [c for c in it["calls"] if c["kind"] == "method" and c["callee"] == "push"]
            logs = [c for c in it["calls"] if c["kind"] == "path" and c["callee"].replace(" ", "") == "logger_manager::log"]
            if len(pushes) != 1:
                raise Undecided("write_event: expected one EVENT_QUEUE.push call")
            e9 = [((pushes[0]["span"][0], pushes[0]["span"][1]), None, "ev: crate::proxy_agent_shared::telemetry::Event", el.s(pushes[0]["args"][0][0], pushes[0]["args"][0][1]),
                   "core::result::Result<(), VxPushError>", "", dict(name="vx_e9_event_queue_push", body="vx_push(ev)"))]
            for k, c in enumerate(logs):
                e9.append(((c["span"][0], c["span"][1]), None, "logger_key: String, level: log::Level, message: String",
                           ", ".join(el.s(a[0], a[1]) for a in c["args"]), "", "", dict(name="vx_e9_logger_manager_log", body="vx_log(logger_key, level, message)")))
            loops = {0: "invariant end <= 4096, message@ == old_message, utf8_len(message@) > 4096,\n decreases end,"} if it["loops"] else None
            u.take_fn(el, "write_event", extra_attrs="#[verifier::loop_isolation(false)]", e9=e9, loops=loops,
                      pre_body="broadcast use group_utf8, axiom_fmt_push_error, axiom_to_string_level;\nlet ghost old_message = message@;",
                      contract="""
        ensures true,   // @C13.write_event.never_panics  (the obligations are Verus' own: slice on a char boundary, no overflow)
""")

    u._modpath.pop()
    u.emit("} // mod proxy_agent_shared", "glue", "E1")
    # ---- AgentStatusSharedState::get_module_status: `&message[0..MAX]` on a module status message (host error text) ----
    import stubs
    with u.mod("common"):
        stubs.agent_logger_mod(u)
        with u.mod("result"):
            u.raw("pub type Result<T> = core::result::Result<T, crate::VxOpaqueError>;", names=("Result",))
    with u.mod("shared_state"):
        u.take(u.src("proxy_agent/src/shared_state.rs"), "UNKNOWN_STATUS_MESSAGE", "const")
        with u.mod("agent_status_wrapper", uses="use log::Level as LoggerLevel;", auto_uses=asw):
            u.take(asw, "MAX_STATUS_MESSAGE_LENGTH", "const")
            u.take_ext(asw, ["AgentStatusModule"], "vx_ext_asmodule", uses="")
            u.placeholder_ext(asw, ["AgentStatusSharedState"], "vx_ph_asw")
            with u.impl_(asw, "AgentStatusSharedState"):
                u.take_fn(asw, "AgentStatusSharedState::get_module_state", external_body=True)
                u.take_fn(asw, "AgentStatusSharedState::get_module_status_message", external_body=True)
                gi = asw.item("AgentStatusSharedState::get_module_status", "fn")
                loops = {0: "invariant end <= 1024, utf8_len(message@) > 1024,\n decreases end,"} if gi["loops"] else None
                u.take_fn(asw, "AgentStatusSharedState::get_module_status", extra_attrs="#[verifier::loop_isolation(false)]", loops=loops,
                          pre_body="broadcast use group_utf8, axiom_fmt_opaque_error, axiom_fmt_usize;",
                          contract="""
        ensures true,   // @C13.get_module_status.never_panics  (obligation: the status message is cut on a char boundary)
""")
