# property -> units, unit -> engine.  (DESIGN.md section 2.1)
UNITS = {
    "health": dict(engine="verus", serves=["C20"]),
}

PROPERTIES = {
    "C20": dict(
        units=["health"],
        technique="Verus contracts on the extracted real functions (update_state refines a spec automaton; inductive history lemmas)",
        level_text="Deductive proof (Verus/Z3) for all histories: StatusState::update_state, extracted verbatim, is proved to refine the "
                   "hysteresis automaton written from the statement (thresholds 1/20, saturation 10000) and history lemmas are proved by "
                   "induction over arbitrary observation sequences; ServiceState::update_service_state_entry is proved against a whole-map "
                   "postcondition and the call site is proved to pass 120.",
        level_note="Trusted: Verus/Z3/rustc; &str and String extensionality axioms; vstd HashMap model plus assumed spec of HashMap::get_mut "
                   "with borrowed str keys; String::to_string/ne specs; that the extension's monitor loop calls update_state once per "
                   "observation (loop not under contract).",
        design_ref="DESIGN.md section 3 C20",
        assumptions=[],
    ),
}

NOT_APPLICABLE = {
    "C12": "secrecy over all outputs is a hyper-property (non-interference); no function contract expressible in Verus/Kani/CBMC here decides 'does not depend on the key' for format!/Display-built text, and a syntactic taint scan is a different family (DESIGN.md section 4)",
}
# properties whose units are not built yet are listed as not_applicable by tools/mkmanifest.py with this reason
NOT_YET = "contract-based check not built yet in this session (planned in DESIGN.md section 3); not claimed until its check verifies the unchanged tree"
