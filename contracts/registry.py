# property -> units, unit -> engine.  (DESIGN.md section 2.1)
UNITS = {
    "health": dict(engine="verus", serves=["C20"]),
    "health_sites": dict(engine="verus", serves=["C20"]),
    "authz": dict(engine="verus", serves=["C02", "C11", "C13", "C01", "C04"]),
    "handler": dict(engine="verus", serves=["C01", "C03", "C05", "C10", "C11", "C14", "C15"]),
    "disk": dict(engine="verus", serves=["C19"]),
    "listing": dict(engine="verus", serves=["C19", "C13"]),
    "provision": dict(engine="verus", serves=["C16"]),
    "telemetry": dict(engine="verus", serves=["C18"]),
    "setup": dict(engine="verus", serves=["C17"]),
    "panics": dict(engine="verus", serves=["C13"]),
    "panic_bytes": dict(engine="kani", serves=["C13", "C14"], path="kani/panic_bytes", kind="Kani harnesses over verbatim byte-level slices (bounded UTF-16 frame; full-domain byte map)"),
    "conn":   dict(engine="verus", serves=["C07", "C13", "C03", "C01", "C05"]),
    "actors": dict(engine="verus", serves=["C09", "C10", "C11", "C13", "C07"]),
    "sign": dict(engine="verus", serves=["C04", "C10", "C13", "C15"]),
    "keystore":  dict(engine="verus", serves=["C08", "C13"]),
    "keykeeper": dict(engine="verus", serves=["C08", "C09", "C13", "C10"]),
    "ebpf_c":  dict(engine="cbmc", serves=["C06", "C07"], path="c/ebpf", kind="CBMC function contracts (goto-instrument --dfcc) on the unmodified linux-ebpf/ebpf_cgroup.c against a contract-level model of the BPF helpers; gcc replay of counterexamples"),
    "ebpf_rs": dict(engine="kani", serves=["C06"], path="kani/ebpf_rs", kind="Kani full-domain harnesses over the real ebpf_obj.rs (#[path]) and byte-for-byte extracted redirector items; layout table shared with the C side"),
    "authorizer": dict(engine="verus", serves=["C03", "C11", "C01", "C13"]),
    "redirect": dict(engine="verus", serves=["C09", "C06", "C13"]),
}

PROPERTIES = {
    "C20": dict(
        units=["health", "health_sites"],
        technique="Verus contracts on the extracted real functions (update_state refines a spec automaton; inductive history lemmas; "
                  "every call site that publishes a health status proved to step the automaton once per observation and to publish its output)",
        level_text="Deductive proof (Verus/Z3) for all histories: StatusState::update_state, extracted verbatim, is proved to refine the "
                   "hysteresis automaton written from the statement (thresholds 1/20, saturation 10000) and history lemmas are proved by "
                   "induction over arbitrary observation sequences; ServiceState::update_service_state_entry is proved against a whole-map "
                   "postcondition and the call site is proved to pass 120. Unit health_sites: every function of the extension service that "
                   "publishes a health status (report_proxy_agent_service_status, extension_substatus, report_proxy_agent_aggregate_status, "
                   "restore_purge_proxyagent, the monitor_thread loop), extracted verbatim, is proved to feed each observation exactly once to "
                   "the automaton with the flag of what the branch observed and to publish (status.status handed to common::report_status / left "
                   "on return) exactly the text of the automaton state reached - never a literal, never a stale text; so Error is published only "
                   "through the automaton and the history lemmas apply to every published text (lemma_site_publishes_run).",
        level_note="Trusted: Verus/Z3/rustc; &str and String extensionality axioms; vstd HashMap model plus assumed spec of HashMap::get_mut "
                   "with borrowed str keys; String::to_string/ne specs. Call sites: the setup tool's exit status is not a health observation of "
                   "the agent - report_proxy_agent_service_status records a FAILED observation in all three branches (exit 0 / exit != 0 / could "
                   "not be run) by design: the report is written before the (re)installed agent has been observed and yields Transitioning while "
                   "the update is in progress; the only successful observation is the version match of extension_substatus. Stubs with no effect "
                   "on a StatusState (logger, event_logger, SimpleSpan, misc_helpers, common::report_status and the other common:: helpers, "
                   "write_state_event, backup_proxyagent, std::process / serde_json / tokio sleep); misc_helpers::json_read_from_file records "
                   "what it returned in a ghost value. Not covered: the handler process (handler_main.rs report_os_not_supported, enable_handler "
                   "start failure) publishes a literal Error for handler-command failures - these are not agent health reports and have no "
                   "StatusState; windows-only report_ebpf_status (substatus only).",
        design_ref="DESIGN.md section 3 C20",
        assumptions=[],
    ),
}

PROPERTIES["C03"] = dict(
    units=["authorizer", "handler", "conn"],
    technique="Verus contracts on the extracted real functions (trait-level spec function, table refinement, corollary lemmas)",
    level_text="Deductive proof (Verus/Z3), all inputs and configurations: every Authorizer impl, get_authorizer and authorize, extracted "
               "verbatim from proxy_authorizer.rs, are proved to compute the decision table written from the statement; the two sentences "
               "of C03 are lemmas over that table for every rule view, mode and default access. In unit handler the upstream write "
               "primitive (TcpConnectionContext::send_request) and every function between it and the listener carry the precondition "
               "root_only_respected (not a non-elevated WireServer/HostGAPlugin caller, not the proxy's own listener), proved at every call "
               "of handle_new_http_request / handle_request_with_signature for every mode incl. audit and disabled.",
    level_note="Trusted: Verus/Z3/rustc; is_allowed's contract (decided in C02's unit); String==&str compares characters; &str "
               "extensionality; logging stubs. Not covered: the end-to-end relay (C01's contract).",
    design_ref="DESIGN.md section 3 C03",
    assumptions=[],
)

PROPERTIES["C02"] = dict(
    units=["authz"],
    technique="Verus contracts on the extracted real functions (decision spec from the statement, loop invariants over HashMap/HashSet iteration)",
    level_text="Deductive proof (Verus/Z3) for every rule document (missing sections, dangling names, duplicate names, any length), "
               "caller and URL: ComputedAuthorizationItem::from_authorization_item, extracted verbatim, is proved (three nested loops, "
               "inductive invariants over the prefix of role assignments / privileges / identities processed) to build tables that "
               "represent the document (repr), is_allowed, Privilege::is_match, Identity::is_match and hyper_client::query_pairs are "
               "proved to return exactly the decision / match / parameter list written from the statement, and a lemma proves that the "
               "decision on the tables equals the decision the statement defines on the document; order-independence over "
               "HashMap/HashSet iteration is part of the proof because the postcondition mentions no order.",
    level_note="Trusted: Verus/Z3/rustc; assumed specs of str::to_lowercase/starts_with/split/splitn, Uri::path/query, OsString/PathBuf "
               "From<&String> and ==, HashMap/HashSet model (vstd) incl. get_mut through a borrowed key; `find` returns the first "
               "element satisfying the (verified, lifted) closure; derived Clone of Privilege/Identity returns an equal value. "
               "Duplicate names inside one section: the last item of that name is the one in force (statement is silent; lemma "
               "distinct_names_last_is_the_item shows this is `the item` when names are distinct). A request repeating a query key is "
               "matched on its first occurrence. serde parsing of the JSON document is outside (the document is the parsed value).",
    design_ref="DESIGN.md section 3 C02",
    assumptions=[],
)

PROPERTIES["C01"] = dict(
    units=["handler", "authorizer", "conn", "authz"],
    technique='Verus contracts on the extracted real functions: capability precondition (may_relay) on the single upstream write primitive; refusal-status postcondition of the request handler',
    level_text="Deductive proof (Verus/Z3) for every request, caller, destination and rule set: hyper's http1::SendRequest::send_request as called by Client::send_request (E9 stub: the only upstream write primitive of the request path; Client::send_request, TcpConnectionContext::send_request and HttpConnectionContext::send_request above it are verified bodies) carries the precondition may_relay = no '..' in the path, connection attributed (original destination and caller claims present), policy lookup for the ORIGINAL destination succeeded and the declared decision table does not forbid; handle_new_http_request, handle_request_with_signature, HttpConnectionContext::send_request, convert_request, forward_response, log_connection_summary, extracted verbatim, are proved to establish it at every call, and handle_new_http_request is proved to answer 404/421/500/403 with an empty body whenever may_relay is false. get_access_control_rules/authorize are proved against the same table in unit authorizer; that the attribution a connection carries is its OWN record, consumed when used (so that `attributed` cannot mean a stale record of an earlier connection), is unit conn (C07's clauses; remove_audit's is labelled for C01 too).",
    level_note="Trusted: Verus/Z3/rustc; hyper calls the service once per parsed request and nothing else writes to the upstream socket; the accept-time connect made by TcpConnectionContext::new carries no payload; rules_reply (the key-keeper actor's answer) is uninterpreted so results hold for every policy; E9 stubs (StatusCode constants, body collection, derived Clone of claims/contexts, hyper body plumbing); is_allowed's contract is decided in unit authz, attribution in unit conn. A request to /provision is served locally. Not covered: hyper's own parsing; OS-thread races.",
    design_ref="DESIGN.md section 3 C01",
    assumptions=[],
)

PROPERTIES["C19"] = dict(
    units=["disk", "listing"],
    technique="Verus contracts on the extracted real functions over a ghost directory model (E4 Tracked<&mut Dir> threaded through stubs of remove_file/rename/open/write/listing); whole-directory postconditions and inductive invariants",
    level_text="Deductive proof (Verus/Z3), all histories and any start state: write_all and RollingLogger::archive_file (verbatim, incl. their "
               "deletion loops and usize/u16 overflow obligations) are proved to leave at most max-1 files of their class for ANY number found, "
               "removing a prefix of the sorted listing (oldest first), so that after the one file written / re-opened the count is <= max; "
               "roll_if_needed/write_line/write_many/write preserve the count invariant and keep every log file <= limit + one write; the "
               "file-count guard of event_logger::start (E5 slice) writes only when listed files < cap; configured counts >= 1 proved at every call site. "
               "Unit listing: the real bodies of RollingLogger::get_log_files, misc_helpers::get_files and misc_helpers::search_files (read_dir loop, "
               "metadata, name test / regex match on the file name, sort) are proved, against a ghost model of what read_dir yields, to list every "
               "file of their class (regular files whose name starts with the configured log file name / all regular files / regular files whose "
               "name matches the pattern), only selected entries, each once, sorted.",
    level_note="Trusted: Verus/Z3/rustc; the directory model (listing stubs return exactly the class, sorted; POSIX remove/rename/metadata; "
               "open_file creates the current file empty; json_write_to_file adds <= 1 file; LineWriter bytes accounted when handed over); "
               "name order = age order for archive/dump names; Vec length < usize::MAX. Bounds hold along histories where remove_file and the "
               "deciding listing do not fail (after a failure the next roll/write_all restores them from any state, proved). Not covered: "
               "several threads using one RollingLogger, other processes writing the directories. The two directory models are not linked by a "
               "lemma: unit disk assumes its listing stubs list their class `Dir.files`; unit listing proves what the real bodies of get_log_files, "
               "get_files, search_files (and get_file_name) list over `DirModel.entries` (std::fs read_dir/metadata/sort, regex and OsStr contracts assumed).",
    design_ref="DESIGN.md section 3 C19",
    assumptions=[],
)

PROPERTIES["C11"] = dict(
    units=["handler", "authorizer", "authz", "actors"],
    technique='Verus contracts on the extracted real functions: decision-table refinement (authorizer), ghost trace of authorization decisions and failed-summary events (handler), actor arm + wrapper bodies with channel specs (actors)',
    level_text="Deductive proof (Verus/Z3): authorize returns Forbidden in enforce mode, OkWithAudit in audit mode for a denied request and never consults the rules in disabled mode (is_allowed returns before any match); handle_new_http_request takes at most one decision per request, equal to the declared one, answers 403 with nothing relayed iff it is Forbidden, relays an audited denial through the same precondition as an allowed request, and hands exactly one event, carrying the caller's user, command line, executable, client and destination, to add_one_failed_connection_summary iff the decision is a denial; that wrapper never drops a message while the status actor lives (send().await; a try_send variant fails the contract); the actor arm adds one to the count filed under summary.to_key_string() and leaves every other entry unchanged; history lemma: n identical denials give count n.",
    level_note='Trusted: Verus/Z3/rustc; tokio mpsc/oneshot specs (send waits for capacity and fails only if the receiver is gone); HashMap Entry API model; E6 format! assumption for the key string; u64 count does not overflow within the daily reset. Observation (proved lemma, not a failing clause): the space-separated summary key is not injective across field boundaries. Not covered: the actor dispatch loop itself, serialisation of the summary into status.json.',
    design_ref="DESIGN.md section 3 C11",
    assumptions=[],
)

PROPERTIES["C16"] = dict(
    units=["provision"],
    technique="Verus contracts on the extracted real functions; rely/guarantee over a ghost per-task record threaded through the actor-wrapper stubs; actor arms as E5 slices; transition-system lemmas for all schedules; capability preconditions",
    level_text="Deductive proof (Verus/Z3) for every await-point interleaving: each arm of the provision actor (verbatim slices) performs st|s / st&!s / tick:=now|0 and replies the new value; update/reset/timeup set 'finished' only with evidence (a reply showing all three ready, or being the deadline handler), proved against a havocked actor state; that evidence keeps the stored tick truthful under every schedule (induction); the error text is proved equal to one section per not-ready subsystem, empty iff all ready; the /provision handler (whole function, real hyper types) answers that text and finished only if (tick!=0 && tick>=query instant) or latched; status.tag is produced only by rename of a fully written status.tag.tmp.",
    level_note="Trusted: Verus/Z3/rustc; wrapper-method contracts (dispatch loop and tokio channels not verified); bitflags semantics (validated exhaustively by contracts/provision/validate_bitflags.sh); http/hyper/serde_json/std::fs specs; POSIX rename atomic; clock>0; syntactic caller census. Not covered: OS-thread-parallel writers sharing status.tag.tmp, fsync/durability, provisioned.tag, wall-clock monotonicity.",
    design_ref="DESIGN.md section 3 C16",
    assumptions=[],
)

PROPERTIES["C18"] = dict(
    units=["telemetry"],
    technique="Verus contracts on the extracted real functions: ghost upload/removal trace (E4), counting (multiset) loop invariants with "
              "termination measures on send_events, view-based contracts on TelemetryData, entity-encoding refinement of xml_escape, "
              "to_xml_event against a fixed-markup document spec",
    level_text="Deductive proof (Verus/Z3) for all event lists, sizes, contents and upload-failure patterns: send_events, extracted verbatim, "
               "terminates (decreases on both loops), puts every event value into the batches at most as often as it occurs in the input, "
               "drops only events whose singleton document already reaches 65536 bytes, and every batch it hands on is non-empty and "
               "< 65536 bytes (UTF-8) of the document to_xml builds; send_data_to_wire_server uploads that same document 1..5 times and "
               "re-sends only after a failed attempt; WireServerClient::send_telemetry_data (real body) sends nothing for an empty document, "
               "otherwise hands at most ONE request to the network whose body is exactly the document's bytes and returns Ok if and only if "
               "the host answered 2xx (so an accepted batch is never reported as failed and POSTed again; what the host accepted is exactly "
               "the attempts recorded as accepted: Trace::host_agrees, part of the trace invariant); process_events_and_clean calls clean_files for every input file on the Ok and the Err "
               "read path; xml_escape is proved to be the one-pass entity encoding (no < > \" ' in the result, decodes back to the original "
               "text) and to_xml_event to emit exactly the fixed markup with encoded/decimal values; the only `]]>` in an event is its own "
               "closing one.",
    level_note="Trusted: Verus/Z3/rustc; the redirect of hyper_client::send_request records (request body bytes, status of the host's response "
               "or none) in the trace and is the only write primitive of the upload; build_request's request carries the given body (proved in "
               "unit sign); String::as_bytes is the UTF-8 encoding, StatusCode::is_success is 200..=299, Response::status reads the status; "
               "Uri parsing / Method::POST behind E9; from_event_log is a function of its arguments; derived "
               "Clone of VmMetaData; str::replace(char,&str) is a per-char flat map; String::len is UTF-8 bytes; format! with one {} "
               "concatenates literal pieces and Display(arg), u64 shown as decimal digits (23 generated stubs, contract read from the tree's "
               "literals); [0;5] yields 5 items; Display does not panic. Not covered: the host's XML parser; the HTTP layer below "
               "hyper_client::send_request (hyper plumbing: a transport error after the host processed the request is a failure here and "
               "the batch is POSTed again - inherent to retrying); file-system faults (a refused removal makes the next scan re-read the file); the usize overflow of the "
               "log-only event counter (E9, C13 scope); process_events / loop_reader (callers) are not under contract.",
    design_ref="DESIGN.md section 3 C18",
    assumptions=[],
)

PROPERTIES["C17"] = dict(
    units=["setup"],
    technique="Verus contracts on the extracted real functions over an abstract file system + effect trace (ghost World threaded by E4); per-command refinement of spec operations; round-trip and history lemmas",
    level_text="Deductive proof (Verus/Z3), all file contents, all setup directories, all command sequences: every function of proxy_agent_setup's linux.rs/backup.rs/setup.rs/running.rs, main.rs's helpers and its five command arms (E5 slices), proxy_agent_shared service.rs and linux_service.rs, extracted verbatim, are proved against full-frame contracts; each arm refines step_ok(cmd); restore(install(backup(fs))) is proved byte-identical to fs on the four system paths, no path outside {system locations, backup folder} ever changes (also under I/O faults), and no system file changes while the service is not stopped, install/restore ending with systemctl start.",
    level_note="Trusted: Verus/Z3/rustc; assumed contracts of fs::copy/remove_file/remove_dir_all/Path::exists/execute_command (spec.rs *_post) and PathBuf::from/join as component arithmetic; paths = component sequences (no symlinks/..); systemctl is an opaque trace event (its own symlink bookkeeping and exit status not modelled). Positive clauses hold for fault-free runs and normal return (process::exit/panic paths make no claim); round trip requires all four system files present before the upgrade and the setup dir not containing a system file. Not covered: clap parsing, extension driver service_main.rs, Windows.",
    design_ref="DESIGN.md section 3 C17",
    assumptions=[],
)

PROPERTIES["C05"] = dict(
    units=["handler", "conn"],   # conn: Claims::from_audit_entry - the elevation flag the claims header states is the one the kernel recorded,
    technique="Verus contracts on the extracted real functions (header-map view; precondition on the upstream write primitive)",
    level_text="Deductive proof (Verus/Z3) for every client header set: the request handed to the upstream write primitive has exactly one "
               "x-ms-azure-host-claims value, equal to the JSON stating whether the ATTRIBUTED caller is elevated, exactly one "
               "x-ms-azure-host-date value produced by the proxy's clock in this call, and on signed requests exactly one authorization value "
               "(the computed one); proved on handle_new_http_request / handle_request_with_signature extracted verbatim.",
    level_note="Trusted: http::HeaderMap::insert replaces every value of a case-normalised name (assumed spec, from the crate documentation); "
               "hyper lower-cases incoming header names into HeaderName; E6: the claims text is the format! literal's segments with the two "
               "displayed arguments; get_date_time_rfc1123_string is the proxy's clock. Not covered: an authorization header on a request the "
               "proxy does not sign (no key latched, exempt URLs) is forwarded as the client sent it.",
    design_ref="DESIGN.md section 3 C05",
    assumptions=[],
)

PROPERTIES["C15"] = dict(
    units=["handler", "sign"],
    technique="Verus contracts on the extracted real functions (limit-layer choice slice; collected-body capability in the upstream primitive's precondition)",
    level_text="Deductive proof (Verus/Z3): the statements of the service closure that pick the body-limit layer (E5 slice, verbatim) choose "
               "limit 104857600 iff should_skip_sig(method, uri) and 102400 otherwise (constants evaluated by Verus); on every path of "
               "handle_request_with_signature / convert_request / handle_new_http_request a failed body collection is answered 400 and the "
               "upstream write primitive is reachable only with the whole collected body (fwd_ok: orig.body == Some(bytes sent)).",
    level_note="Assumed (dependency behaviour, tower_http::limit): a declared Content-Length above the layer's limit is answered 413 before "
               "the service runs; a streamed body makes collect() fail once more than the limit arrives; a body of at most the limit passes "
               "unchanged; ServiceBuilder::layer/clone preserve the limit. should_skip_sig's exact exemption list is decided in unit sign. "
               "Not covered: the exact status for the chunked over-limit case is what the collect error maps to (400).",
    design_ref="DESIGN.md section 3 C15",
    assumptions=[],
)

PROPERTIES["C13"] = dict(
    units=["panics", "panic_bytes", "handler", "provision", "telemetry", "disk", "sign", "keykeeper", "authz", "authorizer", "conn", "actors", "keystore", "redirect", "listing"],
    technique="Verus' own safety obligations (str/String slicing on a char boundary, String::truncate, index, arithmetic overflow, unwrap/stub preconditions) on every function under contract; Kani for the byte-level UTF-16 slice",
    level_text='For the functions under contract (listed in the evidence; not the whole program): Verus discharges for all inputs that no slice/truncate is off a char boundary (event_logger::write_event, AgentStatusSharedState::get_module_status, ProxyServer::log_connection_summary after the fixes), no arithmetic overflow, no out-of-range index and no failing stub precondition in the request handler, provisioning, telemetry and logging units; Kani checks the UTF-16 frame conversion of read_response_body for every frame of up to 5 bytes (bounded companion, not counted as proved).',
    level_note="Partial claim: only the functions under contract; panics inside dependencies, the accept loop, main and Windows code are not covered. UTF-8 byte model of String (utf8_len/char_boundary, linked to vstd's by trusted axioms). 'Display does not panic' axioms per displayed type. Known C13-labelled preconditions in other units (headers_to_canonicalized_string value is visible ASCII; key keeper sleep arithmetic) are reported by those units.",
    design_ref="DESIGN.md section 3 C13",
    assumptions=[],
)

PROPERTIES["C07"] = dict(
    # "those recorded by the kernel for that very connection": the kernel side of the record (what the tcp_connect probe stores under the
    # connection's source port, C06's two-step and kprobe clauses) counts for C07 as well
    also_labels=["C06.twostep.audit_", "C06.kprobe.local_audit_", "C06.kprobe.fallback_audit_key"],
    units=["conn", "actors", "ebpf_c"],   # actors: RedirectorSharedState::get_bpf_object (one message, fails only if the actor is gone) - what conn's stub of it assumes
    technique="Verus contracts on the extracted real functions over a ghost kernel audit map (E4 Tracked<&mut Kernel> threaded through lookup/remove down to the aya call sites); whole-map postconditions; history lemmas over arbitrary interleavings of accepts and kernel writes; E5c slices of the accept/service_fn/per-request closures",
    level_text="Deductive proof (Verus/Z3) for all histories under the await-interleaving model: TcpConnectionContext::new/get_audit_entry, redirector::lookup_audit/remove_audit, BpfObject::lookup_audit/remove_audit_map_entry (verbatim; both proved to build the key [IPPROTO_TCP, port] and to decode the value), the AuditEntry decoders and Claims::from_audit_entry are proved to: return exactly the record of this connection's source port, consume it (final map == old.remove(port), every other port untouched), leave the map unchanged on failure, and produce claims/destination only from THAT record (the upstream connection is opened to the decoded destination). Lemmas: a later accept on the same port with no kernel write in between is unattributed, for every interleaving with accepts/writes on other ports; accepts on distinct ports commute. The context handed to each request is proved (three slices) to carry the attribution of the context built at accept time for this connection's peer address.",
    level_note="Trusted: Verus/Z3/rustc; crate aya is not linked (signature stand-in contracts/conn/aya_standin.rs; map()/try_from/get/remove behaviour assumed at 6 E9 sites: get Ok iff key present, remove Ok iff present and removes exactly that key); get_bpf_object stub (BPF object not cleared between lookup and remove of one accept; Mutex not poisoned); derived Clone of TcpConnectionContext copies all fields but the log queue; lexical capture by `move` closures + syntactic census (single caller of handle_new_http_request) link the slices; hyper delivers each request to its connection's service; the E9 range building the upstream sender (only its destination precondition is proved). Refusal with 421 of an unattributed connection is C01's contract (unit handler, refusal_status). Concurrent accepts are covered by the frame (each touches only its own port); OS-thread races inside tokio/hyper are not.",
    design_ref="DESIGN.md section 3 C07",
    assumptions=[],
)

PROPERTIES["C14"] = dict(
    units=["handler", "panic_bytes"],
    technique="Verus contracts on the extracted real functions (request/response views; fwd_ok precondition of the upstream primitive); Kani full-domain harness for the per-byte body map",
    level_text="Handler-level transparency, proved for all requests/responses: the request handed to the upstream write primitive has the client's method and URI, a body equal to all the bytes collected from the client's body, and every client header except the three proxy-owned names unchanged (fwd_ok); forward_response returns the upstream status, the upstream headers with only the marker header set, and the upstream body mapped frame by frame through a closure whose per-byte function is proved to be the identity on all 256 byte values (Kani, loop-free, full domain).",
    level_note="Partial claim (handler level). Assumed: hyper serialises the Request/Response it is given and may regenerate framing/Date headers; http::HeaderMap semantics; the map_frame/boxed plumbing (E9 statement range) applies the verified per-byte closure to data frames; a non-data frame (trailers) is replaced by an empty data frame. Not covered: chunking/framing, trailers, keep-alive ordering and response-to-request pairing (hyper/tokio behaviour), body sizes near the limit at the socket level.",
    design_ref="DESIGN.md section 3 C14",
    assumptions=[],
)

PROPERTIES["C04"] = dict(
    units=["sign", "handler", "authz"],   # authz: hyper_client::query_pairs (the parameter list the canonical string is built from) is proved there
    technique="Verus contracts on the extracted real functions: canonical-string spec from the statement (ascending enumeration proved unique/existing; stable sort for parameters), loop invariants over HashMap + sorted-key iteration, builder-state contracts for the agent's own requests, capability precondition on the upstream send",
    level_text="Deductive proof (Verus/Z3), all methods/URIs/header maps/bodies: should_skip_sig, compute_signature, as_sig_input, request_to_sign_input, headers_to_canonicalized_string, get_path_and_canonicalized_parameters, build_request and get (verbatim) are proved against sig_input_spec/mac_spec/skip_spec written from the statement; both signing routes compute the same spec function; canon_h is proved independent of the authorization header, so with handler's G6 (the header value is scheme, key id and the MAC of the canonical string of exactly the request handed to the upstream primitive) the MAC is over what is sent; build_request signs last, over its own parts and the body it sends.",
    level_note="Trusted: Verus/Z3/rustc; assumed specs listed in contracts/sign/unit.py ASSUMPTIONS (hmac/hex uninterpreted; http HeaderMap::iter/HeaderName/HeaderValue/request::Builder; str::to_lowercase/trim; sorted() order; generated format! stubs); the host's canonicaliser is the algorithm in the source comment. Known finding F4 (clause all_pairs: key||value collisions merge parameters; proved correct whenever no two pairs collide). Repeated header names are signed by their last value (F9, observation). Header values with bytes outside visible ASCII are signed by their lossy UTF-8 text (fix c24cea7; host rule undocumented), never panic. Not covered: hyper's own Host/Content-Length regeneration on the wire.",
    design_ref="DESIGN.md section 3 C04", assumptions=[],
)
PROPERTIES["C10"] = dict(
    units=["sign", "actors", "handler", "keykeeper"],   # keykeeper: what loop_poll latches / attests is ONE record (as attested or as read from the store)
    technique="Verus contracts, rely/guarantee over the key-keeper actor: each wrapper call = one actor message with an existential postcondition; pair_ok precondition on build_request/get; E5 slice of the handler's key read; actor arms and wrapper bodies (unit actors)",
    level_text="Deductive proof (Verus/Z3) for every await-point interleaving: build_request/get/attest_key emit `scheme <g> mac(k, ..)` only for a pair (g,k) that is one key record, and what is sent is that request; the obligation holds at all four reading sites (handle_request_with_signature, get_goalstate, get_shared_config, get_imds_instance_info) and at attest_key because one GetKey message returns the whole record; the GetKey arm replies a clone of the current record, SetKey stores its argument, each wrapper sends exactly its own message. In unit handler the whole of handle_request_with_signature is under the precondition of the upstream write primitive "
               "`unsigned as the client sent it, or signed with a key id and key that are one record` (key_id_names_signing_key): only get_current_key (one message) yields a record.",
    level_note="Trusted: Verus/Z3/rustc; tokio channel specs; the actor dispatch loop itself (only the arms are verified). The record latched by KeyKeeper::loop_poll is one record as the host handed it out / as read from the local store (unit keykeeper: preconditions of update_key and attest_key, labelled C08+C10). Concurrency model: await-point interleavings of tokio tasks; OS-thread data races inside tokio are not covered.",
    design_ref="DESIGN.md section 3 C10", assumptions=[],
)
PROPERTIES["C08"] = dict(
    units=["keystore", "keykeeper"],
    technique="Verus contracts on the extracted real functions over a ghost file system (E4: name -> Absent|Partial|Complete) with the crash invariant as precondition of every file-system primitive; state-based capability preconditions on attest_key / update_key / acquire_key at the real call sites of the loop_poll slice; pure restart lemmas",
    level_text="Deductive proof (Verus/Z3), all keys, directories, host answers and failure patterns: json_write_to_file (temp name + rename) keeps 'every non-temporary name is Absent or Complete' at each primitive-call boundary and on every exit, Ok => final name Complete(json(obj)), Err => final name unchanged; store_local_key/store_key file the complete JSON under key_path(dir,guid), fetch_local_key/fetch_key read that same name and find every readable key, check_local_key/check_key Ok => read back with identical guid and key; in the verbatim tail of loop_poll's body attest_key is reached only with the acquired key stored and read back, update_key only with the just-attested key or the key read locally under the host-named guid, acquire_key only when no readable local key exists; failed steps leave the actor key unchanged; lemma: a key whose attest precondition held is readable after restart, read back identical, and forbids acquiring a new one.",
    level_note="Trusted: Verus/Z3/rustc; POSIX semantics of create/write/rename/read as E9 stub contracts; std::path join/set_extension as documented; serde_json round trip of Key (lemmas only); only the agent process writes the key directory (census: key_keeper.rs writes only via json_write_to_file); contracts of the host stubs and one-message actor wrappers. Not covered: durability (no fsync: process death, not power loss); try_create_folder (stub; panics if try_exists errs); the loop around the slice, select!/sleep; HTTP bodies of acquire/attest; Windows encrypted store. check compares guid and key only.",
    design_ref="DESIGN.md section 3 C08",
    assumptions=[],
)
PROPERTIES["C09"] = dict(
    units=["keykeeper", "actors", "redirect"],
    technique="Verus contracts on the extracted real functions: exact functional specs of KeyStatus accessors/validate; abstract key-keeper state threaded (E4) through one-message wrapper stubs under a single-writer census; composite wrappers proved from them; postconditions of the loop_poll slice (E5) and of the notified arm; pure convergence lemmas; actor arms and the set_*_rules wrappers over a ghost channel trace (unit actors); update_*_redirect_policy over a ghost record of BpfObject::update_redirect_policy calls (unit redirect)",
    level_text="Deductive proof (Verus/Z3) of the inductive step for every prior state and every status document: validate Ok iff the document is valid; get_secure_channel_state/get_*_mode/get_*_rules/get_*_rule_id equal the spec functions written from the statement and field comments (1.0/2.0); in the verbatim loop-body tail a failed or invalid status makes no mutating call and changes nothing; otherwise each endpoint's rule id becomes the document's and its rules compute(document rules) iff the id changed, and after a complete iteration state == document state, disabled => no key (invariant preserved), enabled => the key is the host-named or just-attested one, redirect policy updated iff the state text changed with flag mode != disabled per endpoint; lemma: for every state satisfying I and a host-consistent document the resulting rules are a function of the document alone and I is preserved. Proved on the real bodies instead of assumed (units actors, redirect): set_{wireserver,imds,hostga}_rules each send exactly ONE actor message, of their OWN variant, carrying rules.map(from_authorization_item) (= computed_opt(rules)), and return Ok only after the actor answered that message; the Set*Rules arms store exactly the carried value in their own slot and answer; update_{wire_server,imds,hostga}_redirect_policy each call BpfObject::update_redirect_policy exactly once with THEIR endpoint's address and port (168.63.129.16:80, 169.254.169.254:80, 168.63.129.16:32526, written from the documentation and compared with the code's constants), the local port the redirector actor holds and the flag given, and make no call when the actor holds no BPF object or an actor request fails; the redirector actor's Get/Set arms and its one-message wrappers are under contract too.",
    level_note="Trusted: the reading of `one answered message of variant V` as `one atomic operation on the abstract actor state` (unit keykeeper's stub contracts; wrappers, arms and the message carried are proved in unit actors, the dispatch loop itself and tokio's channel semantics are assumed); from_authorization_item only named here (computed; its contract is C02, unit authz); what one BpfObject::update_redirect_policy call does to the BPF map is C06 (Kani, kani/ebpf_rs), recorded here as a ghost call record; the redirector actor's locals are not havocked between the two reads of one update (set_local_port/update_bpf_object/clear_bpf_object only in redirector start/close; no census); BpfObject mutex not poisoned; little-endian host for the address constants; single-writer census; host contract (rule id determines content, empty id = no rules) and key-store naming invariant as explicit hypotheses; get_status body (only its validate tail verified); to_lowercase uninterpreted; format! literal stub; AuthorizationItem::clone equal. Clauses about actor state hold for iterations without an actor-call Err. Not covered: liveness/timing, the loop and select! around the slice (only the state-reset block of the notified arm), BpfObject::update_redirect_policy itself (C06). An update made while the redirector actor holds no BPF object (or whose actor request fails) is silently dropped: update_*_redirect_policy return () and log nothing, and the poll does not retry until the state text changes again. Redirect updates are keyed on the state text: with the 2.0 channel disabled or undocumented mode words, later mode changes are not propagated (lemma states exactly when they are).",
    design_ref="DESIGN.md section 3 C09",
    assumptions=[],
)

PROPERTIES["C06"] = dict(
    units=["ebpf_c", "ebpf_rs"],
    technique="CBMC function contracts (DFCC) on the unmodified eBPF C program, loop-free with fully symbolic inputs; Kani loop-free full-domain harnesses on the real Rust layout/decoding code; one layout table for both languages",
    level_text="Kernel half: the contracts of connect4 and tcp_v4_connect (return value, redirect to the policy value, local/audit record = caller uid, tgid, uid==0, original destination, protocol; nothing changes for the agent's own processes, unlisted destinations and non-IPv4; assigns frames) and a two-step harness (connect4 by thread T, arbitrary interference on every other map cell, then T's kprobe) are enforced by goto-instrument --dfcc and decided by CBMC for all inputs (the program has no loops) against an assumed model of the documented BPF helpers; struct layouts are checked with offsetof/sizeof from one table. User-space half: Kani proves for all u32/u16 inputs that the policy key/value, audit key and skip entry byte images and the audit entry field order/decoding in ebpf_obj.rs, redirector.rs and redirector/linux.rs equal what the kernel program writes, and that the *_NETWORK_BYTE_ORDER constants equal the dotted addresses.",
    level_note="Assumed: BPF helper/map semantics as documented (bpf_get_current_uid_gid = gid<<32|uid, pid_tgid = tgid<<32|pid, hash-map lookup/update/delete on the given key only, no LRU eviction below 200 in flight); map keys on the BPF stack fully initialised (clang zero-fills `= {0}`, the in-kernel verifier rejects anything else); little-endian host; each connect4 hit of a thread is followed by that thread's tcp_connect probe before its next connect; aya replaced by a recording stub; format! text not modelled in the Kani crate. Not covered: the in-kernel verifier/JIT, clang's BPF code generation, aya's loader, cgroup/kprobe attachment.",
    design_ref="DESIGN.md section 3 C06",
    assumptions=[],
)

NOT_APPLICABLE = {
    "C12": "secrecy over all outputs is a hyper-property (non-interference); no function contract expressible in Verus/Kani/CBMC here decides 'does not depend on the key' for format!/Display-built text, and a syntactic taint scan is a different family (DESIGN.md section 4)",
}
# properties whose units are not built yet are listed as not_applicable by tools/mkmanifest.py with this reason
NOT_YET = "contract-based check not built yet in this session (planned in DESIGN.md section 3); not claimed until its check verifies the unchanged tree"
