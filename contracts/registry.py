# property -> units, unit -> engine.  (DESIGN.md section 2.1)
UNITS = {
    "health": dict(engine="verus", serves=["C20"]),
}
PROPERTIES = {
    "C20": dict(units=["health"], assumptions=[]),
}
