# unit `keykeeper` (C08 protocol part, C09): key.rs KeyStatus::{validate, get_secure_channel_state, get_*_mode, get_*_rules,
# get_*_rule_id}, key_keeper.rs loop_poll (E5a slice of the loop-body tail), poll_secure_channel_status
import os
import re
import sys
HERE = os.path.dirname(os.path.abspath(__file__))
CONTRACTS = os.path.dirname(HERE)
COMMON = os.path.join(CONTRACTS, "common")
KEYSTORE = os.path.join(CONTRACTS, "keystore")
sys.path.insert(0, os.path.join(os.path.dirname(CONTRACTS), "tools"))
import vxlib  # noqa: E402
from vxlib import Undecided  # noqa: E402

ASSUMPTIONS = [
    "one-message wrapper methods of KeyKeeperSharedState (set_key, get_key, set_secure_channel_state, get_current_secure_channel_state, "
    "{get,set}_{wireserver,imds,hostga}_rule_id, {get,set}_{wireserver,imds,hostga}_rules) are stubs: each is ONE atomic operation on the abstract actor "
    "state S = (key, state, rule id x3, computed rules x3) (the actor arms and which message each sends are decided in unit `actors`); an Err reply sets "
    "the ghost flag `failed` and leaves S unconstrained -- every C09 clause about S is stated for iterations without a failed actor call",
    "single writer (rely/guarantee, DESIGN 2.3): a syntactic census over proxy_agent/src on every run shows that outside #[cfg(test)] items the mutating "
    "wrapper methods are called only from KeyKeeper::loop_poll (and, inside key_keeper_wrapper.rs, only by the composite methods verified here); "
    "therefore S is NOT havocked between two awaits of an iteration. If the census changes the unit is UNDECIDED",
    "set_*_rules(Some(item)) stores computed(item) = ComputedAuthorizationItem::from_authorization_item(item) (C02's compute; uninterpreted here): the "
    "real bodies are under contract in unit `actors` (C09.set_<e>_rules.*: ONE Set<E>Rules message carrying computed_opt(rules), Ok only after the actor "
    "answered; arm C09.actor.Set<E>Rules.stores_its_argument); computed/computed_opt and the endpoint table are imported from that unit's unit.py",
    "host stubs key::get_status / acquire_key / attest_key: real signatures, HTTP bodies not verified; get_status returns Ok only for a document that "
    "passed validate() (its last two statements are verified as the slice vx_get_status_tail); acquire/attest record their call and result in the ghost Host",
    "key-store functions fetch_key / store_key / check_key: contracts PROVED in unit `keystore` (same contract text imported from its unit.py), assumed here",
    "redirector::update_{wire_server,imds,hostga}_redirect_policy (stubs): each records (endpoint, flag) in the ghost Redir; their real bodies are under "
    "contract in unit `redirect` (C09+C06.update_<e>_redirect_policy.*: exactly one BpfObject::update_redirect_policy(address and port of THAT endpoint, "
    "local port, flag) when a BPF object is present; function<->endpoint table and the Endpoint enum imported from that unit's unit.py); what that call "
    "does to the BPF map is C06 (kani/ebpf_rs)",
    "stubs without behaviour that matters here: logger::{write,write_information,write_warning,write_error}, helpers::write_startup_event, "
    "event_logger::write_event, provision::{key_latched,key_latch_ready_state_reset} (census: make no mutating key-keeper call), "
    "AgentStatusSharedState::set_module_status_message, AuthorizationRulesForLogging::{new,write_all} (C19), acl::acl_directory, "
    "misc_helpers::{try_create_folder,path_to_string}, KeyKeeper::{loop_poll (as a whole),stop}",
    "E5 slices: vx_poll_once = loop body of loop_poll from `let status = match key::get_status(..)` to its end with `continue` -> `return`; DROPPED: the "
    "statements before the loop (get_notify, set_module_state(RUNNING)), the sleep/notify tokio::select! (except the then-block lifted as "
    "vx_notified_reset), the provision time-up and event-thread start-up statements; that the loop runs the body repeatedly is not verified",
    "poll_secure_channel_status: its tokio::select! (Verus crashes on the macro) is moved verbatim into the generated stub vx_e9_poll_select (E9)",
    "format!(\"{} - {} - {}\", a, b, c) == a + \" - \" + b + \" - \" + c (E9 stub whose contract is generated from the literal in the tree); "
    "str::to_lowercase is an uninterpreted function `lower`; the hand-written Clone of AuthorizationItem returns an equal document; derived/hand-written "
    "Clone of the actor handles, CancellationToken returns an equal handle",
    "HOST CONTRACT used by the pure convergence lemma only (hypotheses, not axioms): the rule id determines the rule content (host_consistent), an empty "
    "id names no rules; KEY-STORE NAMING hypothesis of one clause: the file <g>.key holds a key whose guid is g (names_agree; preserved by "
    "store_local_key for dot-free guids, lemma in unit keystore)",
    "the types of key.rs (KeyStatus, AuthorizationRules, AuthorizationItem, Key transparent; the rule detail types opaque) and the error enums are kept "
    "verbatim outside verus!{}; E13 placeholders: the five actor handle types",
    "everything listed for unit keystore's fs model (contracts/keystore/fs_spec.rs, deps.rs are included)",
    "&str / String extensionality; String == String / Option<String> != Option<String> compare character sequences (vstd PartialEqSpec + axioms)",
]
FN_PROPS = {}


def ext_verbatim(u, sf, modname, uses, type_paths, impl_paths, transparent, opaque):
    """E1: type definitions AND the listed trait impls copied byte-for-byte into a plain-Rust module outside verus!{}
    (rustc checks them; serde / Display derives and impls intact). `transparent`: Verus sees the fields (all made pub by
    E2); `opaque`: Verus sees only the name."""
    from vxlib import apply_edits
    u.take_ext(sf, type_paths, modname, uses=uses, opaque=False)
    close = u.ext_pieces.pop()
    assert close.text.startswith("} // mod " + modname)
    saved = u.pieces
    u.pieces = u.ext_pieces
    for p in impl_paths:
        it = sf.item(p, "impl")
        u.pieces += apply_edits(sf, it["span"][0], it["span"][1], [])
        u.emit("", "glue")
        u.rule("E1", "impl %s kept outside verus! verbatim  <- %s:%d" % (p, sf.rel, sf.line_of(it["span"][0])))
    u.ext_pieces.append(close)
    u.pieces = saved
    for n in transparent:
        u.emit("#[verifier::external_type_specification]\npub struct VxEx_%s_%s(crate::%s::%s);" % (modname, n, modname, n), "glue", "E1")
    for n in opaque:
        u.emit("#[verifier::external_type_specification]\n#[verifier::external_body]\npub struct VxEx_%s_%s(crate::%s::%s);" % (modname, n, modname, n), "glue", "E1")


def fmt_stub(u, sf, it, fnname, idx, argtypes, specs):
    """E9 + E6: redirect the idx-th `format!(LIT, args..)` of `it` to a generated stub whose body is that very format! call
    (arguments renamed a0..an) and whose ASSUMED contract is generated from the literal found in the tree:
    r@ == lit0 + spec(a0) + lit1 + ... ; only `{}` placeholders."""
    ms = sorted([m for m in it["macros"] if m["name"] == "format"], key=lambda m: m["span"][0])
    if idx >= len(ms):
        raise Undecided("%s: format! #%d not found" % (fnname, idx))
    a, b = ms[idx]["span"]
    text = sf.s(a, b)
    segs, args = vxlib.Unit.parse_format_macro(text)
    if len(args) != len(argtypes):
        raise Undecided("%s: format! #%d has %d arguments, expected %d" % (fnname, idx, len(args), len(argtypes)))

    def q(x):
        return '"' + x.replace("\\", "\\\\").replace('"', '\\"') + '"@'
    parts = []
    for i, sg in enumerate(segs):
        if sg:
            parts.append(q(sg))
        if i < len(args):
            parts.append(specs[i].replace("$", "a%d" % i))
    lit = text[text.index('"'):text.index('"', text.index('"') + 1) + 1]
    body = "format!(%s, %s)" % (lit, ", ".join("a%d" % i for i in range(len(args))))
    params = ", ".join("a%d: %s" % (i, t) for i, t in enumerate(argtypes))
    contract = "    ensures r@ == %s," % " + ".join(parts)
    return (text, None, params, ", ".join(args), "String", contract, dict(name="vx_e9_%s_fmt_%d" % (fnname, idx), body=body, local=True))


KEY_USES = """use crate::common::{constants, error::{Error, KeyErrorType}, result::Result};
use std::fmt::{Display, Formatter};
use std::{collections::HashMap, path::PathBuf};"""


def build_key_types(u, key):
    # serde derives inside verus!{} crash this Verus build, and Display for KeyStatus is needed by rustc for format!: all data
    # types of key.rs and their hand-written Clone / Display impls are kept verbatim OUTSIDE verus!{}
    ext_verbatim(u, key, "vx_ext_key",
                 "use serde_derive::{Deserialize, Serialize};\nuse std::collections::HashMap;\nuse std::fmt::{Display, Formatter};\nuse crate::common::constants;",
                 ["KeyStatus", "AuthorizationRules", "AuthorizationItem", "AccessControlRules", "Privilege", "Role", "Identity", "RoleAssignment", "Key"],
                 ["<AuthorizationItem as Clone>", "<Privilege as Clone>", "<Role as Clone>", "<Identity as Clone>", "<RoleAssignment as Clone>", "<KeyStatus as Display>"],
                 transparent=["KeyStatus", "AuthorizationRules", "AuthorizationItem", "Key"],
                 opaque=["AccessControlRules", "Privilege", "Role", "Identity", "RoleAssignment"])


A_ = "Tracked(a): Tracked<&mut Actor>"
H_ = "Tracked(h): Tracked<&mut Host>"
H_RO = "Tracked(h): Tracked<&Host>"
RD_ = "Tracked(rd): Tracked<&mut Redir>"
DIR_ = "Ghost(dir): Ghost<PathId>"
FS = "Tracked(fs): Tracked<&mut Fs>"
FS_RO = "Tracked(fs): Tracked<&Fs>"
DIR_ARG = "Ghost(pbid(self.key_dir))"

# ---- contracts of the one-message wrapper methods of KeyKeeperSharedState (ASSUMED: one atomic actor operation each;
#      the arms of the actor loop are decided in unit `actors`). Single writer (census): the state is not havocked.
def msg_get_contract(expr):
    return """
        ensures
            r matches Ok(v) ==> %s && *final(a) == *old(a),
            r is Err ==> *final(a) == old(a).read_failed(),
""" % expr


def msg_set_contract(new_s, mut):
    return """
        ensures
            r is Ok ==> *final(a) == old(a).did(%(s)s, %(m)s),
            r is Err ==> *final(a) == old(a).call_failed(final(a).s, %(m)s),
""" % dict(s=new_s, m=mut)


# ---- contracts of the composite wrapper methods (read, compare, write): PROVED here from the one-message contracts ----
def rule_id_contract(e, f):
    return """
        ensures
            r matches Ok(p) ==> p.0 == (old(a).s.rule_id(Endpoint::%(e)s) != rule_id@) && p.1@ == old(a).s.rule_id(Endpoint::%(e)s)
                && *final(a) == (if p.0 { old(a).did(old(a).s.with_rule_id(Endpoint::%(e)s, rule_id@), Mut::RuleId(Endpoint::%(e)s, rule_id@)) } else { *old(a) }),  // @C09.%(f)s.writes_the_id_iff_it_differs
            r is Err ==> final(a).failed,
            final(a).muts == old(a).muts || final(a).muts == old(a).muts.push(Mut::RuleId(Endpoint::%(e)s, rule_id@)),
""" % dict(e=e, f=f)


def set_rules_contract(e):
    return msg_set_contract("old(a).s.with_rules(Endpoint::%s, computed_opt(rules))" % e, "Mut::Rules(Endpoint::%s)" % e)


def get_rules_contract(e):
    return msg_get_contract("v == old(a).s.rules(Endpoint::%s)" % e)


KEY_GUID_CONTRACT = """
        ensures
            r matches Ok(g) ==> guid_reply(g, old(a).s.key) && *final(a) == *old(a),  // @C09.get_current_key_guid.guid_of_the_actors_key
            r is Err ==> *final(a) == old(a).read_failed(),
"""
UPDATE_KEY_CONTRACT = """
        requires may_publish(*fs, *h, dir, key),  // @C08+C10.update_key.only_an_attested_or_locally_found_key_is_published
        ensures
            r is Ok ==> *final(a) == old(a).did(KkState { key: Some(key), ..old(a).s }, Mut::Key(Some(key))),
            r is Err ==> *final(a) == old(a).call_failed(final(a).s, Mut::Key(Some(key))),
"""
CLEAR_KEY_CONTRACT = """
        ensures
            r is Ok ==> *final(a) == old(a).did(KkState { key: None, ..old(a).s }, Mut::Key(None)),
            r is Err ==> *final(a) == old(a).call_failed(final(a).s, Mut::Key(None)),
"""
UPDATE_STATE_CONTRACT = """
        ensures
            r matches Ok(updated) ==> updated == (old(a).s.state != state@)
                && *final(a) == (if updated { old(a).did(KkState { state: state@, ..old(a).s }, Mut::State(state@)) } else { *old(a) }),  // @C09.update_current_secure_channel_state.writes_the_state_iff_it_differs
            r is Err ==> final(a).failed,
            final(a).muts == old(a).muts || final(a).muts == old(a).muts.push(Mut::State(state@)),
"""
GET_STATUS_CONTRACT = """
        ensures
            r matches Ok(st) ==> valid_status(st) && *final(h) == (Host { status: Some(st), ..*old(h) }),
            r is Err ==> *final(h) == (Host { status: None, ..*old(h) }),
"""
ACQUIRE_CONTRACT = """
        requires may_acquire(*fs, *old(h), dir),  // @C08.acquire_key.only_when_no_readable_local_key_under_the_latched_guid
        ensures
            r matches Ok(k) ==> *final(h) == (Host { acquired: Some(k), acquire_calls: old(h).acquire_calls + 1, ..*old(h) }),
            r is Err ==> *final(h) == (Host { acquire_calls: old(h).acquire_calls + 1, ..*old(h) }),
"""
ATTEST_CONTRACT = """
        requires may_attest(*fs, *old(h), dir, *key),  // @C08+C10.attest_key.only_after_stored_and_read_back_identically
        ensures
            r is Ok ==> *final(h) == (Host { attested: Some(*key), attest_calls: old(h).attest_calls + 1, ..*old(h) }),
            r is Err ==> *final(h) == (Host { attest_calls: old(h).attest_calls + 1, ..*old(h) }),
"""


def redirect_contract(e):
    return """
        ensures *final(rd) == (Redir { updates: old(rd).updates.push((Endpoint::%s, redirect)) }),
""" % e


def sibling_unit(name):
    import importlib.util
    spec = importlib.util.spec_from_file_location("unit_%s_for_keykeeper" % name, os.path.join(CONTRACTS, name, "unit.py"))
    m = importlib.util.module_from_spec(spec)
    spec.loader.exec_module(m)
    return m


# contracts of the key-store functions: PROVED in unit `keystore` (same text), assumed here
def keystore_contracts():
    return sibling_unit("keystore")


# vocabulary of the stubs whose real bodies are under contract elsewhere, imported from THE unit that proves them:
#   actors:   ENDPOINTS (set_<stem>_rules <-> Endpoint), COMPUTED_SPEC (computed / computed_opt): set_*_rules sends ONE Set<E>Rules message
#             carrying computed_opt(rules) and returns Ok only after the actor answered; the arm stores it in its own slot
#   redirect: REDIRECT_FNS (update_<e>_redirect_policy <-> Endpoint), ENDPOINT_SPEC: each update hands ITS endpoint's address/port, the
#             local port and the flag to BpfObject::update_redirect_policy exactly once
ACTORS = sibling_unit("actors")
REDIRECT = sibling_unit("redirect")


POLL_CONTRACT = """
        requires
            old(fs).safe(),  // @C08.poll.crash_invariant_on_entry
            fresh(*old(a), *old(h), *old(rd)),  // @C09.poll.iteration_starts_with_empty_records
        ensures
            final(fs).safe(),  // @C08.poll.crash_invariant_holds_on_every_exit
            // ---- a poll whose status request fails or returns an invalid document changes nothing
            final(h).status is None ==> final(a).s == old(a).s && final(a).muts == Seq::<Mut>::empty(),  // @C09.poll.failed_or_invalid_status_makes_no_mutating_call
            final(h).status is None ==> final(rd).updates == Seq::<(Endpoint, bool)>::empty() && *final(fs) == *old(fs) && final(h).acquire_calls == 0 && final(h).attest_calls == 0 && !final(h).completed,  // @C09.poll.failed_or_invalid_status_changes_nothing_else
            final(h).status is Some ==> valid_status(final(h).status->0),  // @C09.poll.only_a_valid_document_is_acted_on
            // ---- rule ids and rules follow the document (independently of what happens to the key afterwards)
            final(h).status is Some && !final(a).failed ==> rules_step(old(a).s, final(a).s, final(h).status->0, Endpoint::WireServer),  // @C09.poll.wireserver_rules_follow_the_document
            final(h).status is Some && !final(a).failed ==> rules_step(old(a).s, final(a).s, final(h).status->0, Endpoint::Imds),  // @C09.poll.imds_rules_follow_the_document
            final(h).status is Some && !final(a).failed ==> rules_step(old(a).s, final(a).s, final(h).status->0, Endpoint::HostGA),  // @C09.poll.hostga_rules_follow_the_document
            // ---- a complete iteration
            final(h).completed ==> final(h).status is Some,  // @C09.poll.complete_iteration_had_a_valid_document
            final(h).completed && !final(a).failed ==> final(a).s.state == sc_state(final(h).status->0),  // @C09.poll.state_is_the_documents_channel_state
            final(h).completed && !final(a).failed && old(a).s.disabled_means_no_key() ==> final(a).s.disabled_means_no_key(),  // @C09.poll.disabled_means_no_key
            final(h).completed && !final(a).failed && !channel_disabled(final(h).status->0) ==> final(a).s.key is Some,  // @C09.poll.enabled_channel_has_a_key
            final(h).completed && !final(a).failed && !channel_disabled(final(h).status->0) && names_agree(*old(fs), pbid(self.key_dir)) ==>
                (final(h).status->0.keyGuid matches Some(g) && final(a).s.key_guid() == Some(g@)) || (final(h).attested is Some && final(h).attested == final(a).s.key),  // @C09.poll.key_is_the_one_the_host_names_or_just_latched
            final(h).completed && !final(a).failed ==>
                final(rd).updates == (if old(a).s.state != sc_state(final(h).status->0) { redirects_of(final(h).status->0) } else { Seq::<(Endpoint, bool)>::empty() }),  // @C09.poll.redirect_policy_updated_iff_state_changed_with_mode_not_disabled
            // ---- an iteration cut short by a failed step
            !final(h).completed ==> final(rd).updates == Seq::<(Endpoint, bool)>::empty(),  // @C09.poll.no_redirect_update_on_early_exit
            !final(h).completed && !final(a).failed ==> final(a).s.key == old(a).s.key && final(a).s.state == old(a).s.state,  // @C08.poll.failed_step_leaves_key_and_state_unchanged
            // ---- host protocol
            final(h).attest_calls <= 1 && final(h).acquire_calls <= 1,  // @C08.poll.at_most_one_acquire_and_one_attest_per_iteration
            final(h).attest_calls == 1 ==> final(h).acquire_calls == 1 && final(h).acquired is Some,  // @C08.poll.attest_only_follows_acquire
"""

MODE_CONTRACT = """
        ensures r@ == mode_of(*self, Endpoint::%(e)s),  // @C09.%(f)s.mode_of_the_document
"""
RULES_CONTRACT = """
        ensures r == doc_rules(*self, Endpoint::%(e)s),  // @C09.%(f)s.rules_of_the_document
"""
RULE_ID_CONTRACT = """
        ensures r@ == doc_rule_id(*self, Endpoint::%(e)s),  // @C09.%(f)s.rule_id_of_the_document
"""


def pick_call(sf, it, lo, hi, name, receiver_has):
    """ordinal (among the calls of `name` inside [lo,hi), source order) of the one whose receiver text contains `receiver_has`"""
    calls = sorted([c for c in it["calls"] if lo <= c["span"][0] and c["span"][1] <= hi and c["callee"].replace(" ", "") == name], key=lambda c: c["callee_span"][0])
    idx = [i for i, c in enumerate(calls) if c.get("receiver") and receiver_has in sf.s(*c["receiver"])]
    if len(idx) != 1:
        raise Undecided("loop_poll: expected exactly one %s call on %s, found %d" % (name, receiver_has, len(idx)))
    return idx[0]


KK_USES = """use self::key::Key;
use crate::common::error::{Error, KeyErrorType};
use crate::common::result::Result;
use crate::common::{constants, helpers, logger};
use crate::provision;
use crate::proxy::authorization_rules::{AuthorizationRulesForLogging, ComputedAuthorizationRules};
use crate::shared_state::agent_status_wrapper::{AgentStatusModule, AgentStatusSharedState};
use crate::shared_state::key_keeper_wrapper::KeyKeeperSharedState;
use crate::shared_state::provision_wrapper::ProvisionSharedState;
use crate::shared_state::redirector_wrapper::RedirectorSharedState;
use crate::shared_state::telemetry_wrapper::TelemetrySharedState;
use crate::{acl, redirector};
use hyper::Uri;
use crate::proxy_agent_shared::logger::LoggerLevel;
use crate::proxy_agent_shared::misc_helpers;
use crate::proxy_agent_shared::telemetry::event_logger;
use std::fs;
use std::path::Path;
use std::time::Instant;
use std::{path::PathBuf, time::Duration};
use tokio_util::sync::CancellationToken;"""


MUTATORS = ("update_key", "clear_key", "set_key", "update_current_secure_channel_state", "set_secure_channel_state",
            "update_wireserver_rule_id", "update_imds_rule_id", "update_hostga_rule_id", "set_wireserver_rule_id", "set_imds_rule_id", "set_hostga_rule_id",
            "set_wireserver_rules", "set_imds_rules", "set_hostga_rules")
COMPOSITE = {"update_key": {"set_key"}, "clear_key": {"set_key"}, "update_current_secure_channel_state": {"set_secure_channel_state"},
             "update_wireserver_rule_id": {"set_wireserver_rule_id"}, "update_imds_rule_id": {"set_imds_rule_id"}, "update_hostga_rule_id": {"set_hostga_rule_id"}}


def census(u, kk, kkw):
    """rely/guarantee (DESIGN 2.3): the key-keeper actor has a SINGLE WRITER. Every mutating wrapper method of
    KeyKeeperSharedState is called (outside #[cfg(test)] items) only from KeyKeeper::loop_poll; inside the wrapper file only
    by the composite method that is under contract here. Otherwise the unit is UNDECIDED (the no-havoc model no longer applies)."""
    pat = re.compile(r"\.\s*(%s)\s*\(" % "|".join(MUTATORS))
    root = os.path.join(u.repo.root, "proxy_agent", "src")
    for dp, dn, fn in os.walk(root):
        for f in sorted(fn):
            if not f.endswith(".rs"):
                continue
            rel = os.path.relpath(os.path.join(dp, f), u.repo.root)
            sf = u.src(rel) if rel in (kk.rel, kkw.rel) else None
            if sf is None:
                try:
                    sf = u.repo.src(rel)
                except Undecided:
                    # a file vx cannot parse: fall back to a textual scan of the whole file
                    txt = open(os.path.join(dp, f), encoding="utf-8").read()
                    code = "\n".join(l for l in txt.split("\n") if not l.strip().startswith("//"))
                    if pat.search(code):
                        raise Undecided("census: %s (unparsed) mentions a mutating KeyKeeperSharedState method" % rel)
                    continue
            for it in sf.all_fns():          # SrcFile drops #[cfg(test)] / #[cfg(windows)] items
                if it["path"].startswith("tests::") or it.get("body") is None:
                    continue
                txt = sf.s(it["body"][0], it["body"][1])
                code = "\n".join(l for l in txt.split("\n") if not l.strip().startswith("//"))
                for m in pat.finditer(code):
                    callee = m.group(1)
                    if rel == kk.rel and it["path"] == "KeyKeeper::loop_poll":
                        continue
                    if rel == kkw.rel and it["name"] in COMPOSITE and callee in COMPOSITE[it["name"]]:
                        continue
                    raise Undecided("census: %s fn %s calls the mutating key-keeper method %s; the single-writer argument of C09 no longer covers every caller" % (rel, it["path"], callee))
    u.rule("census", "mutating KeyKeeperSharedState methods are called only from key_keeper.rs::KeyKeeper::loop_poll (non-test code of proxy_agent/src)")


def brace_block(sf, start):
    """byte range (open, close+1) of the brace block whose `{` is the first one at or after byte `start` (string / char
    literals and comments skipped)"""
    b = sf.b
    i = b.index(b"{", start)
    depth, j = 0, i
    while j < len(b):
        c = b[j:j + 1]
        if c == b'"':
            j += 1
            while b[j:j + 1] != b'"':
                j += 2 if b[j:j + 1] == b"\\" else 1
        elif b[j:j + 2] == b"//":
            j = b.index(b"\n", j)
        elif c == b"{":
            depth += 1
        elif c == b"}":
            depth -= 1
            if depth == 0:
                return i, j + 1
        j += 1
    raise Undecided("unbalanced braces in %s" % sf.rel)


def build(u):
    u.externs.append("serde_derive")
    u.features += ["allocator_api"]
    ks = keystore_contracts()
    key = u.src("proxy_agent/src/key_keeper/key.rs")
    kk = u.src("proxy_agent/src/key_keeper.rs")
    err = u.src("proxy_agent/src/common/error.rs")
    sherr = u.src("proxy_agent_shared/src/error.rs")
    cs = u.src("proxy_agent/src/common/constants.rs")
    lg = u.src("proxy_agent/src/common/logger.rs")
    hp = u.src("proxy_agent/src/common/helpers.rs")
    pv = u.src("proxy_agent/src/provision.rs")
    ar = u.src("proxy_agent/src/proxy/authorization_rules.rs")
    el = u.src("proxy_agent_shared/src/telemetry/event_logger.rs")
    mh = u.src("proxy_agent_shared/src/misc_helpers.rs")
    kkw = u.src("proxy_agent/src/shared_state/key_keeper_wrapper.rs")
    asw = u.src("proxy_agent/src/shared_state/agent_status_wrapper.rs")
    pw = u.src("proxy_agent/src/shared_state/provision_wrapper.rs")
    rw = u.src("proxy_agent/src/shared_state/redirector_wrapper.rs")
    tw = u.src("proxy_agent/src/shared_state/telemetry_wrapper.rs")
    rl = u.src("proxy_agent/src/redirector/linux.rs")
    acl = u.src("proxy_agent/src/acl.rs")
    census(u, kk, kkw)
    for f in ("str_axioms.rs", "ext_types.rs", "std_string.rs"):
        u.raw(open(os.path.join(COMMON, f)).read())
    for f in ("fs_spec.rs", "deps.rs", "spec.rs"):
        u.raw("// ---- contracts/keystore/%s\n" % f + open(os.path.join(KEYSTORE, f)).read())
    u.raw_file("deps.rs")
    u.raw(REDIRECT.ENDPOINT_SPEC)
    u.raw_file("status_spec.rs")
    u.raw(ACTORS.COMPUTED_SPEC)
    u.raw_file("poll_spec.rs")
    u.raw_file("poll_deps.rs")
    with u.mod("proxy_agent_shared"):
        with u.mod("error"):
            u.take_ext(sherr, ["Error", "ParseVersionErrorType", "CommandErrorType"], "vx_ext_shared_error")
        with u.mod("result", uses="use super::error::Error;"):
            u.raw("pub type Result<T> = core::result::Result<T, Error>;")
        with u.mod("logger"):
            u.raw("pub type LoggerLevel = log::Level;")
        with u.mod("misc_helpers", uses="use super::result::Result;\nuse std::path::{Path, PathBuf};"):
            u.take_fn(mh, "try_create_folder", external_body=True)
            u.take_fn(mh, "path_to_string", external_body=True)
        with u.mod("telemetry"):
            with u.mod("event_logger", uses="use log::Level;"):
                u.take_fn(el, "write_event", external_body=True, ret="")
    with u.mod("common"):
        with u.mod("error"):
            u.take_ext(err, ["Error", "HyperErrorType", "WireServerErrorType", "KeyErrorType", "AclErrorType", "BpfErrorType"], "vx_ext_error", uses="use http::{uri::InvalidUri, StatusCode};", opaque=False, transparent=False)
            for n in ("Error", "KeyErrorType"):
                u.emit("#[verifier::external_type_specification]\npub struct VxEx_vx_ext_error_%s(crate::vx_ext_error::%s);" % (n, n), "glue", "E1")
            for n in ("HyperErrorType", "WireServerErrorType", "AclErrorType", "BpfErrorType"):
                u.emit("#[verifier::external_type_specification]\n#[verifier::external_body]\npub struct VxEx_vx_ext_error_%s(crate::vx_ext_error::%s);" % (n, n), "glue", "E1")
        with u.mod("result", uses="use super::error::Error;"):
            u.raw("pub type Result<T> = core::result::Result<T, Error>;")
        with u.mod("constants"):
            for c in ("AUTHORIZATION_SCHEME", "KEY_DELIVERY_METHOD_HTTP", "KEY_DELIVERY_METHOD_VTPM", "MAX_LOG_FILE_COUNT"):
                u.take(cs, c, "const")
        with u.mod("logger"):
            u.take(lg, "AGENT_LOGGER_KEY", "const")
            for f in ("write", "write_information", "write_warning", "write_error"):
                u.take_fn(lg, f, external_body=True, ret="")
        with u.mod("helpers"):
            u.take_fn(hp, "write_startup_event", external_body=True)
    with u.mod("acl", uses="use crate::common::result::Result;\nuse std::path::PathBuf;"):
        u.take_fn(acl, "acl_directory", external_body=True)
    with u.mod("proxy"):
        with u.mod("authorization_rules", uses="use crate::key_keeper::key::AuthorizationRules;\nuse std::path::Path;"):
            u.take_ext(ar, ["AuthorizationMode", "ComputedAuthorizationItem", "ComputedAuthorizationRules", "AuthorizationRulesForLogging"], "vx_ext_rules",
                       uses="use serde_derive::{Deserialize, Serialize};\nuse std::collections::{HashMap, HashSet};\nuse crate::vx_ext_key::*;", opaque=False, transparent=False)
            for n in ("ComputedAuthorizationRules",):
                u.emit("#[verifier::external_type_specification]\npub struct VxEx_vx_ext_rules_%s(crate::vx_ext_rules::%s);" % (n, n), "glue", "E1")
            for n in ("AuthorizationMode", "ComputedAuthorizationItem", "AuthorizationRulesForLogging"):
                u.emit("#[verifier::external_type_specification]\n#[verifier::external_body]\npub struct VxEx_vx_ext_rules_%s(crate::vx_ext_rules::%s);" % (n, n), "glue", "E1")
            with u.impl_(ar, "AuthorizationRulesForLogging"):
                u.take_fn(ar, "AuthorizationRulesForLogging::new", external_body=True)
                u.take_fn(ar, "AuthorizationRulesForLogging::write_all", external_body=True, ret="")
    with u.mod("shared_state"):
        with u.mod("redirector_wrapper"):
            u.placeholder_ext(rw, ["RedirectorSharedState"], "vx_ph_rw")
        with u.mod("telemetry_wrapper"):
            u.placeholder_ext(tw, ["TelemetrySharedState"], "vx_ph_tw")
        with u.mod("provision_wrapper"):
            u.placeholder_ext(pw, ["ProvisionSharedState"], "vx_ph_pw")
        with u.mod("agent_status_wrapper", uses="use crate::common::result::Result;"):
            u.take(asw, "AgentStatusModule", "enum")
            u.placeholder_ext(asw, ["AgentStatusSharedState"], "vx_ph_asw")
            with u.impl_(asw, "AgentStatusSharedState"):
                u.take_fn(asw, "AgentStatusSharedState::set_module_status_message", external_body=True)
        with u.mod("key_keeper_wrapper", uses="use crate::common::result::Result;\nuse crate::key_keeper::key::{AuthorizationItem, Key};\nuse crate::proxy::authorization_rules::ComputedAuthorizationItem;"):
            u.placeholder_ext(kkw, ["KeyKeeperSharedState"], "vx_ph_kkw")
            with u.impl_(kkw, "KeyKeeperSharedState"):
                WPRE = "broadcast use axiom_string_obeys_eq_spec, axiom_string_eq_spec;"
                # one-message methods: stubs
                u.take_fn(kkw, "KeyKeeperSharedState::set_key", external_body=True, ghost=A_, contract=msg_set_contract("KkState { key: key, ..old(a).s }", "Mut::Key(key)"))
                u.take_fn(kkw, "KeyKeeperSharedState::get_key", external_body=True, ghost=A_, contract=msg_get_contract("v == old(a).s.key"))
                u.take_fn(kkw, "KeyKeeperSharedState::set_secure_channel_state", external_body=True, ghost=A_, contract=msg_set_contract("KkState { state: state@, ..old(a).s }", "Mut::State(state@)"))
                u.take_fn(kkw, "KeyKeeperSharedState::get_current_secure_channel_state", external_body=True, ghost=A_, contract=msg_get_contract("v@ == old(a).s.state"))
                for (n, e) in ACTORS.ENDPOINTS:
                    u.take_fn(kkw, "KeyKeeperSharedState::set_%s_rule_id" % n, external_body=True, ghost=A_,
                              contract=msg_set_contract("old(a).s.with_rule_id(Endpoint::%s, rule_id@)" % e, "Mut::RuleId(Endpoint::%s, rule_id@)" % e))
                    u.take_fn(kkw, "KeyKeeperSharedState::get_%s_rule_id" % n, external_body=True, ghost=A_, contract=msg_get_contract("v@ == old(a).s.rule_id(Endpoint::%s)" % e))
                    u.take_fn(kkw, "KeyKeeperSharedState::set_%s_rules" % n, external_body=True, ghost=A_, contract=set_rules_contract(e))
                    u.take_fn(kkw, "KeyKeeperSharedState::get_%s_rules" % n, external_body=True, ghost=A_, contract=get_rules_contract(e))
                # composite methods: verified. E4 on every call of a one-message method inside them (whatever it is after an edit)
                ONE_MSG = ["set_key", "get_key", "set_secure_channel_state", "get_current_secure_channel_state"] + \
                          ["%s_%s_rule_id" % (gs_, n) for gs_ in ("get", "set") for n in ("wireserver", "imds", "hostga")]

                def gcalls(path):
                    wit = kkw.item(path, "fn")
                    names = sorted(set(c["callee"] for c in wit["calls"] if c["kind"] == "method" and c["callee"] in ONE_MSG))
                    return [(n, "all", "Tracked(a)") for n in names]
                for (n, e) in (("wireserver", "WireServer"), ("imds", "Imds"), ("hostga", "HostGA")):
                    f = "update_%s_rule_id" % n
                    u.take_fn(kkw, "KeyKeeperSharedState::" + f, ghost=A_, pre_body=WPRE, contract=rule_id_contract(e, f), ghost_calls=gcalls("KeyKeeperSharedState::" + f))
                u.take_fn(kkw, "KeyKeeperSharedState::get_current_key_guid", ghost=A_, contract=KEY_GUID_CONTRACT, ghost_calls=gcalls("KeyKeeperSharedState::get_current_key_guid"))
                u.take_fn(kkw, "KeyKeeperSharedState::update_key", ghost=FS_RO + ", " + H_RO + ", " + A_ + ", " + DIR_, contract=UPDATE_KEY_CONTRACT, ghost_calls=gcalls("KeyKeeperSharedState::update_key"))
                u.take_fn(kkw, "KeyKeeperSharedState::clear_key", ghost=A_, contract=CLEAR_KEY_CONTRACT, ghost_calls=gcalls("KeyKeeperSharedState::clear_key"))
                u.take_fn(kkw, "KeyKeeperSharedState::update_current_secure_channel_state", ghost=A_, pre_body=WPRE, contract=UPDATE_STATE_CONTRACT,
                          ghost_calls=gcalls("KeyKeeperSharedState::update_current_secure_channel_state"))
    with u.mod("provision", uses="use crate::shared_state::agent_status_wrapper::AgentStatusSharedState;\nuse crate::shared_state::key_keeper_wrapper::KeyKeeperSharedState;\nuse crate::shared_state::provision_wrapper::ProvisionSharedState;\nuse crate::shared_state::telemetry_wrapper::TelemetrySharedState;\nuse tokio_util::sync::CancellationToken;"):
        u.take_fn(pv, "key_latched", external_body=True, ret="")
        u.take_fn(pv, "key_latch_ready_state_reset", external_body=True, ret="")
    with u.mod("redirector", uses="use crate::shared_state::redirector_wrapper::RedirectorSharedState;"):
        for (f, e) in REDIRECT.REDIRECT_FNS:
            u.take_fn(rl, f, external_body=True, ghost=RD_, contract=redirect_contract(e), ret="")
    with u.mod("key_keeper", uses=KK_USES):
        for c in ("DISABLE_STATE", "MUST_SIG_WIRESERVER", "MUST_SIG_WIRESERVER_IMDS", "UNKNOWN_STATE", "PROVISION_TIMEUP_IN_MILLISECONDS"):
            u.take(kk, c, "const")
        with u.mod("key", uses=KEY_USES + "\nuse hyper::Uri;"):
            u.take(key, "AUDIT_MODE", "const")
            u.take(key, "ENFORCE_MODE", "const")
            build_key_types(u, key)
            PRE = "broadcast use axiom_str_ext, axiom_string_ext, axiom_to_string_string, group_fmt;\nproof { lits_status(); lits_consts(); }"
            with u.impl_(key, "KeyStatus"):
                u.take_fn(key, "KeyStatus::validate", pre_body=PRE, contract="""
        ensures r is Ok <==> valid_status(*self),  // @C09.validate.ok_iff_document_valid
                r is Ok ==> r->Ok_0,
""")
                gs = key.item("KeyStatus::get_secure_channel_state", "fn")
                u.take_fn(key, "KeyStatus::get_secure_channel_state", pre_body=PRE,
                          e9=[fmt_stub(u, key, gs, "get_secure_channel_state", 0, ["&str", "&str", "&str"], ["$@", "$@", "$@"])],
                          contract="""
        ensures r@ == sc_state(*self),  // @C09.get_secure_channel_state.state_of_the_document
""")
                for (f, e) in (("get_wireserver_rule_id", "WireServer"), ("get_imds_rule_id", "Imds"), ("get_hostga_rule_id", "HostGA")):
                    u.take_fn(key, "KeyStatus::" + f, pre_body=PRE, contract=RULE_ID_CONTRACT % dict(f=f, e=e))
                for (f, e) in (("get_wireserver_rules", "WireServer"), ("get_imds_rules", "Imds"), ("get_hostga_rules", "HostGA")):
                    u.take_fn(key, "KeyStatus::" + f, pre_body=PRE, contract=RULES_CONTRACT % dict(f=f, e=e))
                for (f, e) in (("get_wire_server_mode", "WireServer"), ("get_imds_mode", "Imds"), ("get_hostga_mode", "HostGA")):
                    u.take_fn(key, "KeyStatus::" + f, pre_body=PRE, contract=MODE_CONTRACT % dict(f=f, e=e))
            with u.impl_(key, "<Key as Clone>"):
                u._in_trait_impl = True
                u.take_fn(key, "<Key as Clone>::clone", make_pub=False, pre_body=PRE, contract="""
        ensures r == *self,  // @C08.Key_clone.clone_is_the_same_key
""")
                u._in_trait_impl = False
            u.take_fn(key, "get_status", external_body=True, ghost=H_, contract=GET_STATUS_CONTRACT)
            # E5: the last two statements of get_status (`status.validate()?; Ok(status)`) justify `valid_status` in the stub above
            git = key.item("get_status", "fn")
            gl = [l for l in git["lets"] if key.s(*l["pat"]).split(":")[0].strip() == "status" and l["init"] is not None and "hyper_client::get" in key.s(*l["init"])]
            if len(gl) != 1:
                raise Undecided("get_status: `let status = hyper_client::get(..)` not found")
            ga = gl[0]["span"][1]
            if key.b[ga:ga + 1] == b";":
                ga += 1
            u.slice_fn(key, "get_status", "vx_get_status_tail", ga, git["body"][1] - 1, "status: KeyStatus", ret_type="Result<KeyStatus>",
                       what="(the statements of get_status after the HTTP request: validate, then hand the document out)", contract="""
        ensures
            r is Ok ==> valid_status(status) && r->Ok_0 == status,  // @C09.get_status.only_a_valid_document_is_returned
            !valid_status(status) ==> r is Err,  // @C09.get_status.invalid_document_is_an_error
""")
            u.take_fn(key, "acquire_key", external_body=True, ghost=FS_RO + ", " + H_ + ", " + DIR_, contract=ACQUIRE_CONTRACT)
            u.take_fn(key, "attest_key", external_body=True, ghost=FS_RO + ", " + H_ + ", " + DIR_, contract=ATTEST_CONTRACT)
        u.take(kk, "KeyKeeper", "struct")
        with u.impl_(kk, "KeyKeeper"):
            u.take_fn(kk, "KeyKeeper::update_status_message", pre_body="broadcast use group_fmt;", ret="")
            u.take_fn(kk, "KeyKeeper::store_key", external_body=True, ghost=FS, contract=ks.STORE_CONTRACT % dict(f="store_key"))
            u.take_fn(kk, "KeyKeeper::fetch_key", external_body=True, ghost=FS_RO, contract=ks.FETCH_CONTRACT % dict(f="fetch_key", enc=""))
            u.take_fn(kk, "KeyKeeper::check_key", external_body=True, ghost=FS_RO, contract=ks.CHECK_CONTRACT % dict(f="check_key"))
            it = kk.item("KeyKeeper::loop_poll", "fn")
            if len(it["loops"]) != 1 or it["loops"][0]["kind"] != "loop":
                raise Undecided("loop_poll: expected exactly one `loop`")
            lo_, hi_ = it["loops"][0]["body"]
            a, _ = u.find_anchor(kk, lo_, hi_, "let status = match key::get_status(", None, "loop_poll")
            st = u.enclosing_stmt(it, a)
            lo, hi = st[0], hi_ - 1
            def n_calls(name):
                return len([c for c in it["calls"] if lo <= c["span"][0] and c["span"][1] <= hi and (c["callee"].replace(" ", "") == name or c["callee"].replace(" ", "").endswith("::" + name))])
            gc = []

            def every(name, extra):
                # E4 on EVERY call of `name` in the slice (none, one or several: an edit that adds, removes or duplicates a
                # call must reach the verifier, where the callee's precondition decides, instead of losing an anchor)
                if n_calls(name) > 0:
                    gc.append((name, "all", extra))
            every("key::get_status", "Tracked(h)")
            for f in ("update_wireserver_rule_id", "update_imds_rule_id", "update_hostga_rule_id", "set_wireserver_rules", "set_imds_rules", "set_hostga_rules",
                      "get_current_key_guid", "update_current_secure_channel_state", "clear_key"):
                every(f, "Tracked(a)")
            for f in ("redirector::update_wire_server_redirect_policy", "redirector::update_imds_redirect_policy", "redirector::update_hostga_redirect_policy"):
                every(f, "Tracked(rd)")
            for f in ("get_wireserver_rules", "get_imds_rules", "get_hostga_rules"):
                gc.append((f, pick_call(kk, it, lo, hi, f, "key_keeper_shared_state"), "Tracked(a)"))
            for f in ("Self::fetch_key", "Self::store_key", "Self::check_key"):
                every(f, "Tracked(fs)")
            every("update_key", "Tracked(fs), Tracked(h), Tracked(a), " + DIR_ARG)
            every("key::acquire_key", "Tracked(fs), Tracked(h), " + DIR_ARG)
            every("key::attest_key", "Tracked(fs), Tracked(h), " + DIR_ARG)
            u.slice_fn(kk, "KeyKeeper::loop_poll", "vx_poll_once", lo, hi, "&self, " + FS + ", " + A_ + ", " + H_ + ", " + RD_, ret_type="()", is_async=True,
                       replacements=[("continue;", "all", "return;")], ghost_calls=gc,
                       pre_body="broadcast use axiom_to_string_string, group_fmt, axiom_fmt_key_status, axiom_string_obeys_eq_spec, axiom_string_eq_spec;\nproof { lits_status(); lits_consts(); }\n",
                       tail="proof { h.completed = true; }\n",
                       contract=POLL_CONTRACT,
                       what="(loop body of loop_poll from the status request to the end; E5 drops: the sleep/notify select!, the provision time-up and event-thread start-up statements, get_notify and set_module_state(RUNNING) before the loop)")

            # ---- (e) the only other place that writes key-keeper state: the `notified` arm of loop_poll's select! (E5c).
            #      The then-block of its `if current_state == DISABLE_STATE || current_state == UNKNOWN_STATE` is lifted; the
            #      else-block (provision::key_latched + remaining sleep) makes no key-keeper call of its own.
            sel = [m for m in it["macros"] if m["name"] == "tokio::select"]
            if len(sel) != 1:
                raise Undecided("loop_poll: expected exactly one tokio::select!")
            sa, sb = sel[0]["span"]
            seltxt = kk.s(sa, sb)
            mm = list(re.finditer(r"if\s+current_state\s*==\s*DISABLE_STATE\s*\|\|\s*current_state\s*==\s*UNKNOWN_STATE\s*\{", seltxt))
            if len(mm) != 1:
                raise Undecided("loop_poll: the notified arm no longer tests `current_state == DISABLE_STATE || current_state == UNKNOWN_STATE`")
            code_sel = "\n".join(l for l in seltxt.split("\n") if not l.strip().startswith("//"))
            if len(re.findall(r"key_keeper_shared_state\s*\.\s*\w+\s*\(", code_sel)) != 1 + len(re.findall(r"key_keeper_shared_state\s*\.\s*clone\s*\(", code_sel)):
                raise Undecided("loop_poll: select! makes key-keeper calls other than the one in the lifted block")
            bo, bc = brace_block(kk, sa + len(seltxt[:mm[0].start()].encode()))
            blk = kk.s(bo, bc)
            cm = list(re.finditer(r"\.update_current_secure_channel_state\(", blk))
            if len(cm) != 1:
                raise Undecided("loop_poll: the lifted block of the notified arm does not make exactly one update_current_secure_channel_state call")
            depth, j = 0, cm[0].end() - 1
            while True:
                depth += {"(": 1, ")": -1}.get(blk[j], 0)
                if depth == 0:
                    break
                j += 1
            call_txt = blk[cm[0].start():j + 1]
            u.rule("E4", "KeyKeeper::loop_poll[vx_notified_reset]: ghost argument at call 'update_current_secure_channel_state' (inside tokio::select!, not indexed by syn: textual)")
            u.slice_fn(kk, "KeyKeeper::loop_poll", "vx_notified_reset", bo + 1, bc - 1,
                       "&self, current_state: String, start_0: Instant, provision_timeup_0: bool, " + A_, ret_type="(Instant, bool)", is_async=True,
                       replacements=[(call_txt, None, call_txt[:-1] + ", Tracked(a))")],
                       pre_body="broadcast use group_fmt;\nproof { lits_status(); lits_consts(); }\nlet mut start = start_0; let mut provision_timeup = provision_timeup_0;\n",
                       tail="(start, provision_timeup)\n",
                       what="(then-block of the state test in the `notified` arm of the select!)",
                       contract="""
        ensures
            !final(a).failed ==> final(a).s == (KkState { state: "Unknown"@, ..old(a).s }),  // @C09.notified.only_resets_the_channel_state_to_unknown
            !final(a).failed && old(a).s.disabled_means_no_key() ==> final(a).s.disabled_means_no_key(),  // @C09.notified.disabled_means_no_key_preserved
""")

            # ---- (f) the else-block of the same test: after provision::key_latched the task sleeps for the REST of the window. The
            #      statements from `let slept_time_in_millisec` to the end of the else-block are lifted (E5): C13 -- no arithmetic
            #      overflow/underflow (a panic in the debug profile, a practically endless sleep of the poll task in release).
            eo, ec = brace_block(kk, bc)
            if not re.match(r"\s*else\s*$", kk.s(bc, eo)):
                raise Undecided("loop_poll: the state test of the notified arm has no else-block directly after its then-block")
            eblk = kk.s(eo, ec)
            sm = list(re.finditer(r"let\s+slept_time_in_millisec\s*=", eblk))
            if len(sm) != 1:
                raise Undecided("loop_poll: the else-block of the notified arm no longer computes `slept_time_in_millisec`")
            u.slice_fn(kk, "KeyKeeper::loop_poll", "vx_notified_rest_of_sleep", eo + len(eblk[:sm[0].start()].encode()), ec - 1,
                       "current_state: String, sleep: Duration, time: Instant", ret_type="()", is_async=True,
                       pre_body="broadcast use group_fmt, axiom_fmt_duration;\n",
                       what="(tail of the else-block of the state test in the `notified` arm of the select!: remaining-sleep computation)",
                       contract="")
            u.auto_props["vx_notified_rest_of_sleep"] = "C13"

            # ---- (d) poll_secure_channel_status: the statements before the select! are verified as they are; the select!
            #      itself (Verus crashes on tokio::select!, T18) is moved verbatim into a generated stub (E9 statement redirection)
            pit = kk.item("KeyKeeper::poll_secure_channel_status", "fn")
            psel = [m for m in pit["macros"] if m["name"] == "tokio::select"]
            if len(psel) != 1:
                raise Undecided("poll_secure_channel_status: expected exactly one tokio::select!")
            pa, pb = psel[0]["span"]
            seltext = kk.s(pa, pb)
            u.take_fn(kk, "KeyKeeper::loop_poll", external_body=True, ret="")   # whole loop: stub (its body is covered by the two slices above)
            u.take_fn(kk, "KeyKeeper::stop", external_body=True, ret="")
            u.take_fn(kk, "KeyKeeper::poll_secure_channel_status", ret="", pre_body="broadcast use group_fmt;",
                      e9=[((pa, pb), None, "this: &KeyKeeper", "self", "", "", dict(name="vx_e9_poll_select", is_async=True, body=re.sub(r"\bself\b", "this", seltext) + ";", local=True))])
