# unit `keykeeper` (C08 protocol part, C09): key.rs KeyStatus::{validate, get_secure_channel_state, get_*_mode, get_*_rules,
# get_*_rule_id}, key_keeper.rs loop_poll (E5a slice of the loop-body tail), poll_secure_channel_status
import os
import re
import sys
HERE = os.path.dirname(os.path.abspath(__file__))
CONTRACTS = os.path.dirname(HERE)
COMMON = os.path.join(CONTRACTS, "common")
KEYSTORE = os.path.join(CONTRACTS, "keystore")
sys.path.insert(0, os.path.join(os.path.dirname(CONTRACTS), "tools"))
import vxlib  # noqa: E402
from vxlib import Undecided  # noqa: E402

ASSUMPTIONS = [
]
FN_PROPS = {}


def ext_verbatim(u, sf, modname, uses, type_paths, impl_paths, transparent, opaque):
    """E1: type definitions AND the listed trait impls copied byte-for-byte into a plain-Rust module outside verus!{}
    (rustc checks them; serde / Display derives and impls intact). `transparent`: Verus sees the fields (all made pub by
    E2); `opaque`: Verus sees only the name."""
    from vxlib import apply_edits
    u.take_ext(sf, type_paths, modname, uses=uses, opaque=False)
    close = u.ext_pieces.pop()
    assert close.text.startswith("} // mod " + modname)
    saved = u.pieces
    u.pieces = u.ext_pieces
    for p in impl_paths:
        it = sf.item(p, "impl")
        u.pieces += apply_edits(sf, it["span"][0], it["span"][1], [])
        u.emit("", "glue")
        u.rule("E1", "impl %s kept outside verus! verbatim  <- %s:%d" % (p, sf.rel, sf.line_of(it["span"][0])))
    u.ext_pieces.append(close)
    u.pieces = saved
    for n in transparent:
        u.emit("#[verifier::external_type_specification]\npub struct VxEx_%s_%s(crate::%s::%s);" % (modname, n, modname, n), "glue", "E1")
    for n in opaque:
        u.emit("#[verifier::external_type_specification]\n#[verifier::external_body]\npub struct VxEx_%s_%s(crate::%s::%s);" % (modname, n, modname, n), "glue", "E1")


def fmt_stub(u, sf, it, fnname, idx, argtypes, specs):
    """E9 + E6: redirect the idx-th `format!(LIT, args..)` of `it` to a generated stub whose body is that very format! call
    (arguments renamed a0..an) and whose ASSUMED contract is generated from the literal found in the tree:
    r@ == lit0 + spec(a0) + lit1 + ... ; only `{}` placeholders."""
    ms = sorted([m for m in it["macros"] if m["name"] == "format"], key=lambda m: m["span"][0])
    if idx >= len(ms):
        raise Undecided("%s: format! #%d not found" % (fnname, idx))
    a, b = ms[idx]["span"]
    text = sf.s(a, b)
    segs, args = vxlib.Unit.parse_format_macro(text)
    if len(args) != len(argtypes):
        raise Undecided("%s: format! #%d has %d arguments, expected %d" % (fnname, idx, len(args), len(argtypes)))

    def q(x):
        return '"' + x.replace("\\", "\\\\").replace('"', '\\"') + '"@'
    parts = []
    for i, sg in enumerate(segs):
        if sg:
            parts.append(q(sg))
        if i < len(args):
            parts.append(specs[i].replace("$", "a%d" % i))
    lit = text[text.index('"'):text.index('"', text.index('"') + 1) + 1]
    body = "format!(%s, %s)" % (lit, ", ".join("a%d" % i for i in range(len(args))))
    params = ", ".join("a%d: %s" % (i, t) for i, t in enumerate(argtypes))
    contract = "    ensures r@ == %s," % " + ".join(parts)
    return (text, None, params, ", ".join(args), "String", contract, dict(name="vx_e9_%s_fmt_%d" % (fnname, idx), body=body, local=True))


KEY_USES = """use crate::common::{constants, error::{Error, KeyErrorType}, result::Result};
use std::fmt::{Display, Formatter};
use std::{collections::HashMap, path::PathBuf};"""


def build_key_types(u, key):
    # serde derives inside verus!{} crash this Verus build, and Display for KeyStatus is needed by rustc for format!: all data
    # types of key.rs and their hand-written Clone / Display impls are kept verbatim OUTSIDE verus!{}
    ext_verbatim(u, key, "vx_ext_key",
                 "use serde_derive::{Deserialize, Serialize};\nuse std::collections::HashMap;\nuse std::fmt::{Display, Formatter};\nuse crate::common::constants;",
                 ["KeyStatus", "AuthorizationRules", "AuthorizationItem", "AccessControlRules", "Privilege", "Role", "Identity", "RoleAssignment", "Key"],
                 ["<AuthorizationItem as Clone>", "<Privilege as Clone>", "<Role as Clone>", "<Identity as Clone>", "<RoleAssignment as Clone>", "<KeyStatus as Display>"],
                 transparent=["KeyStatus", "AuthorizationRules", "AuthorizationItem", "Key"],
                 opaque=["AccessControlRules", "Privilege", "Role", "Identity", "RoleAssignment"])


MODE_CONTRACT = """
        ensures r@ == mode_of(*self, Endpoint::%(e)s),  // @C09.%(f)s.mode_of_the_document
"""
RULES_CONTRACT = """
        ensures r == doc_rules(*self, Endpoint::%(e)s),  // @C09.%(f)s.rules_of_the_document
"""
RULE_ID_CONTRACT = """
        ensures r@ == doc_rule_id(*self, Endpoint::%(e)s),  // @C09.%(f)s.rule_id_of_the_document
"""


def build(u):
    u.externs.append("serde_derive")
    u.features += ["allocator_api"]
    key = u.src("proxy_agent/src/key_keeper/key.rs")
    kk = u.src("proxy_agent/src/key_keeper.rs")
    err = u.src("proxy_agent/src/common/error.rs")
    sherr = u.src("proxy_agent_shared/src/error.rs")
    cs = u.src("proxy_agent/src/common/constants.rs")
    for f in ("str_axioms.rs", "ext_types.rs", "std_string.rs"):
        u.raw(open(os.path.join(COMMON, f)).read())
    for f in ("fs_spec.rs", "deps.rs", "spec.rs"):
        u.raw("// ---- contracts/keystore/%s\n" % f + open(os.path.join(KEYSTORE, f)).read())
    u.raw_file("deps.rs")
    u.raw_file("status_spec.rs")
    with u.mod("proxy_agent_shared"):
        with u.mod("error"):
            u.take_ext(sherr, ["Error", "ParseVersionErrorType", "CommandErrorType"], "vx_ext_shared_error")
    with u.mod("common"):
        with u.mod("error"):
            u.take_ext(err, ["Error", "HyperErrorType", "WireServerErrorType", "KeyErrorType", "AclErrorType", "BpfErrorType"], "vx_ext_error", uses="use http::{uri::InvalidUri, StatusCode};", opaque=False, transparent=False)
            for n in ("Error", "KeyErrorType"):
                u.emit("#[verifier::external_type_specification]\npub struct VxEx_vx_ext_error_%s(crate::vx_ext_error::%s);" % (n, n), "glue", "E1")
            for n in ("HyperErrorType", "WireServerErrorType", "AclErrorType", "BpfErrorType"):
                u.emit("#[verifier::external_type_specification]\n#[verifier::external_body]\npub struct VxEx_vx_ext_error_%s(crate::vx_ext_error::%s);" % (n, n), "glue", "E1")
        with u.mod("result", uses="use super::error::Error;"):
            u.raw("pub type Result<T> = core::result::Result<T, Error>;")
        with u.mod("constants"):
            for c in ("AUTHORIZATION_SCHEME", "KEY_DELIVERY_METHOD_HTTP", "KEY_DELIVERY_METHOD_VTPM"):
                u.take(cs, c, "const")
    with u.mod("key_keeper"):
        for c in ("DISABLE_STATE", "MUST_SIG_WIRESERVER", "MUST_SIG_WIRESERVER_IMDS", "UNKNOWN_STATE"):
            u.take(kk, c, "const")
        with u.mod("key", uses=KEY_USES):
            u.take(key, "AUDIT_MODE", "const")
            u.take(key, "ENFORCE_MODE", "const")
            build_key_types(u, key)
            PRE = "broadcast use axiom_str_ext, axiom_string_ext, axiom_to_string_string, group_fmt;\nproof { lits_status(); lits_consts(); }"
            with u.impl_(key, "KeyStatus"):
                u.take_fn(key, "KeyStatus::validate", pre_body=PRE, contract="""
        ensures r is Ok <==> valid_status(*self),  // @C09.validate.ok_iff_document_valid
                r is Ok ==> r->Ok_0,
""")
                gs = key.item("KeyStatus::get_secure_channel_state", "fn")
                u.take_fn(key, "KeyStatus::get_secure_channel_state", pre_body=PRE,
                          e9=[fmt_stub(u, key, gs, "get_secure_channel_state", 0, ["&str", "&str", "&str"], ["$@", "$@", "$@"])],
                          contract="""
        ensures r@ == sc_state(*self),  // @C09.get_secure_channel_state.state_of_the_document
""")
                for (f, e) in (("get_wireserver_rule_id", "WireServer"), ("get_imds_rule_id", "Imds"), ("get_hostga_rule_id", "HostGA")):
                    u.take_fn(key, "KeyStatus::" + f, pre_body=PRE, contract=RULE_ID_CONTRACT % dict(f=f, e=e))
                for (f, e) in (("get_wireserver_rules", "WireServer"), ("get_imds_rules", "Imds"), ("get_hostga_rules", "HostGA")):
                    u.take_fn(key, "KeyStatus::" + f, pre_body=PRE, contract=RULES_CONTRACT % dict(f=f, e=e))
                for (f, e) in (("get_wire_server_mode", "WireServer"), ("get_imds_mode", "Imds"), ("get_hostga_mode", "HostGA")):
                    u.take_fn(key, "KeyStatus::" + f, pre_body=PRE, contract=MODE_CONTRACT % dict(f=f, e=e))
