// ---- external types / assumed specs needed by the poll slice --------------------------------------------------------
#[verifier::external_type_specification] #[verifier::external_body]
pub struct ExCancellationToken(tokio_util::sync::CancellationToken);
pub assume_specification [<tokio_util::sync::CancellationToken as Clone>::clone] (a: &tokio_util::sync::CancellationToken) -> (r: tokio_util::sync::CancellationToken)
    ensures r == *a;
pub assume_specification [<shared_state::key_keeper_wrapper::KeyKeeperSharedState as Clone>::clone] (a: &shared_state::key_keeper_wrapper::KeyKeeperSharedState) -> (r: shared_state::key_keeper_wrapper::KeyKeeperSharedState)
    ensures r == *a;
pub assume_specification [<shared_state::telemetry_wrapper::TelemetrySharedState as Clone>::clone] (a: &shared_state::telemetry_wrapper::TelemetrySharedState) -> (r: shared_state::telemetry_wrapper::TelemetrySharedState)
    ensures r == *a;
pub assume_specification [<shared_state::provision_wrapper::ProvisionSharedState as Clone>::clone] (a: &shared_state::provision_wrapper::ProvisionSharedState) -> (r: shared_state::provision_wrapper::ProvisionSharedState)
    ensures r == *a;
pub assume_specification [<shared_state::agent_status_wrapper::AgentStatusSharedState as Clone>::clone] (a: &shared_state::agent_status_wrapper::AgentStatusSharedState) -> (r: shared_state::agent_status_wrapper::AgentStatusSharedState)
    ensures r == *a;
pub assume_specification [<shared_state::redirector_wrapper::RedirectorSharedState as Clone>::clone] (a: &shared_state::redirector_wrapper::RedirectorSharedState) -> (r: shared_state::redirector_wrapper::RedirectorSharedState)
    ensures r == *a;
#[verifier::external_body]
pub broadcast proof fn axiom_fmt_key_status() ensures #[trigger] vstd::std_specs::fmt::fmt_req_all::<key_keeper::key::KeyStatus>() {}
#[verifier::external_type_specification] #[verifier::external_body]
pub struct ExInstant(std::time::Instant);
pub assume_specification [std::time::Instant::now] () -> std::time::Instant;
pub assume_specification [std::time::Instant::elapsed] (_0: &std::time::Instant) -> std::time::Duration;
pub assume_specification [std::time::Duration::as_millis] (_0: &std::time::Duration) -> u128;
pub assume_specification [std::time::Duration::from_millis] (_0: u64) -> std::time::Duration;
#[verifier::external_type_specification] #[verifier::external_body]
pub struct ExTokioSleep(tokio::time::Sleep);
pub assume_specification [tokio::time::sleep] (_0: std::time::Duration) -> tokio::time::Sleep;
#[verifier::external_body]
pub broadcast proof fn axiom_fmt_duration() ensures #[trigger] vstd::std_specs::fmt::fmt_req_all::<std::time::Duration>() {}
// str::eq_ignore_ascii_case compares the ASCII-lower-cased texts (ascii_lower is not interpreted: no clause of this unit may rest on it)
pub uninterp spec fn ascii_lower(s: Seq<char>) -> Seq<char>;
pub assume_specification [str::eq_ignore_ascii_case] (a: &str, b: &str) -> (r: bool)
    ensures r == (ascii_lower(a@) == ascii_lower(b@));
