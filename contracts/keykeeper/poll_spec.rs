// ---- C08 / C09: ghost world of ONE iteration of KeyKeeper::loop_poll (E4) -------------------------------------------------

use crate::proxy::authorization_rules::ComputedAuthorizationItem;

// `computed` / `computed_opt` (C02's compute, uninterpreted): text imported from contracts/actors/unit.py COMPUTED_SPEC (the unit that
// proves what set_*_rules sends), emitted right before this file

/// ABSTRACT KEY-KEEPER STATE S = (key, channel state, rule id per endpoint, computed rules per endpoint): the locals of the
/// actor in key_keeper_wrapper.rs. Single writer: every mutating wrapper method is called only from loop_poll (census on
/// every run), so the state is NOT havocked between two awaits of the iteration.
pub struct KkState {
    pub key: Option<Key>,
    pub state: Seq<char>,
    pub ws_id: Seq<char>, pub imds_id: Seq<char>, pub hostga_id: Seq<char>,
    pub ws_rules: Option<ComputedAuthorizationItem>, pub imds_rules: Option<ComputedAuthorizationItem>, pub hostga_rules: Option<ComputedAuthorizationItem>,
}
impl KkState {
    pub open spec fn rule_id(self, e: Endpoint) -> Seq<char> {
        match e { Endpoint::WireServer => self.ws_id, Endpoint::Imds => self.imds_id, Endpoint::HostGA => self.hostga_id }
    }
    pub open spec fn rules(self, e: Endpoint) -> Option<ComputedAuthorizationItem> {
        match e { Endpoint::WireServer => self.ws_rules, Endpoint::Imds => self.imds_rules, Endpoint::HostGA => self.hostga_rules }
    }
    pub open spec fn with_rule_id(self, e: Endpoint, id: Seq<char>) -> KkState {
        match e {
            Endpoint::WireServer => KkState { ws_id: id, ..self },
            Endpoint::Imds => KkState { imds_id: id, ..self },
            Endpoint::HostGA => KkState { hostga_id: id, ..self },
        }
    }
    pub open spec fn with_rules(self, e: Endpoint, r: Option<ComputedAuthorizationItem>) -> KkState {
        match e {
            Endpoint::WireServer => KkState { ws_rules: r, ..self },
            Endpoint::Imds => KkState { imds_rules: r, ..self },
            Endpoint::HostGA => KkState { hostga_rules: r, ..self },
        }
    }
    pub open spec fn key_guid(self) -> Option<Seq<char>> { match self.key { Some(k) => Some(k.guid@), None => None } }
    /// "when the channel is reported disabled the agent holds no key"
    pub open spec fn disabled_means_no_key(self) -> bool { self.state == "disabled"@ ==> self.key is None }
}

/// a mutating operation on the key-keeper actor (one per call of a mutating wrapper method)
pub enum Mut { RuleId(Endpoint, Seq<char>), Rules(Endpoint), Key(Option<Key>), State(Seq<char>) }

/// the key-keeper actor as this iteration sees it
pub tracked struct Actor {
    pub ghost s: KkState,                      // the actor state
    pub ghost muts: Seq<Mut>,                  // mutating wrapper calls made by this iteration, in order
    pub ghost failed: bool,                    // some wrapper call returned Err (actor task gone / channel closed)
}
impl Actor {
    pub open spec fn did(self, s: KkState, m: Mut) -> Actor { Actor { s, muts: self.muts.push(m), failed: self.failed } }
    /// a wrapper call that returned Err: the call was made, the actor may or may not have performed it
    pub open spec fn call_failed(self, s: KkState, m: Mut) -> Actor { Actor { s, muts: self.muts.push(m), failed: true } }
    pub open spec fn read_failed(self) -> Actor { Actor { failed: true, ..self } }
}
/// the host as this iteration sees it
pub tracked struct Host {
    pub ghost status: Option<KeyStatus>,       // the answer to this iteration's status request; None: failed or invalid
    pub ghost acquired: Option<Key>,           // the key the host handed out in this iteration (acquire_key Ok)
    pub ghost attested: Option<Key>,           // the key the host latched in this iteration (attest_key Ok)
    pub ghost attest_calls: nat,               // number of attest requests sent
    pub ghost acquire_calls: nat,              // number of acquire requests sent
    pub ghost completed: bool,                 // the iteration ran to its end (no `continue`)
}
/// the redirector as this iteration sees it
pub tracked struct Redir {
    pub ghost updates: Seq<(Endpoint, bool)>,  // redirect-policy updates made by this iteration, in order
}
/// start of an iteration: nothing done yet
pub open spec fn fresh(a: Actor, h: Host, rd: Redir) -> bool {
    a.muts == Seq::<Mut>::empty() && !a.failed && rd.updates == Seq::<(Endpoint, bool)>::empty() && h.status is None && h.acquired is None
    && h.attested is None && h.attest_calls == 0 && h.acquire_calls == 0 && !h.completed
}

/// the reply of get_current_key_guid for an actor key
pub open spec fn guid_reply(g: Option<String>, key: Option<Key>) -> bool {
    match key { Some(k) => g is Some && g->0@ == k.guid@, None => g is None }
}

// ---- C08 capabilities (DESIGN 2.3): state-based, so they can only be established by the postconditions of store_key /
//      check_key / attest_key / fetch_key on the SAME key ----
/// attest_key(k) may be called only when k is the key the host just handed out, its complete JSON is under its final name
/// in the key directory (store_key Ok) and it was read back identically from there (check_key Ok)
pub open spec fn may_attest(fs: Fs, h: Host, dir: PathId, k: Key) -> bool {
    h.acquired == Some(k) && stored_complete(fs, dir, k) && read_back_identical(fs, dir, k)
}
/// update_key(k) may be called only for a key the host latched in this iteration (attest_key Ok), or for the key read from
/// the local store under the guid the host names as latched
pub open spec fn may_publish(fs: Fs, h: Host, dir: PathId, k: Key) -> bool {
    h.attested == Some(k) || (h.status matches Some(st) && st.keyGuid matches Some(g) && reads_as(fs, key_path(dir, g@), k))
}
/// acquire_key may be called only when no readable local key exists under the guid the host names as latched
pub open spec fn may_acquire(fs: Fs, h: Host, dir: PathId) -> bool {
    h.status matches Some(st) && (st.keyGuid matches Some(g) ==> !key_readable(fs, key_path(dir, g@)))
}

/// C08 END TO END (pure): a guid the host regards as latched was attested by this agent, and attest_key's precondition held
/// at that moment. In that file-system state -- and in every later one that differs from it only by writes to OTHER final
/// names (lemma_other_writes_keep_the_key) -- a freshly started agent that is told the guid (a) finds the key readable, so
/// fetch_key returns Ok (C08.fetch_key.readable_key_is_found), (b) reads back exactly that key, and (c) may NOT call
/// acquire_key: its precondition is false, and the verified poll slice calls it only where the precondition holds.
pub proof fn lemma_latched_key_is_recovered(fs: Fs, h: Host, dir: PathId, k: Key, h2: Host, st2: KeyStatus)
    requires
        may_attest(fs, h, dir, k), !io_read_fault(key_path(dir, k.guid@)),
        h2.status == Some(st2), st2.keyGuid is Some, st2.keyGuid->0@ == k.guid@,
    ensures
        key_readable(fs, key_path(dir, k.guid@)),  // @C08.recover.latched_key_is_readable_after_restart
        forall|k2: Key| reads_as(fs, key_path(dir, k.guid@), k2) ==> k2 == k,  // @C08.recover.the_key_read_back_is_the_attested_one
        !may_acquire(fs, h2, dir),  // @C08.recover.no_new_key_may_be_requested
{
    lemma_restart_finds_the_stored_key(fs, dir, k);
}

/// the actor's initial state (key_keeper_wrapper.rs start_new: key None, state "Unknown", ids "", rules None)
pub open spec fn initial_state() -> KkState {
    KkState { key: None, state: "Unknown"@, ws_id: Seq::<char>::empty(), imds_id: Seq::<char>::empty(), hostga_id: Seq::<char>::empty(),
              ws_rules: None, imds_rules: None, hostga_rules: None }
}

// ---- C09: postcondition of a status-carrying iteration, per endpoint ----
/// after the rule step: the id is the document's; the rules were replaced by compute(document's rules) iff the id changed
pub open spec fn rules_step(o: KkState, n: KkState, st: KeyStatus, e: Endpoint) -> bool {
    &&& n.rule_id(e) == doc_rule_id(st, e)
    &&& n.rules(e) == (if o.rule_id(e) != doc_rule_id(st, e) { computed_opt(doc_rules(st, e)) } else { o.rules(e) })
}
/// the three redirect-policy updates the statement asks for when the channel state changes
pub open spec fn redirects_of(st: KeyStatus) -> Seq<(Endpoint, bool)> {
    Seq::<(Endpoint, bool)>::empty()
        .push((Endpoint::WireServer, intercepted(st, Endpoint::WireServer)))
        .push((Endpoint::Imds, intercepted(st, Endpoint::Imds)))
        .push((Endpoint::HostGA, intercepted(st, Endpoint::HostGA)))
}

// ---- host contract and the convergence lemma (pure) ----
/// HOST CONTRACT (assumed, stated as a hypothesis): the rule id determines the rule content
pub uninterp spec fn rules_of_id(e: Endpoint, id: Seq<char>) -> Option<AuthorizationItem>;
pub open spec fn host_consistent(st: KeyStatus) -> bool {
    forall|e: Endpoint| #[trigger] doc_rules(st, e) == rules_of_id(e, doc_rule_id(st, e))
}
/// invariant I(S): the rules held for an endpoint are the computed form of the document named by the rule id held for it
pub open spec fn inv_rules(s: KkState) -> bool {
    forall|e: Endpoint| #[trigger] s.rules(e) == computed_opt(rules_of_id(e, s.rule_id(e)))
}
/// C09 "the rules enforced for each endpoint are the ones in the latest document (or none if it carries none)":
/// for EVERY state S satisfying I -- i.e. after any history -- the state after a rule step with a consistent document
/// carries exactly compute(document's rules), a function of the document alone; and I is preserved.
pub proof fn lemma_rules_converge(o: KkState, n: KkState, st: KeyStatus)
    requires
        inv_rules(o), host_consistent(st),
        rules_step(o, n, st, Endpoint::WireServer), rules_step(o, n, st, Endpoint::Imds), rules_step(o, n, st, Endpoint::HostGA),
    ensures
        forall|e: Endpoint| #[trigger] n.rules(e) == computed_opt(doc_rules(st, e)),  // @C09.converge.rules_are_those_of_the_latest_document
        forall|e: Endpoint| #[trigger] n.rule_id(e) == doc_rule_id(st, e),
        inv_rules(n),  // @C09.converge.invariant_preserved
{
    assert forall|e: Endpoint| #[trigger] n.rules(e) == computed_opt(doc_rules(st, e)) && n.rule_id(e) == doc_rule_id(st, e) by {
        assert(doc_rules(st, e) == rules_of_id(e, doc_rule_id(st, e)));
        assert(o.rules(e) == computed_opt(rules_of_id(e, o.rule_id(e))));
        match e {
            Endpoint::WireServer => { assert(rules_step(o, n, st, Endpoint::WireServer)); }
            Endpoint::Imds => { assert(rules_step(o, n, st, Endpoint::Imds)); }
            Endpoint::HostGA => { assert(rules_step(o, n, st, Endpoint::HostGA)); }
        }
    }
    assert forall|e: Endpoint| #[trigger] n.rules(e) == computed_opt(rules_of_id(e, n.rule_id(e))) by {
        assert(doc_rules(st, e) == rules_of_id(e, doc_rule_id(st, e)));
        assert(n.rules(e) == computed_opt(doc_rules(st, e)));
    }
}

/// the invariants hold initially (host contract: an empty rule id names no rules)
pub proof fn lemma_initial_state_invariants()
    requires forall|e: Endpoint| #[trigger] rules_of_id(e, Seq::<char>::empty()) is None,
    ensures initial_state().disabled_means_no_key(), inv_rules(initial_state()),
{
    lits_status();
    assert forall|e: Endpoint| #[trigger] initial_state().rules(e) == computed_opt(rules_of_id(e, initial_state().rule_id(e))) by {
        assert(rules_of_id(e, Seq::<char>::empty()) is None);
        match e { Endpoint::WireServer => {}, Endpoint::Imds => {}, Endpoint::HostGA => {} }
    }
}

// ---- vacuity guard (DESIGN 2.4 (c)): the capability preconditions of the assumed host / actor stubs are satisfiable ----
pub proof fn witness_capabilities_satisfiable(k: Key, dir: PathId, st: KeyStatus)
    requires st.keyGuid is None,
    ensures
        exists|fs: Fs, h: Host| fs.safe() && #[trigger] may_attest(fs, h, dir, k) && may_acquire(fs, h, dir),
        exists|fs: Fs, h: Host| fs.safe() && #[trigger] may_publish(fs, h, dir, k),
{
    let kp = key_path(dir, k.guid@);
    let fs = Fs { m: Map::<PathId, FileState>::empty().insert(kp, FileState::Complete(json_of::<Key>(&k))) };
    let h = Host { status: Some(st), acquired: Some(k), attested: Some(k), attest_calls: 0, acquire_calls: 1, completed: false };
    axiom_key_json_round_trip(k);
    lemma_key_path_not_tmp(dir, k.guid@);
    assert(fs.state(kp) == FileState::Complete(json_of::<Key>(&k)));
    assert(reads_as(fs, kp, k));
    assert forall|p: PathId| #[trigger] fs.state(p) is Partial implies is_tmp(p) by { }
    assert(fs.safe() && may_attest(fs, h, dir, k) && may_acquire(fs, h, dir));
    assert(fs.safe() && may_publish(fs, h, dir, k));
}
