// ---- assumed specifications used by unit `keykeeper` (trusted) ---------------------------------------------------------
pub assume_specification [str::to_lowercase] (s: &str) -> (r: String)
    ensures r@ == lower(s@);
// the hand-written deep Clone impls of the rule document types (key.rs, kept verbatim outside verus!{}, not verified
// here) return an equal document
pub assume_specification [<key_keeper::key::AuthorizationItem as Clone>::clone] (a: &key_keeper::key::AuthorizationItem) -> (r: key_keeper::key::AuthorizationItem)
    ensures r == *a;

pub proof fn lits_consts()
    ensures
        common::constants::AUTHORIZATION_SCHEME@ == "Azure-HMAC-SHA256"@, common::constants::KEY_DELIVERY_METHOD_HTTP@ == "http"@,
        common::constants::KEY_DELIVERY_METHOD_VTPM@ == "vtpm"@,
        key_keeper::DISABLE_STATE@ == "disabled"@, key_keeper::MUST_SIG_WIRESERVER@ == "wireserver"@,
        key_keeper::MUST_SIG_WIRESERVER_IMDS@ == "wireserverandimds"@, key_keeper::UNKNOWN_STATE@ == "Unknown"@,
        key_keeper::key::AUDIT_MODE@ == "audit"@, key_keeper::key::ENFORCE_MODE@ == "enforce"@,
{
    reveal_strlit("Azure-HMAC-SHA256"); reveal_strlit("http"); reveal_strlit("vtpm"); reveal_strlit("disabled"); reveal_strlit("wireserver");
    reveal_strlit("wireserverandimds"); reveal_strlit("Unknown"); reveal_strlit("audit"); reveal_strlit("enforce");
}
