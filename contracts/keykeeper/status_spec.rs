// ---- C09: what a secure-channel status document SAYS (written from the statement and the field comments of KeyStatus) ----
use crate::key_keeper::key::{KeyStatus, AuthorizationItem, AuthorizationRules};

/// str::to_lowercase (uninterpreted)
pub uninterp spec fn lower(s: Seq<char>) -> Seq<char>;

pub open spec fn is_v2(st: KeyStatus) -> bool { st.version@ == "2.0"@ }

/// version 1.0: "One of Disabled, Wireserver, WireserverAndImds" (compared case-insensitively)
pub open spec fn v1_state_known(s: Seq<char>) -> bool {
    s == "disabled"@ || s == "wireserver"@ || s == "wireserverandimds"@
}

/// A document is INVALID (the poll must change nothing) when
///  * it carries neither secureChannelEnabled (2.0) nor secureChannelState (1.0), or
///  * it carries a secureChannelState that is not one of the three 1.0 values, or
///  * it says version 1.0 without secureChannelState, or version 2.0 without secureChannelEnabled.
pub open spec fn valid_status(st: KeyStatus) -> bool {
    &&& !(st.secureChannelEnabled is None && st.secureChannelState is None)
    &&& (st.secureChannelState matches Some(s) ==> v1_state_known(lower(s@)))
    &&& !(st.secureChannelState is None && st.version@ == "1.0"@)
    &&& !(st.secureChannelEnabled is None && st.version@ == "2.0"@)
}

/// the per-endpoint rule item of the document (None: the document carries none)
pub enum Endpoint { WireServer, Imds, HostGA }
pub open spec fn doc_rules(st: KeyStatus, e: Endpoint) -> Option<AuthorizationItem> {
    match st.authorizationRules {
        Some(r) => match e { Endpoint::WireServer => r.wireserver, Endpoint::Imds => r.imds, Endpoint::HostGA => r.hostga },
        None => None,
    }
}
/// the rule id of the document for an endpoint ("" if it carries no rules for it)
pub open spec fn doc_rule_id(st: KeyStatus, e: Endpoint) -> Seq<char> {
    match doc_rules(st, e) { Some(item) => item.id@, None => Seq::<char>::empty() }
}

/// 2.0: the mode word of an endpoint's item, lower-cased; "disabled" when the document has no item for it
pub open spec fn v2_mode(item: Option<AuthorizationItem>) -> Seq<char> {
    match item { Some(i) => lower(i.mode@), None => "disabled"@ }
}
/// 1.0: the channel state word, lower-cased; "disabled" when absent
pub open spec fn v1_state(st: KeyStatus) -> Seq<char> {
    match st.secureChannelState { Some(s) => lower(s@), None => "disabled"@ }
}
/// MODE of an endpoint (disabled / audit / enforce):
///  2.0: the item's mode;  HostGA "short-term: uses wireserver mode"
///  1.0: wireserver is enforced in states wireserver and wireserverandimds, imds in wireserverandimds, otherwise audit
pub open spec fn mode_of(st: KeyStatus, e: Endpoint) -> Seq<char> {
    if is_v2(st) {
        match e {
            Endpoint::WireServer | Endpoint::HostGA => v2_mode(doc_rules(st, Endpoint::WireServer)),
            Endpoint::Imds => v2_mode(doc_rules(st, Endpoint::Imds)),
        }
    } else {
        match e {
            Endpoint::WireServer | Endpoint::HostGA =>
                if v1_state(st) == "wireserver"@ || v1_state(st) == "wireserverandimds"@ { "enforce"@ } else { "audit"@ },
            Endpoint::Imds => if v1_state(st) == "wireserverandimds"@ { "enforce"@ } else { "audit"@ },
        }
    }
}
/// "each endpoint is intercepted exactly when its mode is not disabled"
pub open spec fn intercepted(st: KeyStatus, e: Endpoint) -> bool { mode_of(st, e) != "disabled"@ }

/// the three phrases of the 2.0 channel-state text, by mode (anything that is neither enforce nor audit reads Disabled)
pub open spec fn ws_phrase(m: Seq<char>) -> Seq<char> {
    if m == "enforce"@ { "WireServer Enforce"@ } else if m == "audit"@ { "WireServer Audit"@ } else { "WireServer Disabled"@ }
}
pub open spec fn imds_phrase(m: Seq<char>) -> Seq<char> {
    if m == "enforce"@ { " IMDS Enforce"@ } else if m == "audit"@ { " IMDS Audit"@ } else { " IMDS Disabled"@ }
}
pub open spec fn hostga_phrase(m: Seq<char>) -> Seq<char> {
    if m == "enforce"@ { "HostGA Enforce"@ } else if m == "audit"@ { "HostGA Audit"@ } else { "HostGA Disabled"@ }
}
/// REPORTED CHANNEL STATE:
///  2.0: "disabled" unless secureChannelEnabled == true and the document carries authorizationRules; then the text
///       "<wireserver phrase> - <imds phrase> - <hostga phrase>", HostGA following the wireserver mode (short-term rule)
///  1.0: the lower-cased secureChannelState, "disabled" when absent
pub open spec fn sc_state(st: KeyStatus) -> Seq<char> {
    if is_v2(st) {
        if st.secureChannelEnabled == Some(true) && st.authorizationRules is Some {
            v2_state_text(mode_of(st, Endpoint::WireServer), mode_of(st, Endpoint::Imds), mode_of(st, Endpoint::HostGA))
        } else { "disabled"@ }
    } else { v1_state(st) }
}
pub open spec fn v2_state_text(w: Seq<char>, i: Seq<char>, h: Seq<char>) -> Seq<char> {
    ws_phrase(w) + " - "@ + imds_phrase(i) + " - "@ + hostga_phrase(h)
}
pub open spec fn channel_disabled(st: KeyStatus) -> bool { sc_state(st) == "disabled"@ }

pub proof fn lits_status()
    ensures
        "disabled"@.len() == 8, "audit"@.len() == 5, "enforce"@.len() == 7, "wireserver"@.len() == 10, "wireserverandimds"@.len() == 17,
        "1.0"@.len() == 3, "2.0"@.len() == 3, "1.0"@ != "2.0"@, "Unknown"@.len() == 7, "Unknown"@ != "disabled"@,
        "Enforce"@.len() == 7, "Audit"@.len() == 5, "Disabled"@.len() == 8,
        "http"@.len() == 4, "vtpm"@.len() == 4, "Azure-HMAC-SHA256"@.len() == 17,
        "disabled"@ != "audit"@, "disabled"@ != "enforce"@, "audit"@ != "enforce"@,
{
    reveal_strlit("disabled"); reveal_strlit("audit"); reveal_strlit("enforce"); reveal_strlit("wireserver"); reveal_strlit("wireserverandimds");
    reveal_strlit("1.0"); reveal_strlit("2.0"); reveal_strlit("Unknown"); reveal_strlit("Enforce"); reveal_strlit("Audit"); reveal_strlit("Disabled");
    reveal_strlit("http"); reveal_strlit("vtpm"); reveal_strlit("Azure-HMAC-SHA256");
    assert("1.0"@[0] == '1'); assert("2.0"@[0] == '2');
    assert("disabled"@[0] == 'd'); assert("enforce"@[0] == 'e'); assert("Unknown"@[0] == 'U');
}
