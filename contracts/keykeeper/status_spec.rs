// ---- C09: what a secure-channel status document SAYS (written from the statement and the field comments of KeyStatus) ----
use crate::key_keeper::key::{KeyStatus, AuthorizationItem, AuthorizationRules};

/// str::to_lowercase (uninterpreted)
pub uninterp spec fn lower(s: Seq<char>) -> Seq<char>;

pub open spec fn is_v2(st: KeyStatus) -> bool { st.version@ == "2.0"@ }

/// version 1.0: "One of Disabled, Wireserver, WireserverAndImds" (compared case-insensitively)
pub open spec fn v1_state_known(s: Seq<char>) -> bool {
    s == "disabled"@ || s == "wireserver"@ || s == "wireserverandimds"@
}

/// A document is INVALID (the poll must change nothing) when
///  * it carries neither secureChannelEnabled (2.0) nor secureChannelState (1.0), or
///  * it carries a secureChannelState that is not one of the three 1.0 values, or
///  * it says version 1.0 without secureChannelState, or version 2.0 without secureChannelEnabled.
///  * (protocol constants, named by the validator's own messages) its authorizationScheme is not 'Azure-HMAC-SHA256' - the only
///    scheme the agent signs with (C04) - or its keyDeliveryMethod is neither 'http' nor 'vtpm'.
pub open spec fn valid_status(st: KeyStatus) -> bool {
    &&& st.authorizationScheme@ == "Azure-HMAC-SHA256"@
    &&& (st.keyDeliveryMethod@ == "http"@ || st.keyDeliveryMethod@ == "vtpm"@)
    &&& !(st.secureChannelEnabled is None && st.secureChannelState is None)
    &&& (st.secureChannelState matches Some(s) ==> v1_state_known(lower(s@)))
    &&& !(st.secureChannelState is None && st.version@ == "1.0"@)
    &&& !(st.secureChannelEnabled is None && st.version@ == "2.0"@)
}

/// the per-endpoint rule item of the document (None: the document carries none)
// `pub enum Endpoint { WireServer, Imds, HostGA }`: text imported from contracts/redirect/unit.py ENDPOINT_SPEC, emitted right before this file
pub open spec fn doc_rules(st: KeyStatus, e: Endpoint) -> Option<AuthorizationItem> {
    match st.authorizationRules {
        Some(r) => match e { Endpoint::WireServer => r.wireserver, Endpoint::Imds => r.imds, Endpoint::HostGA => r.hostga },
        None => None,
    }
}
/// the rule id of the document for an endpoint ("" if it carries no rules for it)
pub open spec fn doc_rule_id(st: KeyStatus, e: Endpoint) -> Seq<char> {
    match doc_rules(st, e) { Some(item) => item.id@, None => Seq::<char>::empty() }
}

/// 2.0: the mode word of an endpoint's item, lower-cased; "disabled" when the document has no item for it
pub open spec fn v2_mode(item: Option<AuthorizationItem>) -> Seq<char> {
    match item { Some(i) => lower(i.mode@), None => "disabled"@ }
}
/// 1.0: the channel state word, lower-cased; "disabled" when absent
pub open spec fn v1_state(st: KeyStatus) -> Seq<char> {
    match st.secureChannelState { Some(s) => lower(s@), None => "disabled"@ }
}
/// MODE of an endpoint (disabled / audit / enforce):
///  2.0: the item's mode;  HostGA "short-term: uses wireserver mode"
///  1.0: wireserver is enforced in states wireserver and wireserverandimds, imds in wireserverandimds, otherwise audit
pub open spec fn mode_of(st: KeyStatus, e: Endpoint) -> Seq<char> {
    if is_v2(st) {
        match e {
            Endpoint::WireServer | Endpoint::HostGA => v2_mode(doc_rules(st, Endpoint::WireServer)),
            Endpoint::Imds => v2_mode(doc_rules(st, Endpoint::Imds)),
        }
    } else {
        match e {
            Endpoint::WireServer | Endpoint::HostGA =>
                if v1_state(st) == "wireserver"@ || v1_state(st) == "wireserverandimds"@ { "enforce"@ } else { "audit"@ },
            Endpoint::Imds => if v1_state(st) == "wireserverandimds"@ { "enforce"@ } else { "audit"@ },
        }
    }
}
/// "each endpoint is intercepted exactly when its mode is not disabled"
pub open spec fn intercepted(st: KeyStatus, e: Endpoint) -> bool { mode_of(st, e) != "disabled"@ }

/// the three phrases of the 2.0 channel-state text, by mode (anything that is neither enforce nor audit reads Disabled)
pub open spec fn ws_phrase(m: Seq<char>) -> Seq<char> {
    if m == "enforce"@ { "WireServer Enforce"@ } else if m == "audit"@ { "WireServer Audit"@ } else { "WireServer Disabled"@ }
}
pub open spec fn imds_phrase(m: Seq<char>) -> Seq<char> {
    if m == "enforce"@ { " IMDS Enforce"@ } else if m == "audit"@ { " IMDS Audit"@ } else { " IMDS Disabled"@ }
}
pub open spec fn hostga_phrase(m: Seq<char>) -> Seq<char> {
    if m == "enforce"@ { "HostGA Enforce"@ } else if m == "audit"@ { "HostGA Audit"@ } else { "HostGA Disabled"@ }
}
/// REPORTED CHANNEL STATE:
///  2.0: "disabled" unless secureChannelEnabled == true and the document carries authorizationRules; then the text
///       "<wireserver phrase> - <imds phrase> - <hostga phrase>", HostGA following the wireserver mode (short-term rule)
///  1.0: the lower-cased secureChannelState, "disabled" when absent
pub open spec fn sc_state(st: KeyStatus) -> Seq<char> {
    if is_v2(st) {
        if st.secureChannelEnabled == Some(true) && st.authorizationRules is Some {
            v2_state_text(mode_of(st, Endpoint::WireServer), mode_of(st, Endpoint::Imds), mode_of(st, Endpoint::HostGA))
        } else { "disabled"@ }
    } else { v1_state(st) }
}
pub open spec fn v2_state_text(w: Seq<char>, i: Seq<char>, h: Seq<char>) -> Seq<char> {
    ws_phrase(w) + " - "@ + imds_phrase(i) + " - "@ + hostga_phrase(h)
}
pub open spec fn channel_disabled(st: KeyStatus) -> bool { sc_state(st) == "disabled"@ }

pub proof fn lits_status()
    ensures
        "disabled"@.len() == 8, "audit"@.len() == 5, "enforce"@.len() == 7, "wireserver"@.len() == 10, "wireserverandimds"@.len() == 17,
        "1.0"@.len() == 3, "2.0"@.len() == 3, "1.0"@ != "2.0"@, "Unknown"@.len() == 7, "Unknown"@ != "disabled"@,
        "Enforce"@.len() == 7, "Audit"@.len() == 5, "Disabled"@.len() == 8,
        "http"@.len() == 4, "vtpm"@.len() == 4, "Azure-HMAC-SHA256"@.len() == 17,
        "disabled"@ != "audit"@, "disabled"@ != "enforce"@, "audit"@ != "enforce"@,
{
    reveal_strlit("disabled"); reveal_strlit("audit"); reveal_strlit("enforce"); reveal_strlit("wireserver"); reveal_strlit("wireserverandimds");
    reveal_strlit("1.0"); reveal_strlit("2.0"); reveal_strlit("Unknown"); reveal_strlit("Enforce"); reveal_strlit("Audit"); reveal_strlit("Disabled");
    reveal_strlit("http"); reveal_strlit("vtpm"); reveal_strlit("Azure-HMAC-SHA256");
    assert("1.0"@[0] == '1'); assert("2.0"@[0] == '2');
    assert("disabled"@[0] == 'd'); assert("enforce"@[0] == 'e'); assert("Unknown"@[0] == 'U');
}

// ---- lemmas about the reported channel state (pure) -----------------------------------------------------------------
pub proof fn lits_phrases()
    ensures
        "WireServer Enforce"@.len() == 18, "WireServer Audit"@.len() == 16, "WireServer Disabled"@.len() == 19,
        " IMDS Enforce"@.len() == 13, " IMDS Audit"@.len() == 11, " IMDS Disabled"@.len() == 14,
        "HostGA Enforce"@.len() == 14, "HostGA Audit"@.len() == 12, "HostGA Disabled"@.len() == 15,
        " - "@.len() == 3,
        "WireServer Enforce"@[0] == 'W', "WireServer Audit"@[0] == 'W', "WireServer Disabled"@[0] == 'W',
        "WireServer Enforce"@[11] == 'E', "WireServer Audit"@[11] == 'A', "WireServer Disabled"@[11] == 'D',
        "disabled"@[0] == 'd',
{
    reveal_strlit("WireServer Enforce"); reveal_strlit("WireServer Audit"); reveal_strlit("WireServer Disabled");
    reveal_strlit(" IMDS Enforce"); reveal_strlit(" IMDS Audit"); reveal_strlit(" IMDS Disabled");
    reveal_strlit("HostGA Enforce"); reveal_strlit("HostGA Audit"); reveal_strlit("HostGA Disabled");
    reveal_strlit(" - "); reveal_strlit("disabled");
}

/// the 2.0 state text starts with the wireserver phrase and has the summed length
pub proof fn lemma_v2_text_shape(w: Seq<char>, i: Seq<char>, h: Seq<char>)
    ensures
        v2_state_text(w, i, h).len() == ws_phrase(w).len() + imds_phrase(i).len() + hostga_phrase(h).len() + 6,
        v2_state_text(w, i, h)[0] == 'W',
        v2_state_text(w, i, h)[11] == ws_phrase(w)[11],
{
    lits_phrases();
}

/// 2.0: the channel is reported "disabled" exactly when secureChannelEnabled is not true or the document has no rules
pub proof fn lemma_v2_disabled_iff(st: KeyStatus)
    requires is_v2(st),
    ensures channel_disabled(st) <==> !(st.secureChannelEnabled == Some(true) && st.authorizationRules is Some),  // @C09.status.v2_disabled_iff_not_enabled_or_no_rules
{
    lits_phrases();
    lemma_v2_text_shape(mode_of(st, Endpoint::WireServer), mode_of(st, Endpoint::Imds), mode_of(st, Endpoint::HostGA));
}

/// a mode word the documentation of AuthorizationItem.mode allows: "disabled, audit, enforce"
pub open spec fn known_mode(m: Seq<char>) -> bool { m == "disabled"@ || m == "audit"@ || m == "enforce"@ }

/// C09 "whenever the reported channel state changes each endpoint is intercepted exactly when its mode is not disabled":
/// the code re-programs the redirector only when the state TEXT changes. For two 2.0 documents with the channel enabled and
/// documented mode words, an unchanged text implies unchanged interception of every endpoint -- so keying the update on the
/// text loses no change of interception. (Outside these hypotheses it can: see the unit's report.)
pub proof fn lemma_v2_same_text_same_interception(a: KeyStatus, b: KeyStatus)
    requires
        is_v2(a), is_v2(b), !channel_disabled(a), !channel_disabled(b),
        known_mode(mode_of(a, Endpoint::WireServer)), known_mode(mode_of(a, Endpoint::Imds)),
        known_mode(mode_of(b, Endpoint::WireServer)), known_mode(mode_of(b, Endpoint::Imds)),
        sc_state(a) == sc_state(b),
    ensures
        forall|e: Endpoint| intercepted(a, e) == intercepted(b, e),  // @C09.status.v2_state_text_determines_interception
{
    lits_phrases(); lits_status();
    lemma_v2_disabled_iff(a); lemma_v2_disabled_iff(b);
    let (wa, ia, ha) = (mode_of(a, Endpoint::WireServer), mode_of(a, Endpoint::Imds), mode_of(a, Endpoint::HostGA));
    let (wb, ib, hb) = (mode_of(b, Endpoint::WireServer), mode_of(b, Endpoint::Imds), mode_of(b, Endpoint::HostGA));
    lemma_v2_text_shape(wa, ia, ha); lemma_v2_text_shape(wb, ib, hb);
    assert(ha == wa && hb == wb);
    assert(ws_phrase(wa)[11] == ws_phrase(wb)[11]);
    assert(wa == wb);
    assert(imds_phrase(ia).len() == imds_phrase(ib).len());
    assert(ia == ib);
    assert forall|e: Endpoint| intercepted(a, e) == intercepted(b, e) by {
        match e { Endpoint::WireServer => {}, Endpoint::Imds => {}, Endpoint::HostGA => {} }
    }
}

/// 1.0: every endpoint is always intercepted (its mode is audit or enforce, never disabled)
pub proof fn lemma_v1_always_intercepted(st: KeyStatus, e: Endpoint)
    requires !is_v2(st),
    ensures intercepted(st, e),  // @C09.status.v1_endpoints_always_intercepted
{
    lits_status();
}
