"""writes a rustc program: the tree's bitflags! declaration + an exhaustive check of the clauses assumed in deps.rs"""
import sys
t = open(sys.argv[1] + '/proxy_agent/src/provision.rs').read()
a = t.index('bitflags::bitflags! {')
i = t.index('{', a)
d = 0
for j in range(i, len(t)):
    d += (t[j] == '{') - (t[j] == '}')
    if d == 0:
        break
open(sys.argv[2], 'w').write(t[a:j + 1] + r"""
fn main(){
    let union: u8 = ProvisionFlags::all().bits();
    let mut n=0u32;
    for a in 0u16..256 { for b in 0u16..256 {
        let (a,b)=(a as u8,b as u8);
        let fa=ProvisionFlags::from_bits_retain(a); let fb=ProvisionFlags::from_bits_retain(b);
        assert_eq!(fa.bits(), a);                                            // pf_bits / pf_of are inverse
        assert_eq!(fa.contains(fb.clone()), a & b == b);                     // contains
        assert_eq!(fa.intersects(fb.clone()), a & b != 0);                   // intersects
        let mut x=fa.clone(); x |= fb.clone(); assert_eq!(x.bits(), a | b);  // |=
        let mut y=fa.clone(); y &= fb.clone(); assert_eq!(y.bits(), a & b);  // &=
        assert_eq!((!fb.clone()).bits(), !b & union);                        // ! truncates to the declared flags
        let mut z=fa.clone(); z &= !fb.clone(); assert_eq!(z.bits(), a & (!b & union));
        assert_eq!(fa.clone().bits(), a);                                    // clone
        assert_eq!(fa.is_empty(), a==0);
        n+=1;
    }}
    let _=format!("{:?}", ProvisionFlags::from_bits_retain(0xff));           // Debug does not panic
    println!("bitflags assumptions validated on {} pairs (declared union = {})", n, union);
}
""")
