"""writes a rustc program: the tree's bitflags! declaration + an exhaustive check of the clauses assumed in deps.rs"""
import sys
t = open(sys.argv[1] + '/proxy_agent/src/provision.rs').read()
a = t.index('bitflags::bitflags! {')
i = t.index('{', a)
d = 0
for j in range(i, len(t)):
    d += (t[j] == '{') - (t[j] == '}')
    if d == 0:
        break
open(sys.argv[2], 'w').write(t[a:j + 1] + r"""
fn main(){
    let union: u8 = ProvisionFlags::all().bits();
    assert_eq!(ProvisionFlags::empty().bits(), 0);
    let mut n=0u32;
    for a in 0u16..256 { for b in 0u16..256 {
        let (a,b)=(a as u8,b as u8);
        let fa=ProvisionFlags::from_bits_retain(a); let fb=ProvisionFlags::from_bits_retain(b);
        assert_eq!(fa.bits(), a);                                            // pf_bits / pf_of are inverse
        assert_eq!(fa.contains(fb.clone()), a & b == b);                     // contains
        assert_eq!(fa.intersects(fb.clone()), a & b != 0);                   // intersects
        let mut x=fa.clone(); x |= fb.clone(); assert_eq!(x.bits(), a | b);  // |=
        let mut y=fa.clone(); y &= fb.clone(); assert_eq!(y.bits(), a & b);  // &=
        assert_eq!((!fb.clone()).bits(), !b & union);                        // ! truncates to the declared flags
        let mut z=fa.clone(); z &= !fb.clone(); assert_eq!(z.bits(), a & (!b & union));
        assert_eq!(fa.clone().bits(), a);                                    // clone
        assert_eq!(fa.is_empty(), a==0);
        assert_eq!(fa.is_all(), a & union == union);                          // is_all
        let mut i=fa.clone(); i.insert(fb.clone()); assert_eq!(i.bits(), a | b);          // insert
        let mut r=fa.clone(); r.remove(fb.clone()); assert_eq!(r.bits(), a & !b);         // remove (other NOT truncated)
        let mut t=fa.clone(); t.toggle(fb.clone()); assert_eq!(t.bits(), a ^ b);          // toggle
        let mut s1=fa.clone(); s1.set(fb.clone(), true); assert_eq!(s1.bits(), a | b);    // set(true)
        let mut s0=fa.clone(); s0.set(fb.clone(), false); assert_eq!(s0.bits(), a & !b);  // set(false)
        assert_eq!(fa.clone().union(fb.clone()).bits(), a | b);
        assert_eq!(fa.clone().intersection(fb.clone()).bits(), a & b);
        assert_eq!(fa.clone().difference(fb.clone()).bits(), a & !b);
        assert_eq!(fa.clone().symmetric_difference(fb.clone()).bits(), a ^ b);
        assert_eq!(fb.clone().complement().bits(), !b & union);
        assert_eq!((fa.clone() | fb.clone()).bits(), a | b);                  // operators
        assert_eq!((fa.clone() & fb.clone()).bits(), a & b);
        assert_eq!((fa.clone() ^ fb.clone()).bits(), a ^ b);
        assert_eq!((fa.clone() - fb.clone()).bits(), a & !b);
        let mut x2=fa.clone(); x2 ^= fb.clone(); assert_eq!(x2.bits(), a ^ b);
        let mut x3=fa.clone(); x3 -= fb.clone(); assert_eq!(x3.bits(), a & !b);
        assert_eq!(ProvisionFlags::from_bits_truncate(b).bits(), b & union);
        assert_eq!(ProvisionFlags::from_bits_retain(b).bits(), b);
        assert_eq!(ProvisionFlags::from_bits(b).map(|f| f.bits()), if b & !union == 0 { Some(b) } else { None });
        n+=1;
    }}
    let _=format!("{:?}", ProvisionFlags::from_bits_retain(0xff));           // Debug does not panic
    println!("bitflags assumptions validated on {} pairs (declared union = {})", n, union);
}
""")
