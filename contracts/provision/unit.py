# unit `provision` (C16): provision.rs, the actor arms of shared_state/provision_wrapper.rs,
# proxy_server.rs::handle_provision_state_check_request
import os
import re
import sys
HERE = os.path.dirname(os.path.abspath(__file__))
COMMON = os.path.join(os.path.dirname(HERE), "common")
sys.path.insert(0, os.path.join(os.path.dirname(os.path.dirname(HERE)), "tools"))
import vxlib  # noqa: E402
from vxlib import Undecided  # noqa: E402

ASSUMPTIONS = [
    "ProvisionSharedState::{update_one_state,reset_one_state,get_state,set_provision_finished,get_provision_finished} are stubs: each is ONE atomic "
    "actor operation on an arbitrary actor state (reply = st|s / st&!s / st / new tick / tick for SOME st). Justified by the verified arm slices "
    "(state' and reply of every arm) and the verified message slices (which message each wrapper sends); NOT verified: the dispatch loop "
    "`while let Some(action) = rx.recv().await { match action {..} }` itself and tokio's mpsc/oneshot delivery (oneshot: sent_value(tx) is the value handed to send)",
    "rely/guarantee: only await-point interleaving of tokio tasks is covered (the actor state is havocked between two awaits of a function); "
    "the three mutating wrapper methods are called only from update_provision_state / reset_provision_state / provision_timeup (syntactic census over "
    "proxy_agent/src on every run, UNDECIDED if it changes); provision_timeup is the deadline handler: its only caller (key_keeper.rs) is behind the "
    "`start.elapsed() > PROVISION_TIMEUP_IN_MILLISECONDS` test (syntactic check), `requires deadline_passed` is otherwise assumed",
    "bitflags 2.6 semantics of contains / intersects / |= / &= / ! (complement truncated to the declared flags) / clone / bits over u8 "
    "(exhaustively executed against the real crate: contracts/provision/validate_bitflags.sh); flag values read from the tree's bitflags! text",
    "callee stubs without behaviour that matters here: logger::{write_warning,write_error,write_serial_console_log}, event_logger::write_event, "
    "misc_helpers::{try_create_folder,get_date_time_string_with_milliseconds}, config::get_keys_dir, helpers::xml_escape, start_event_threads, "
    "ConnectionLogger::write, KeyKeeperSharedState::notify, ProvisionSharedState::{get,set}_event_log_threads_initialized; "
    "misc_helpers::get_date_time_unix_nano returns a clock reading > 0; KeyKeeperSharedState::get_current_secure_channel_state and "
    "AgentStatusSharedState::get_module_status only report (recorded in the ghost Task); hyper_client::full_body carries its argument's bytes; "
    "ProxyServer::empty_response has the given status and an empty body",
    "format!(\"<lit> {} <lit>\", s: String) == lit0 + s + lit1 for the three section literals of get_provision_failed_state_message (E9 stubs whose "
    "contracts are generated from the literals in the tree); Display/Debug of Error types, ParseIntError, serde_json::Error, io::Error, ProvisionFlags do not panic",
    "http/hyper/serde_json/std: Request::headers, HeaderMap::get/insert, HeaderValue::to_str/from_static (requires visible ASCII), str::parse, "
    "serde_json::to_string (result is json_of(value), uninterpreted), Response::new (200) / headers_mut / status_mut frames, String::as_bytes, "
    "<[u8]>::to_vec, Result::unwrap_or; StatusCode::BAD_REQUEST == 400, INTERNAL_SERVER_ERROR == 500 (E9)",
    "file system: Path::join appends a relative name as the last component (file_name/parent_dir of joined), PathBuf derefs to the same path; "
    "POSIX rename replaces the target atomically; `fully_written(path)` is a capability produced only by an Ok fs::write (timeless: nothing else "
    "writes the temp file between the write and the rename - true under the await-interleaving model since there is no await between them); "
    "no claim about durability (no fsync) nor about OS-thread-parallel callers sharing the temp name status.tag.tmp",
    "E13 placeholders: RedirectorSharedState, ProxyServerSharedState (fields of ProxyServer that the handler never touches; real definitions need crate aya)",
    "&str / String extensionality axioms; String != &str compares character sequences",
]
FN_PROPS = {}

PW = "proxy_agent/src/shared_state/provision_wrapper.rs"
PV = "proxy_agent/src/provision.rs"


# ---------------------------------------------------------------------------------------------------
# the bitflags! declaration: copied verbatim OUTSIDE verus!{} (opaque external type for Verus, real type for rustc);
# the declared constants are read off the tree's text and become (a) spec constants PF_* and (b) the contracts of
# the E9 redirections of `ProvisionFlags::X` (an external associated const cannot be specified in Verus, T15).
def take_bitflags(u, sf, modname):
    it = sf.item("macro", "macro")
    if [m["name"] for m in it.get("macros", [])][:1] != ["bitflags::bitflags"]:
        raise Undecided("provision.rs: the item-level macro is not bitflags::bitflags!")
    text = sf.s(it["span"][0], it["span"][1])
    code = "\n".join(l for l in text.split("\n") if not l.strip().startswith("//"))
    m = re.search(r"pub\s+struct\s+(\w+)\s*:\s*(\w+)\s*\{", code)
    if not m or m.group(1) != "ProvisionFlags" or m.group(2) != "u8":
        raise Undecided("provision.rs: bitflags! no longer declares `pub struct ProvisionFlags: u8`")
    consts = {}
    for cm in re.finditer(r"\bconst\s+(\w+)\s*=\s*([^;]+);", code):
        v = cm.group(2).strip()
        if not re.fullmatch(r"\d+|0x[0-9a-fA-F]+|0b[01]+", v):
            raise Undecided("provision.rs: flag %s has a non-literal value `%s`" % (cm.group(1), v))
        consts[cm.group(1)] = int(v, 0)
        if consts[cm.group(1)] > 255:
            raise Undecided("flag value out of u8")
    for need in ("NONE", "REDIRECTOR_READY", "KEY_LATCH_READY", "LISTENER_READY", "ALL_READY"):
        if need not in consts:
            raise Undecided("provision.rs: flag %s no longer declared" % need)
    saved = u.pieces
    u.pieces = u.ext_pieces
    u.emit("pub mod %s {\n" % modname, "glue", "E1")
    u.pieces += vxlib.apply_edits(sf, it["span"][0], it["span"][1], [])
    u.emit("\n} // mod %s" % modname, "glue", "E1")
    u.pieces = saved
    u.rule("E1", "bitflags! ProvisionFlags kept outside verus! (opaque external type)  <- %s:%d" % (sf.rel, sf.line_of(it["span"][0])))
    u.emit("pub use crate::%s::ProvisionFlags;\n#[verifier::external_type_specification]\n#[verifier::external_body]\npub struct VxEx_ProvisionFlags(crate::%s::ProvisionFlags);" % (modname, modname), "glue", "E1")
    union = 0
    gen = ["// generated from the bitflags! declaration at %s:%d" % (sf.rel, sf.line_of(it["span"][0]))]
    for k, v in consts.items():
        gen.append("pub const PF_%s: u8 = %d;" % (k, v))
        union |= v
    gen.append("pub const PF_DECLARED_UNION: u8 = %d; // bitflags `all()`: union of every declared flag" % union)
    vals = "a == %du8, b == %du8, c == %du8, d == %du8, n == %du8, un == %du8" % (consts["REDIRECTOR_READY"], consts["KEY_LATCH_READY"], consts["LISTENER_READY"], consts["ALL_READY"], consts["NONE"], union)
    gen.append("""
// What the representation must satisfy for the three readiness reports to be independent facts, and for the code's
// test `contains(ALL_READY)` to mean "all three" (proved for the values that are in the tree):
pub proof fn lemma_flag_layout()
    ensures
        PF_NONE == 0,
        PF_REDIRECTOR_READY != 0 && PF_KEY_LATCH_READY != 0 && PF_LISTENER_READY != 0,
        PF_REDIRECTOR_READY & PF_KEY_LATCH_READY == 0 && PF_REDIRECTOR_READY & PF_LISTENER_READY == 0 && PF_KEY_LATCH_READY & PF_LISTENER_READY == 0,
        PF_ALL_READY == PF_REDIRECTOR_READY | PF_KEY_LATCH_READY | PF_LISTENER_READY,
        PF_DECLARED_UNION == PF_ALL_READY,
{
    let (a, b, c, d, n, un) = (PF_REDIRECTOR_READY, PF_KEY_LATCH_READY, PF_LISTENER_READY, PF_ALL_READY, PF_NONE, PF_DECLARED_UNION);
    assert(n == 0) by (bit_vector) requires %(v)s;  // @C16.flags.none_is_empty
    assert(a != 0 && b != 0 && c != 0) by (bit_vector) requires %(v)s;  // @C16.flags.each_subsystem_has_a_bit
    assert(a & b == 0 && a & c == 0 && b & c == 0) by (bit_vector) requires %(v)s;  // @C16.flags.bits_disjoint
    assert(d == a | b | c) by (bit_vector) requires %(v)s;  // @C16.flags.all_ready_is_union_of_three
    assert(un == d) by (bit_vector) requires %(v)s;  // @C16.flags.no_other_flag_declared
}
""" % dict(v=vals))
    u.emit("\n".join(gen), "rule", "E6")
    u.rule("E6", "spec constants PF_* generated from the literal flag values in the tree: %s" % consts)
    return consts


def flag_e9(fnname, consts, names):
    """E9 redirections of `ProvisionFlags::X` (external associated const); the contract is the value in the tree."""
    out = []
    for n in names:
        ordinal = None
        if isinstance(n, tuple):
            n, ordinal = n
        out.append(("ProvisionFlags::" + n, ordinal, "", "", "ProvisionFlags", "    ensures pf_bits(r) == PF_%s," % n,
                    dict(name="vx_e9_%s_%s%s" % (fnname, n, "" if ordinal is None else "_%d" % ordinal))))
    return out


ARM_SPECS = {
    # variant: (fn name, params, ret type, pre_body (E5 glue: mutable actor local by value in / value out), tail, contract)
    "UpdateState": ("vx_arm_update_state",
                    "provision_state_0: ProvisionFlags, state: ProvisionFlags, response: oneshot::Sender<ProvisionFlags>", "ProvisionFlags",
                    "let mut provision_state = provision_state_0;", "provision_state", """
        ensures
            pf_bits(r) == pf_bits(provision_state_0) | pf_bits(state),  // @C16.actor.UpdateState.new_state_is_old_or_s
            pf_bits(r) == step(World { flags: pf_bits(provision_state_0), tick: 0, ever_all_ready: false, deadline_passed: false }, Ev::Report { s: pf_bits(state) }).flags,  // @C16.actor.UpdateState.refines_model_step
            sent_value(response) == r,  // @C16.actor.UpdateState.reply_is_new_state
"""),
    "ResetState": ("vx_arm_reset_state",
                   "provision_state_0: ProvisionFlags, state: ProvisionFlags, response: oneshot::Sender<ProvisionFlags>", "ProvisionFlags",
                   "let mut provision_state = provision_state_0;", "proof { lemma_reset_bits(pf_bits(provision_state_0), pf_bits(state), PF_DECLARED_UNION); }\nprovision_state", """
        ensures
            pf_bits(r) == pf_bits(provision_state_0) & (!pf_bits(state) & PF_DECLARED_UNION),  // @C16.actor.ResetState.new_state_is_old_and_not_s
            pf_bits(r) == step(World { flags: pf_bits(provision_state_0), tick: 0, ever_all_ready: false, deadline_passed: false }, Ev::Reset { s: pf_bits(state) }).flags,  // @C16.actor.ResetState.refines_model_step
            pf_bits(r) & pf_bits(state) == 0,  // @C16.actor.ResetState.reset_bits_cleared
            sent_value(response) == r,  // @C16.actor.ResetState.reply_is_new_state
"""),
    "GetState": ("vx_arm_get_state",
                 "provision_state: ProvisionFlags, response: oneshot::Sender<ProvisionFlags>", "",
                 "", "", """
        ensures
            sent_value(response) == provision_state,  // @C16.actor.GetState.reply_is_current_state
"""),
    "SetEventLogThreadsInitialized": ("vx_arm_set_event_log_threads_initialized",
                                      "provision_event_log_threads_initialized_0: bool, response: oneshot::Sender<()>", "bool",
                                      "let mut provision_event_log_threads_initialized = provision_event_log_threads_initialized_0;",
                                      "provision_event_log_threads_initialized", """
        ensures r == true,
"""),
    "GetEventLogsThreadsInitialized": ("vx_arm_get_event_log_threads_initialized",
                                       "provision_event_log_threads_initialized: bool, response: oneshot::Sender<bool>", "",
                                       "", "", """
        ensures sent_value(response) == provision_event_log_threads_initialized,
"""),
    "SetProvisionFinished": ("vx_arm_set_provision_finished",
                             "provision_finished_time_tick_0: i128, finished: bool, response: oneshot::Sender<i128>", "i128",
                             "let mut provision_finished_time_tick = provision_finished_time_tick_0;", "provision_finished_time_tick", """
        ensures
            finished ==> clock_reading(r) && r > 0,  // @C16.actor.SetProvisionFinished.true_stores_clock_reading
            !finished ==> r == 0,  // @C16.actor.SetProvisionFinished.false_stores_zero
            forall|w: World, now: i128| finished ==> #[trigger] step(w, Ev::SetFinished { finished, now }).tick == now,
            sent_value(response) == r,  // @C16.actor.SetProvisionFinished.reply_is_new_tick
"""),
    "GetProvisionFinished": ("vx_arm_get_provision_finished",
                             "provision_finished_time_tick: i128, response: oneshot::Sender<i128>", "",
                             "", "", """
        ensures
            sent_value(response) == provision_finished_time_tick,  // @C16.actor.GetProvisionFinished.reply_is_current_tick
"""),
}



TASK_GHOST = "Tracked(t): Tracked<&mut Task>"

# census (rely/guarantee, DESIGN 2.3): which functions of the crate call the mutating wrapper methods of ProvisionSharedState
MUTATORS = ("update_one_state", "reset_one_state", "set_provision_finished")
ALLOWED_MUTATOR_CALLERS = {"update_provision_state", "reset_provision_state", "provision_timeup"}


def census(u, pv):
    root = os.path.join(u.repo.root, "proxy_agent", "src")
    pat = re.compile(r"\.\s*(%s)\s*\(" % "|".join(MUTATORS))
    for dp, dn, fn in os.walk(root):
        for f in fn:
            if not f.endswith(".rs"):
                continue
            rel = os.path.relpath(os.path.join(dp, f), u.repo.root)
            if rel in (PV, PW):
                continue
            txt = open(os.path.join(dp, f), encoding="utf-8").read()
            code = "\n".join(l for l in txt.split("\n") if not l.strip().startswith("//"))
            if pat.search(code):
                raise Undecided("census: %s calls a mutating ProvisionSharedState method; the rely/guarantee argument of C16 no longer covers every caller" % rel)
    # inside provision.rs (non-test items only: SrcFile drops cfg(test) items)
    for it in pv.all_fns():
        cs = [c for c in it.get("calls", []) if c["kind"] == "method" and c["callee"] in MUTATORS]
        if cs and it["name"] not in ALLOWED_MUTATOR_CALLERS:
            raise Undecided("census: provision.rs fn %s calls %s but is not under contract" % (it["path"], cs[0]["callee"]))
    # inside provision_wrapper.rs only the definitions may mention them
    pwtxt = open(os.path.join(u.repo.root, PW), encoding="utf-8").read()
    code = "\n".join(l for l in pwtxt.split("\n") if not l.strip().startswith("//"))
    if pat.search(code):
        raise Undecided("census: provision_wrapper.rs calls a mutating wrapper method itself")
    # the deadline handler has exactly one caller, guarded by the provisioning time-up test
    kk = open(os.path.join(u.repo.root, "proxy_agent/src/key_keeper.rs"), encoding="utf-8").read()
    kcode = "\n".join(l for l in kk.split("\n") if not l.strip().startswith("//"))
    calls = [m.start() for m in re.finditer(r"provision::provision_timeup\s*\(", kcode)]
    if len(calls) != 1:
        raise Undecided("census: expected exactly one call of provision::provision_timeup in key_keeper.rs, found %d" % len(calls))
    before = re.sub(r"\s+", " ", kcode[max(0, calls[0] - 300):calls[0]])
    if not re.search(r"if !provision_timeup && start\.elapsed\(\)\.as_millis\(\) > PROVISION_TIMEUP_IN_MILLISECONDS \{ $", before):
        raise Undecided("census: the call of provision_timeup is no longer guarded by the PROVISION_TIMEUP_IN_MILLISECONDS test")
    for dp, dn, fn in os.walk(root):
        for f in fn:
            rel = os.path.relpath(os.path.join(dp, f), u.repo.root)
            if f.endswith(".rs") and rel not in (PV, "proxy_agent/src/key_keeper.rs"):
                txt = open(os.path.join(dp, f), encoding="utf-8").read()
                code = "\n".join(l for l in txt.split("\n") if not l.strip().startswith("//"))
                if re.search(r"\bprovision_timeup\s*\(", code):
                    raise Undecided("census: %s calls provision_timeup" % rel)
    u.rule("census", "mutating ProvisionSharedState methods are called only from provision.rs::{%s}; provision_timeup only from key_keeper.rs behind the time-up test" % ",".join(sorted(ALLOWED_MUTATOR_CALLERS)))


def unit_ret(sf, path):
    """E7 (return value naming) for an `async fn` that returns nothing: `-> (r: ())` is appended to the signature.
    Probed with Verus 0.2026.09.13: without a named return the postconditions of an async fn are NOT available to the
    caller after `.await` (they are silently dropped); with `-> (r: ())` they are. Same type for rustc."""
    it = sf.item(path, "fn")
    if it["output"] is not None:
        raise Undecided("%s now has a return type" % path)
    return [(it["sig"][1], it["sig"][1], " -> (r: ())")]


def fmt_e9(sf, it, fnname, idx, arg_rewrite=None):
    """E9 + E6: redirect the idx-th `format!(LIT, ARG)` (exactly one `{}` and one argument of type String) of function `it`
    to a generated stub `fn(a0: String) -> String { format!(LIT, a0) }` whose contract is generated from LIT as it is in the
    tree: r@ == lit0 + a0@ + lit1. The argument expression stays, verbatim, at the call site (verified)."""
    ms = [m for m in it["macros"] if m["name"] == "format"]
    ms.sort(key=lambda m: m["span"][0])
    if idx >= len(ms):
        raise Undecided("%s: format! #%d not found" % (fnname, idx))
    a, b = ms[idx]["span"]
    text = sf.s(a, b)
    m = re.fullmatch(r'format!\(\s*"((?:[^"\\]|\\.)*)"\s*,\s*(.*?)\s*,?\s*\)', text, re.S)
    if not m:
        raise Undecided("%s: format! #%d has an unexpected shape" % (fnname, idx))
    lit, arg = m.group(1), m.group(2)
    if lit.count("{}") != 1 or "{" in lit.replace("{}", "") or "}" in lit.replace("{}", ""):
        raise Undecided("%s: format literal %r is not `text {} text`" % (fnname, lit))
    l0, l1 = lit.split("{}")
    if arg_rewrite:
        arg = arg_rewrite(arg)
    contract = '    ensures r@ == "%s"@ + a0@ + "%s"@,' % (l0, l1)
    return (text, None, "a0: String", arg, "String", contract,
            dict(name="vx_e9_%s_fmt_%d" % (fnname, idx), body='format!("%s", a0)' % lit)), (l0, l1)


WRAPPER_MSGS = [
    ("update_one_state", "state: ProvisionFlags, tx: oneshot::Sender<ProvisionFlags>", "ProvisionAction::UpdateState { state, response: tx }"),
    ("reset_one_state", "state: ProvisionFlags, tx: oneshot::Sender<ProvisionFlags>", "ProvisionAction::ResetState { state, response: tx }"),
    ("get_state", "tx: oneshot::Sender<ProvisionFlags>", "ProvisionAction::GetState { response: tx }"),
    ("set_provision_finished", "finished: bool, tx: oneshot::Sender<i128>", "ProvisionAction::SetProvisionFinished { finished, response: tx }"),
    ("get_provision_finished", "tx: oneshot::Sender<i128>", "ProvisionAction::GetProvisionFinished { response: tx }"),
]


def build(u):
    u.externs.append("serde_derive")
    u.features += ["allocator_api", "sized_hierarchy"]
    pv = u.src(PV)
    pw = u.src(PW)
    lg = u.src("proxy_agent/src/common/logger.rs")
    mh = u.src("proxy_agent_shared/src/misc_helpers.rs")
    err = u.src("proxy_agent/src/common/error.rs")
    sherr = u.src("proxy_agent_shared/src/error.rs")
    cfg = u.src("proxy_agent/src/common/config.rs")
    hp = u.src("proxy_agent/src/common/helpers.rs")
    kk = u.src("proxy_agent/src/key_keeper.rs")
    key = u.src("proxy_agent/src/key_keeper/key.rs")
    ar = u.src("proxy_agent/src/proxy/authorization_rules.rs")
    ps = u.src("proxy_agent/src/proxy/proxy_summary.rs")
    er = u.src("proxy_agent/src/telemetry/event_reader.rs")
    ags = u.src("proxy_agent_shared/src/proxy_agent_aggregate_status.rs")
    el = u.src("proxy_agent_shared/src/telemetry/event_logger.rs")
    kkw = u.src("proxy_agent/src/shared_state/key_keeper_wrapper.rs")
    tw = u.src("proxy_agent/src/shared_state/telemetry_wrapper.rs")
    asw = u.src("proxy_agent/src/shared_state/agent_status_wrapper.rs")
    pxs = u.src("proxy_agent/src/proxy/proxy_server.rs")
    pc = u.src("proxy_agent/src/proxy/proxy_connection.rs")
    px = u.src("proxy_agent/src/proxy.rs")
    hc = u.src("proxy_agent/src/common/hyper_client.rs")
    cs = u.src("proxy_agent/src/common/constants.rs")
    rw = u.src("proxy_agent/src/shared_state/redirector_wrapper.rs")
    psw = u.src("proxy_agent/src/shared_state/proxy_server_wrapper.rs")
    census(u, pv)
    for f in ("str_axioms.rs", "ext_types.rs", "std_string.rs"):
        u.raw(open(os.path.join(COMMON, f)).read())
    consts = take_bitflags(u, pv, "vx_ext_provision_flags")
    u.raw_file("deps.rs")
    u.raw_file("spec.rs")
    u.raw_file("task.rs")
    u.raw("#[allow(unused_imports)] use hyper::StatusCode;")
    u.raw_file("http_deps.rs")
    # ---- types and callee stubs -----------------------------------------------------------------------------
    with u.mod("proxy_agent_shared"):
        with u.mod("error"):
            u.take_ext(sherr, ["Error", "ParseVersionErrorType", "CommandErrorType"], "vx_ext_shared_error")
        with u.mod("result", uses="use super::error::Error;"):
            u.raw("pub type Result<T> = core::result::Result<T, Error>;")
        with u.mod("logger"):
            u.raw("pub type LoggerLevel = log::Level;")
        with u.mod("misc_helpers", uses="use super::result::Result;\nuse std::path::{Path, PathBuf};"):
            u.take_fn(mh, "get_date_time_unix_nano", external_body=True, contract="""
        ensures clock_reading(r) && r > 0,
""")
            u.take_fn(mh, "get_date_time_string_with_milliseconds", external_body=True)
            u.take_fn(mh, "try_create_folder", external_body=True)
        with u.mod("proxy_agent_aggregate_status", uses="use std::collections::HashMap;"):
            u.take(ags, "ModuleState", "enum")
            u.take(ags, "ProxyAgentDetailStatus", "struct")
            u.take(ags, "ProxyConnectionSummary", "struct")
        with u.mod("telemetry"):
            with u.mod("event_logger", uses="use log::Level;"):
                u.take_fn(el, "write_event", external_body=True, ret="")
    with u.mod("common"):
        with u.mod("error"):
            u.take_ext(err, ["Error", "HyperErrorType", "WireServerErrorType", "KeyErrorType", "AclErrorType", "BpfErrorType"], "vx_ext_error", uses="use http::{uri::InvalidUri, StatusCode};")
        with u.mod("result", uses="use super::error::Error;"):
            u.raw("pub type Result<T> = core::result::Result<T, Error>;")
        with u.mod("logger"):
            u.take(lg, "AGENT_LOGGER_KEY", "const")
            for f in ("write_warning", "write_error", "write_serial_console_log"):
                u.take_fn(lg, f, external_body=True, ret="")
        with u.mod("constants"):
            for c in ("METADATA_HEADER", "TIME_TICK_HEADER", "NOTIFY_HEADER"):
                u.take(cs, c, "const")
        with u.mod("hyper_client", uses="use http_body_util::combinators::BoxBody;\nuse hyper::body::Bytes;"):
            u.take_fn(hc, "full_body", external_body=True, contract="""
        ensures box_body_bytes(r) == into_bytes_view(chunk),
""")
        with u.mod("config", uses="use std::path::PathBuf;"):
            u.take_fn(cfg, "get_keys_dir", external_body=True)
        with u.mod("helpers"):
            u.take_fn(hp, "xml_escape", external_body=True)
    with u.mod("key_keeper"):
        u.take(kk, "DISABLE_STATE", "const")
        u.take(kk, "UNKNOWN_STATE", "const")
        with u.mod("key", uses="use std::collections::HashMap;"):
            u.take(key, "Key", "struct", extra_attrs="#[verifier::external_body]")
            u.take(key, "Privilege", "struct")
            u.take(key, "Identity", "struct")
    with u.mod("proxy"):
        with u.mod("proxy_connection", uses="use log::Level as LoggerLevel;"):
            u.take(pc, "ConnectionLogger", "struct")
            with u.impl_(pc, "ConnectionLogger"):
                u.take_fn(pc, "ConnectionLogger::write", external_body=True, ret="")
        build_handler(u, pxs, pv)
        with u.mod("authorization_rules", uses="use crate::key_keeper::key::{Identity, Privilege};\nuse std::collections::{HashMap, HashSet};"):
            u.take(ar, "AuthorizationMode", "enum")
            u.take(ar, "ComputedAuthorizationItem", "struct")
        with u.mod("proxy_summary", uses="use std::path::PathBuf;"):
            u.take(ps, "ProxySummary", "struct")
    with u.mod("telemetry"):
        with u.mod("event_reader"):
            u.take(er, "VmMetaData", "struct")
    with u.mod("shared_state"):
        with u.mod("key_keeper_wrapper", uses="use crate::common::result::Result;"):
            u.take_ext(kkw, ["KeyKeeperAction", "KeyKeeperSharedState"], "vx_ext_kkw", uses="use crate::proxy::authorization_rules::ComputedAuthorizationItem;\nuse crate::key_keeper::key::Key;\nuse std::sync::Arc;\nuse tokio::sync::{mpsc, oneshot, Notify};")
            with u.impl_(kkw, "KeyKeeperSharedState"):
                u.take_fn(kkw, "KeyKeeperSharedState::get_current_secure_channel_state", external_body=True, ghost=TASK_GHOST, contract="""
        ensures *final(t) == (Task { last_channel: match r { Ok(s) => Some(s@), Err(_) => None }, ..*old(t) }),
""")
                u.take_fn(kkw, "KeyKeeperSharedState::notify", external_body=True)
        # E13: two fields of ProxyServer that handle_provision_state_check_request never touches (their real definitions
        # need crate `aya`, which is not part of build/extdeps)
        with u.mod("redirector_wrapper"):
            u.placeholder_ext(rw, ["RedirectorSharedState"], "vx_ph_rw")
        with u.mod("proxy_server_wrapper"):
            u.placeholder_ext(psw, ["ProxyServerSharedState"], "vx_ph_psw")
        with u.mod("telemetry_wrapper"):
            u.take_ext(tw, ["TelemetryAction", "TelemetrySharedState"], "vx_ext_tw", uses="use crate::telemetry::event_reader::VmMetaData;\nuse tokio::sync::{mpsc, oneshot};")
        with u.mod("agent_status_wrapper", uses="use crate::proxy_agent_shared::proxy_agent_aggregate_status::{ModuleState, ProxyAgentDetailStatus, ProxyConnectionSummary};"):
            u.take(asw, "AgentStatusModule", "enum")
            u.take_ext(asw, ["AgentStatusAction", "AgentStatusSharedState"], "vx_ext_asw", uses="use crate::shared_state::agent_status_wrapper::AgentStatusModule;\nuse crate::proxy::proxy_summary::ProxySummary;\nuse crate::proxy_agent_shared::proxy_agent_aggregate_status::{ModuleState, ProxyAgentDetailStatus, ProxyConnectionSummary};\nuse tokio::sync::{mpsc, oneshot};")
            with u.impl_(asw, "AgentStatusSharedState"):
                u.take_fn(asw, "AgentStatusSharedState::get_module_status", external_body=True, ghost=TASK_GHOST, contract="""
        ensures *final(t) == (Task { msgs: old(t).msgs.insert(module, r.message@), ..*old(t) }),
""")

        # ---- (1) the actor: every arm of the `match action` in ProvisionSharedState::start_new (E5b) -----------
        with u.mod("provision_wrapper", uses="use crate::common::logger;\nuse crate::common::result::Result;\nuse crate::provision::ProvisionFlags;\nuse crate::proxy_agent_shared::misc_helpers;\nuse tokio::sync::{mpsc, oneshot};"):
            u.take_ext(pw, ["ProvisionAction"], "vx_ext_pw_action", uses="use crate::vx_ext_provision_flags::ProvisionFlags;\nuse tokio::sync::{mpsc, oneshot};", opaque=False, transparent=True)
            u.take_ext(pw, ["ProvisionSharedState"], "vx_ext_pw", uses="use crate::vx_ext_pw_action::ProvisionAction;\nuse tokio::sync::{mpsc, oneshot};")
            it = pw.item("ProvisionSharedState::start_new", "fn")
            if len(it["matches"]) != 1:
                raise Undecided("start_new: expected exactly one match (the actor dispatch), found %d" % len(it["matches"]))
            arms = it["matches"][0]["arms"]
            seen = set()
            for arm in arms:
                pat = pw.s(arm["pat"][0], arm["pat"][1])
                m = re.match(r"\s*ProvisionAction::(\w+)\b", pat)
                if not m or m.group(1) not in ARM_SPECS or arm["guard"] is not None:
                    raise Undecided("start_new: unknown actor arm `%s`" % pat[:60])
                v = m.group(1)
                if v in seen:
                    raise Undecided("start_new: two arms for %s" % v)
                seen.add(v)
                name, params, rty, pre, tail, contract = ARM_SPECS[v]
                lo, hi = arm["body"][0] + 1, arm["body"][1] - 1
                if pw.s(arm["body"][0], arm["body"][0] + 1) != "{":
                    raise Undecided("start_new: arm %s is not a block" % v)
                # rustc checks the rest: the slice only compiles if it uses no actor local other than the one passed
                # in, which is the frame condition for the other two actor locals
                u.slice_fn(pw, "ProvisionSharedState::start_new", name, lo, hi, params, ret_type=rty, contract=contract,
                           pre_body="broadcast use axiom_pf_bits_of, axiom_pf_of_bits, axiom_fmt_pf;\n" + pre + "\n", tail=tail + "\n" if tail else "",
                           what="(actor arm ProvisionAction::%s)" % v)
            if seen != set(ARM_SPECS):
                raise Undecided("start_new: actor arms %s missing" % sorted(set(ARM_SPECS) - seen))

            # ---- which message each wrapper method sends: the argument expression of its single `.send(..)` (E5c) ----
            for (meth, params, expect) in WRAPPER_MSGS:
                wit = pw.item("ProvisionSharedState::" + meth, "fn")
                sends = [c for c in wit["calls"] if c["kind"] == "method" and c["callee"] == "send"]
                if len(sends) != 1 or len(sends[0]["args"]) != 1 or re.sub(r"\s+", "", pw.s(*sends[0]["receiver"])) != "self.0":
                    raise Undecided("%s: expected exactly one self.0.send(<message>)" % meth)
                if len(wit["awaits"]) != 2:
                    raise Undecided("%s: expected exactly two awaits (send, reply), found %d" % (meth, len(wit["awaits"])))
                a = sends[0]["args"][0]
                u.slice_fn(pw, "ProvisionSharedState::" + meth, "vx_msg_" + meth, a[0], a[1], params, ret_type="ProvisionAction", contract="""
        ensures r == (%s),  // @C16.wrapper.%s.sends_its_own_message
""" % (expect, meth), what="(the message sent by %s)" % meth)

            # ---- the wrapper methods: one message, one reply. ASSUMED contracts = what that single atomic actor operation
            #      guarantees for SOME actor state (the state is havocked by other tasks between two awaits)
            with u.impl_(pw, "ProvisionSharedState"):
                u.take_fn(pw, "ProvisionSharedState::update_one_state", external_body=True, ghost=TASK_GHOST, contract="""
        ensures
            *final(t) == old(t).did(ActorOp::Report { s: pf_bits(state), reply: flags_reply(r) }).saw(flags_reply(r)),
            r is Ok ==> pf_bits(r->Ok_0) & pf_bits(state) == pf_bits(state),   // reply = st | s for the actor state st at that instant
""")
                u.take_fn(pw, "ProvisionSharedState::reset_one_state", external_body=True, ghost=TASK_GHOST, contract="""
        ensures
            *final(t) == old(t).did(ActorOp::Reset { s: pf_bits(state), reply: flags_reply(r) }).saw(flags_reply(r)),
            r is Ok ==> pf_bits(r->Ok_0) & pf_bits(state) == 0,                // reply = st & !s
""")
                u.take_fn(pw, "ProvisionSharedState::get_state", external_body=True, ghost=TASK_GHOST, contract="""
        ensures
            *final(t) == (Task { reads: old(t).reads.push(flags_reply(r)), ..*old(t) }).saw(flags_reply(r)),
""")
                u.take_fn(pw, "ProvisionSharedState::set_provision_finished", external_body=True, ghost=TASK_GHOST, contract="""
        requires
            finished ==> old(t).seen_all_ready || old(t).deadline_passed,  // @C16.set_provision_finished.only_after_all_ready_or_deadline
        ensures
            *final(t) == old(t).did(ActorOp::SetFinished { finished, reply: tick_reply(r) }),
            r is Ok ==> (finished ==> r->Ok_0 > 0 && clock_reading(r->Ok_0)) && (!finished ==> r->Ok_0 == 0),
""")
                u.take_fn(pw, "ProvisionSharedState::get_provision_finished", external_body=True, ghost=TASK_GHOST, contract="""
        ensures
            *final(t) == (Task { last_tick: tick_reply(r), ..*old(t) }),
""")
                u.take_fn(pw, "ProvisionSharedState::get_event_log_threads_initialized", external_body=True)
                u.take_fn(pw, "ProvisionSharedState::set_event_log_threads_initialized", external_body=True)

    # ---- (2) provision.rs -------------------------------------------------------------------------------------
    build_provision(u, pv, consts)


def build_provision(u, pv, consts):
    uses = """use crate::common::{config, helpers, logger};
use crate::key_keeper::{DISABLE_STATE, UNKNOWN_STATE};
use crate::shared_state::agent_status_wrapper::{AgentStatusModule, AgentStatusSharedState};
use crate::shared_state::key_keeper_wrapper::KeyKeeperSharedState;
use crate::shared_state::provision_wrapper::ProvisionSharedState;
use crate::shared_state::telemetry_wrapper::TelemetrySharedState;
use crate::proxy_agent_shared::logger::LoggerLevel;
use crate::proxy_agent_shared::telemetry::event_logger;
use crate::proxy_agent_shared::{misc_helpers, proxy_agent_aggregate_status};
use std::path::PathBuf;
use std::time::Duration;
use tokio_util::sync::CancellationToken;"""
    PRE = "broadcast use axiom_fmt_error, axiom_pf_bits_of, axiom_pf_of_bits, lemma_contains_all_ready_b;\n"
    with u.mod("provision", uses=uses + "\npub use crate::ProvisionFlags;"):
        for c in ("PROVISION_TAG_FILE_NAME", "STATUS_TAG_TMP_FILE_NAME", "STATUS_TAG_FILE_NAME"):
            u.take(pv, c, "const")
        u.take(pv, "ProvisionStateInternal", "struct")
        with u.impl_(pv, "ProvisionStateInternal"):
            u.take_fn(pv, "ProvisionStateInternal::is_secure_channel_latched", pre_body="proof { lits_channel(); }", contract="""
        ensures r == latched(self.key_keeper_secure_channel_state@),  // @C16.is_secure_channel_latched.neither_disabled_nor_unknown
""")
        with u.mod("provision_query", uses="use serde_derive::{Deserialize, Serialize};"):
            # serde derives inside verus!{} crash this Verus build (thir_body ICE) -> the struct is kept verbatim outside
            # verus!{} (derives intact, fields public) and declared as a TRANSPARENT external type
            u.take_ext(pv, ["provision_query::ProvisionState"], "vx_ext_provision_state", uses="use serde_derive::{Deserialize, Serialize};", opaque=False, transparent=True)
            with u.impl_(pv, "provision_query::ProvisionState"):
                u.take_fn(pv, "provision_query::ProvisionState::new", contract="""
        ensures r.finished == finished && r.errorMessage == error_message,
""")
        u.take_fn(pv, "start_event_threads", external_body=True, ret="")
        u.take_fn(pv, "write_provision_state", ret="", ghost=TASK_GHOST, sig_edits=unit_ret(pv, "write_provision_state"),
                  pre_body=PRE + "broadcast use axiom_fmt_shared_error, axiom_fmt_io_error, axiom_path_of_str, axiom_file_name_joined, axiom_to_string_string;\nproof { lits_status_files(); }",
                  ghost_calls=[("get_provision_failed_state_message", None, "Tracked(t)")],
                  contract="""
        ensures final(t).same_knowledge(*old(t)),
""")

        u.take_fn(pv, "update_provision_state", ghost=TASK_GHOST, pre_body=PRE, sig_edits=unit_ret(pv, "update_provision_state"),
                  ghost_calls=[("update_one_state", None, "Tracked(t)"), ("set_provision_finished", None, "Tracked(t)"), ("write_provision_state", None, "Tracked(t)")],
                  e9=flag_e9("update_provision_state", consts, ["ALL_READY"]),
                  contract="""
        ensures
            final(t).ops.len() > old(t).ops.len() && final(t).ops.subrange(0, old(t).ops.len() as int) =~= old(t).ops,
            final(t).ops[old(t).ops.len() as int] is Report && final(t).ops[old(t).ops.len() as int]->Report_s == pf_bits(state),  // @C16.update_provision_state.reports_its_own_flag
            forall|i: int| old(t).ops.len() < i < final(t).ops.len() ==> final(t).ops[i] is SetFinished && final(t).ops[i]->SetFinished_finished
                && reply_all_ready(final(t).ops[old(t).ops.len() as int]->Report_reply),  // @C16.update_provision_state.finished_only_if_reply_has_all_three
            final(t).deadline_passed == old(t).deadline_passed,
""")

        u.take_fn(pv, "reset_provision_state", ghost=TASK_GHOST, pre_body=PRE, sig_edits=unit_ret(pv, "reset_provision_state"),
                  ghost_calls=[("reset_one_state", None, "Tracked(t)"), ("set_provision_finished", None, "Tracked(t)")],
                  e9=flag_e9("reset_provision_state", consts, ["ALL_READY"]),
                  contract="""
        ensures
            final(t).ops.len() > old(t).ops.len() && final(t).ops.subrange(0, old(t).ops.len() as int) =~= old(t).ops,
            final(t).ops[old(t).ops.len() as int] is Reset && final(t).ops[old(t).ops.len() as int]->Reset_s == pf_bits(state_to_reset),  // @C16.reset_provision_state.resets_the_named_flags
            final(t).ops[old(t).ops.len() as int]->Reset_reply is Some ==> final(t).ops.len() == old(t).ops.len() + 2
                && final(t).ops[old(t).ops.len() as int + 1] is SetFinished
                && final(t).ops[old(t).ops.len() as int + 1]->SetFinished_finished == all_ready(final(t).ops[old(t).ops.len() as int]->Reset_reply->0),  // @C16.reset_provision_state.finished_cleared_unless_all_three_still_ready
            final(t).ops[old(t).ops.len() as int]->Reset_reply is None ==> final(t).ops.len() == old(t).ops.len() + 1,
            final(t).deadline_passed == old(t).deadline_passed,
""")
        u.take_fn(pv, "provision_timeup", ghost=TASK_GHOST, pre_body=PRE, sig_edits=unit_ret(pv, "provision_timeup"),
                  ghost_calls=[("get_state", None, "Tracked(t)"), ("set_provision_finished", None, "Tracked(t)"), ("write_provision_state", None, "Tracked(t)")],
                  e9=flag_e9("provision_timeup", consts, ["NONE", "ALL_READY"]),
                  contract="""
        requires
            old(t).deadline_passed,   // this function IS the deadline handler (census: its only caller is behind the time-up test)
        ensures
            final(t).ops.len() <= old(t).ops.len() + 1 && final(t).ops.subrange(0, old(t).ops.len() as int) =~= old(t).ops,
            final(t).ops.len() == old(t).ops.len() + 1 ==> final(t).ops[old(t).ops.len() as int] == (ActorOp::SetFinished { finished: true, reply: final(t).ops[old(t).ops.len() as int]->SetFinished_reply }),  // @C16.provision_timeup.only_sets_finished
            final(t).reads.len() > old(t).reads.len(),
            final(t).ops.len() == old(t).ops.len() + 1 ==> !reply_all_ready(final(t).reads[old(t).reads.len() as int]),  // @C16.provision_timeup.only_when_not_all_three_ready
""")
        it = pv.item("get_provision_failed_state_message", "fn")

        def add_ghost(arg):
            n = len(re.findall(r"\.get_module_status\(\s*AgentStatusModule::\w+\s*\)", arg))
            if n != 1:
                raise Undecided("get_provision_failed_state_message: format! argument is not one get_module_status(..) call: %r" % arg)
            return re.sub(r"(\.get_module_status\(\s*AgentStatusModule::\w+)\s*\)", r"\1, Tracked(t))", arg)
        fe = []
        lits = []
        for i in (1, 2, 3):
            e, l = fmt_e9(pv, it, "get_provision_failed_state_message", i, add_ghost)
            fe.append(e)
            lits.append(l)
            u.rule("E4", "get_provision_failed_state_message: ghost argument at call get_module_status (inside E9 argument %d)" % i)
        u.raw("""
// generated from the three format! literals of get_provision_failed_state_message as they are in the tree (E6)
pub open spec fn tree_section_prefix(s: Subsystem) -> Seq<char> {
    match s { Subsystem::Redirector => "%s"@, Subsystem::KeyLatch => "%s"@, Subsystem::Listener => "%s"@ }
}
pub open spec fn tree_section_suffix(s: Subsystem) -> Seq<char> {
    match s { Subsystem::Redirector => "%s"@, Subsystem::KeyLatch => "%s"@, Subsystem::Listener => "%s"@ }
}
""" % (lits[0][0], lits[1][0], lits[2][0], lits[0][1], lits[1][1], lits[2][1]))
        u.take_fn(pv, "get_provision_failed_state_message", ghost=TASK_GHOST,
                  pre_body=PRE + "proof { lemma_sections_are_the_trees(); lemma_error_text_empty_iff_all_ready_all(); }",
                  ghost_calls=[("get_state", None, "Tracked(t)")],
                  e9=flag_e9("get_provision_failed_state_message", consts, ["NONE", "REDIRECTOR_READY", "KEY_LATCH_READY", "LISTENER_READY"]) + fe,
                  contract="""
        ensures
            final(t).ops == old(t).ops && final(t).deadline_passed == old(t).deadline_passed
                && final(t).last_tick == old(t).last_tick && final(t).last_channel == old(t).last_channel,
            final(t).reads.len() == old(t).reads.len() + 1 && final(t).reads.subrange(0, old(t).reads.len() as int) =~= old(t).reads,
            final(t).seen_all_ready == (old(t).seen_all_ready || reply_all_ready(final(t).reads.last())),
            r@ == error_text(flags_or_none(final(t).reads.last()),
                    final(t).msgs[AgentStatusModule::Redirector], final(t).msgs[AgentStatusModule::KeyKeeper], final(t).msgs[AgentStatusModule::ProxyServer]),  // @C16.get_provision_failed_state_message.names_exactly_the_subsystems_not_ready
            (r@.len() == 0) <==> all_ready(flags_or_none(final(t).reads.last())),  // @C16.get_provision_failed_state_message.empty_iff_all_ready
""")
        u.take_fn(pv, "get_provision_state_internal", ghost=TASK_GHOST, pre_body=PRE + "proof { lits_channel(); }",
                  ghost_calls=[("get_provision_finished", "all", "Tracked(t)"), ("get_provision_failed_state_message", None, "Tracked(t)"), ("get_current_secure_channel_state", None, "Tracked(t)")],
                  contract="""
        ensures
            final(t).ops == old(t).ops && final(t).deadline_passed == old(t).deadline_passed,
            final(t).reads.len() == old(t).reads.len() + 1,
            r.finished_time_tick == tick_or_zero(final(t).last_tick),  // @C16.get_provision_state_internal.tick_is_the_actors_reply
            r.error_message@ == error_text(flags_or_none(final(t).reads.last()),
                    final(t).msgs[AgentStatusModule::Redirector], final(t).msgs[AgentStatusModule::KeyKeeper], final(t).msgs[AgentStatusModule::ProxyServer]),  // @C16.get_provision_state_internal.error_text_of_the_flags_read
            r.key_keeper_secure_channel_state@ == channel_or_unknown(final(t).last_channel),  // @C16.get_provision_state_internal.channel_state_is_the_key_keepers_reply
""")



def build_handler(u, pxs, pv):
    uses = """use super::proxy_connection::ConnectionLogger;
use crate::common::{constants, hyper_client, logger, result::Result};
use crate::provision;
use crate::shared_state::agent_status_wrapper::{AgentStatusModule, AgentStatusSharedState};
use crate::shared_state::key_keeper_wrapper::KeyKeeperSharedState;
use crate::shared_state::provision_wrapper::ProvisionSharedState;
use crate::shared_state::proxy_server_wrapper::ProxyServerSharedState;
use crate::shared_state::redirector_wrapper::RedirectorSharedState;
use crate::shared_state::telemetry_wrapper::TelemetrySharedState;
use http_body_util::combinators::BoxBody;
use hyper::body::{Bytes, Incoming};
use hyper::header::{HeaderName, HeaderValue};
use hyper::StatusCode;
use hyper::{Request, Response};
use crate::proxy_agent_shared::logger::LoggerLevel;
use tokio_util::sync::CancellationToken;
use tower_http::body::Limited;"""
    with u.mod("proxy_server", uses=uses):
        u.take(pxs, "ProxyServer", "struct")
        with u.impl_(pxs, "ProxyServer"):
            u.take_fn(pxs, "ProxyServer::empty_response", external_body=True, contract="""
        ensures resp_status(r) == status_u16(status_code) && box_body_bytes(resp_body(r)) == Seq::<u8>::empty(),
""")
            hit = pxs.item("ProxyServer::handle_provision_state_check_request", "fn")
            fs = [c for c in hit["calls"] if c["kind"] == "path" and c["callee"].replace(" ", "") == "HeaderValue::from_static"]
            if len(fs) != 1 or len(fs[0]["args"]) != 1 or not re.fullmatch(r'"[^"\\]*"', pxs.s(*fs[0]["args"][0])):
                raise Undecided("handle_provision_state_check_request: expected one HeaderValue::from_static(<string literal>)")
            ctype_lit = pxs.s(*fs[0]["args"][0])
            u.take_fn(pxs, "ProxyServer::handle_provision_state_check_request", ghost=TASK_GHOST,
                      hints=[("HeaderValue::from_static(", None, "before", "proof { reveal_strlit(%s); }" % ctype_lit)],
                      pre_body="broadcast use axiom_fmt_error, axiom_key_text_str, axiom_into_bytes_vec, axiom_fmt_parse_int_error, axiom_fmt_serde_json_error, axiom_clone_is_copy_u8;\nproof { lits_headers(); }",
                      ghost_calls=[("provision::get_provision_state_internal", None, "Tracked(t)")],
                      e9=[("StatusCode::BAD_REQUEST", None, "", "", "http::StatusCode", "    ensures status_u16(r) == 400,", dict(name="vx_e9_status_BAD_REQUEST")),
                          ("StatusCode::INTERNAL_SERVER_ERROR", None, "", "", "http::StatusCode", "    ensures status_u16(r) == 500,", dict(name="vx_e9_status_INTERNAL_SERVER_ERROR")),
                          ("hyper::header::CONTENT_TYPE", None, "", "", "http::header::HeaderName", "", dict(name="vx_e9_header_CONTENT_TYPE"))],
                      contract="""
        ensures
            final(t).ops == old(t).ops,   // a status query never changes the provisioning state
            r is Ok,
            hm_get(req_headers(request), "Metadata"@) is None ==> resp_status(r->Ok_0) == 400 && box_body_bytes(resp_body(r->Ok_0)).len() == 0,
            hm_get(req_headers(request), "Metadata"@) is Some && resp_status(r->Ok_0) != 500 ==> resp_status(r->Ok_0) == 200,
            // the answer: the body is the JSON rendering of a ProvisionState value ps such that ...
            hm_get(req_headers(request), "Metadata"@) is Some && resp_status(r->Ok_0) != 500 ==> exists|ps: provision::provision_query::ProvisionState|
                box_body_bytes(resp_body(r->Ok_0)) == utf8_of(#[trigger] json_of(&ps)) && (ps.finished ==> finished_allowed(tick_or_zero(final(t).last_tick), query_instant(request), latched(channel_or_unknown(final(t).last_channel)))),  // @C16.handle_provision_state_check_request.finished_only_if_tick_set_at_or_after_query_instant_or_latched
            hm_get(req_headers(request), "Metadata"@) is Some && resp_status(r->Ok_0) != 500 ==> exists|ps: provision::provision_query::ProvisionState|
                box_body_bytes(resp_body(r->Ok_0)) == utf8_of(#[trigger] json_of(&ps)) && ps.errorMessage@ == error_text(flags_or_none(final(t).reads.last()), final(t).msgs[AgentStatusModule::Redirector], final(t).msgs[AgentStatusModule::KeyKeeper], final(t).msgs[AgentStatusModule::ProxyServer]),  // @C16.handle_provision_state_check_request.error_text_names_exactly_the_subsystems_not_ready
""")
