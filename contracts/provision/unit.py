# unit `provision` (C16): provision.rs, the actor arms of shared_state/provision_wrapper.rs,
# proxy_server.rs::handle_provision_state_check_request
import os
import re
import sys
HERE = os.path.dirname(os.path.abspath(__file__))
COMMON = os.path.join(os.path.dirname(HERE), "common")
sys.path.insert(0, os.path.join(os.path.dirname(os.path.dirname(HERE)), "tools"))
import vxlib  # noqa: E402
from vxlib import Undecided  # noqa: E402

ASSUMPTIONS = []
FN_PROPS = {}

PW = "proxy_agent/src/shared_state/provision_wrapper.rs"
PV = "proxy_agent/src/provision.rs"


# ---------------------------------------------------------------------------------------------------
# the bitflags! declaration: copied verbatim OUTSIDE verus!{} (opaque external type for Verus, real type for rustc);
# the declared constants are read off the tree's text and become (a) spec constants PF_* and (b) the contracts of
# the E9 redirections of `ProvisionFlags::X` (an external associated const cannot be specified in Verus, T15).
def take_bitflags(u, sf, modname):
    it = sf.item("macro", "macro")
    if [m["name"] for m in it.get("macros", [])][:1] != ["bitflags::bitflags"]:
        raise Undecided("provision.rs: the item-level macro is not bitflags::bitflags!")
    text = sf.s(it["span"][0], it["span"][1])
    code = "\n".join(l for l in text.split("\n") if not l.strip().startswith("//"))
    m = re.search(r"pub\s+struct\s+(\w+)\s*:\s*(\w+)\s*\{", code)
    if not m or m.group(1) != "ProvisionFlags" or m.group(2) != "u8":
        raise Undecided("provision.rs: bitflags! no longer declares `pub struct ProvisionFlags: u8`")
    consts = {}
    for cm in re.finditer(r"\bconst\s+(\w+)\s*=\s*([^;]+);", code):
        v = cm.group(2).strip()
        if not re.fullmatch(r"\d+|0x[0-9a-fA-F]+|0b[01]+", v):
            raise Undecided("provision.rs: flag %s has a non-literal value `%s`" % (cm.group(1), v))
        consts[cm.group(1)] = int(v, 0)
        if consts[cm.group(1)] > 255:
            raise Undecided("flag value out of u8")
    for need in ("NONE", "REDIRECTOR_READY", "KEY_LATCH_READY", "LISTENER_READY", "ALL_READY"):
        if need not in consts:
            raise Undecided("provision.rs: flag %s no longer declared" % need)
    saved = u.pieces
    u.pieces = u.ext_pieces
    u.emit("pub mod %s {\n" % modname, "glue", "E1")
    u.pieces += vxlib.apply_edits(sf, it["span"][0], it["span"][1], [])
    u.emit("\n} // mod %s" % modname, "glue", "E1")
    u.pieces = saved
    u.rule("E1", "bitflags! ProvisionFlags kept outside verus! (opaque external type)  <- %s:%d" % (sf.rel, sf.line_of(it["span"][0])))
    u.emit("pub use crate::%s::ProvisionFlags;\n#[verifier::external_type_specification]\n#[verifier::external_body]\npub struct VxEx_ProvisionFlags(crate::%s::ProvisionFlags);" % (modname, modname), "glue", "E1")
    union = 0
    gen = ["// generated from the bitflags! declaration at %s:%d" % (sf.rel, sf.line_of(it["span"][0]))]
    for k, v in consts.items():
        gen.append("pub const PF_%s: u8 = %d;" % (k, v))
        union |= v
    gen.append("pub const PF_DECLARED_UNION: u8 = %d; // bitflags `all()`: union of every declared flag" % union)
    u.emit("\n".join(gen), "rule", "E6")
    u.rule("E6", "spec constants PF_* generated from the literal flag values in the tree: %s" % consts)
    return consts


def flag_e9(fnname, consts, names):
    """E9 redirections of `ProvisionFlags::X` (external associated const); the contract is the value in the tree."""
    out = []
    for n in names:
        ordinal = None
        if isinstance(n, tuple):
            n, ordinal = n
        out.append(("ProvisionFlags::" + n, ordinal, "", "", "ProvisionFlags", "    ensures pf_bits(r) == PF_%s," % n,
                    dict(name="vx_e9_%s_%s%s" % (fnname, n, "" if ordinal is None else "_%d" % ordinal))))
    return out


ARM_SPECS = {
    # variant: (fn name, params, ret type, pre_body (E5 glue: mutable actor local by value in / value out), tail, contract)
    "UpdateState": ("vx_arm_update_state",
                    "provision_state_0: ProvisionFlags, state: ProvisionFlags, response: oneshot::Sender<ProvisionFlags>", "ProvisionFlags",
                    "let mut provision_state = provision_state_0;", "provision_state", """
        ensures
            pf_bits(r) == pf_bits(provision_state_0) | pf_bits(state),  // @C16.actor.UpdateState.new_state_is_old_or_s
            pf_bits(r) == step(World { flags: pf_bits(provision_state_0), tick: 0, ever_all_ready: false, deadline_passed: false }, Ev::Report { s: pf_bits(state) }).flags,  // @C16.actor.UpdateState.refines_model_step
            sent_value(response) == r,  // @C16.actor.UpdateState.reply_is_new_state
"""),
    "ResetState": ("vx_arm_reset_state",
                   "provision_state_0: ProvisionFlags, state: ProvisionFlags, response: oneshot::Sender<ProvisionFlags>", "ProvisionFlags",
                   "let mut provision_state = provision_state_0;", "proof { lemma_reset_bits(pf_bits(provision_state_0), pf_bits(state), PF_DECLARED_UNION); }\nprovision_state", """
        ensures
            pf_bits(r) == pf_bits(provision_state_0) & (!pf_bits(state) & PF_DECLARED_UNION),  // @C16.actor.ResetState.new_state_is_old_and_not_s
            pf_bits(r) == step(World { flags: pf_bits(provision_state_0), tick: 0, ever_all_ready: false, deadline_passed: false }, Ev::Reset { s: pf_bits(state) }).flags,  // @C16.actor.ResetState.refines_model_step
            pf_bits(r) & pf_bits(state) == 0,  // @C16.actor.ResetState.reset_bits_cleared
            sent_value(response) == r,  // @C16.actor.ResetState.reply_is_new_state
"""),
    "GetState": ("vx_arm_get_state",
                 "provision_state: ProvisionFlags, response: oneshot::Sender<ProvisionFlags>", "",
                 "", "", """
        ensures
            sent_value(response) == provision_state,  // @C16.actor.GetState.reply_is_current_state
"""),
    "SetEventLogThreadsInitialized": ("vx_arm_set_event_log_threads_initialized",
                                      "provision_event_log_threads_initialized_0: bool, response: oneshot::Sender<()>", "bool",
                                      "let mut provision_event_log_threads_initialized = provision_event_log_threads_initialized_0;",
                                      "provision_event_log_threads_initialized", """
        ensures r == true,
"""),
    "GetEventLogsThreadsInitialized": ("vx_arm_get_event_log_threads_initialized",
                                       "provision_event_log_threads_initialized: bool, response: oneshot::Sender<bool>", "",
                                       "", "", """
        ensures sent_value(response) == provision_event_log_threads_initialized,
"""),
    "SetProvisionFinished": ("vx_arm_set_provision_finished",
                             "provision_finished_time_tick_0: i128, finished: bool, response: oneshot::Sender<i128>", "i128",
                             "let mut provision_finished_time_tick = provision_finished_time_tick_0;", "provision_finished_time_tick", """
        ensures
            finished ==> clock_reading(r) && r > 0,  // @C16.actor.SetProvisionFinished.true_stores_clock_reading
            !finished ==> r == 0,  // @C16.actor.SetProvisionFinished.false_stores_zero
            forall|w: World, now: i128| finished ==> #[trigger] step(w, Ev::SetFinished { finished, now }).tick == now,
            sent_value(response) == r,  // @C16.actor.SetProvisionFinished.reply_is_new_tick
"""),
    "GetProvisionFinished": ("vx_arm_get_provision_finished",
                             "provision_finished_time_tick: i128, response: oneshot::Sender<i128>", "",
                             "", "", """
        ensures
            sent_value(response) == provision_finished_time_tick,  // @C16.actor.GetProvisionFinished.reply_is_current_tick
"""),
}


def build(u):
    u.externs.append("serde_derive")
    pv = u.src(PV)
    pw = u.src(PW)
    lg = u.src("proxy_agent/src/common/logger.rs")
    mh = u.src("proxy_agent_shared/src/misc_helpers.rs")
    for f in ("str_axioms.rs", "ext_types.rs", "std_string.rs"):
        u.raw(open(os.path.join(COMMON, f)).read())
    consts = take_bitflags(u, pv, "vx_ext_provision_flags")
    u.raw_file("deps.rs")
    u.raw_file("spec.rs")

    # ---- callee stubs -------------------------------------------------------------------------------------
    u.raw("""
// a value read from the wall clock (OffsetDateTime::now_utc().unix_timestamp_nanos()); ASSUMED > 0 (clock after 1970)
pub uninterp spec fn clock_reading(t: i128) -> bool;
""")
    with u.mod("proxy_agent_shared"):
        with u.mod("misc_helpers"):
            u.take_fn(mh, "get_date_time_unix_nano", external_body=True, contract="""
        ensures clock_reading(r) && r > 0,
""")
    with u.mod("common"):
        with u.mod("logger"):
            for f in ("write_warning", "write_error"):
                u.take_fn(lg, f, external_body=True, ret="")
    with u.mod("provision"):
        u.raw("pub use crate::ProvisionFlags;")

    # ---- (1) the actor: every arm of the `match action` in ProvisionSharedState::start_new (E5b) -----------
    with u.mod("shared_state"):
        with u.mod("provision_wrapper", uses="use crate::common::logger;\nuse crate::provision::ProvisionFlags;\nuse crate::proxy_agent_shared::misc_helpers;\nuse tokio::sync::{mpsc, oneshot};"):
            it = pw.item("ProvisionSharedState::start_new", "fn")
            if len(it["matches"]) != 1:
                raise Undecided("start_new: expected exactly one match (the actor dispatch), found %d" % len(it["matches"]))
            arms = it["matches"][0]["arms"]
            seen = set()
            for arm in arms:
                pat = pw.s(arm["pat"][0], arm["pat"][1])
                m = re.match(r"\s*ProvisionAction::(\w+)\b", pat)
                if not m or m.group(1) not in ARM_SPECS or arm["guard"] is not None:
                    raise Undecided("start_new: unknown actor arm `%s`" % pat[:60])
                v = m.group(1)
                if v in seen:
                    raise Undecided("start_new: two arms for %s" % v)
                seen.add(v)
                name, params, rty, pre, tail, contract = ARM_SPECS[v]
                # the variables bound by the pattern must be exactly the non-state parameters (rustc checks the rest:
                # the slice only compiles if it uses no actor local other than the one passed in -> frame for the others)
                lo, hi = arm["body"][0] + 1, arm["body"][1] - 1
                if pw.s(arm["body"][0], arm["body"][0] + 1) != "{":
                    raise Undecided("start_new: arm %s is not a block" % v)
                u.slice_fn(pw, "ProvisionSharedState::start_new", name, lo, hi, params, ret_type=rty, contract=contract,
                           pre_body="broadcast use axiom_pf_bits_of, axiom_pf_of_bits, axiom_fmt_pf;\n" + pre + "\n", tail=tail + "\n" if tail else "",
                           what="(actor arm ProvisionAction::%s)" % v)
            if seen != set(ARM_SPECS):
                raise Undecided("start_new: actor arms %s missing" % sorted(set(ARM_SPECS) - seen))
