#!/bin/sh
# Assumption validation (never counted as proof): runs every executable clause of deps.rs about `bitflags` against the REAL
# crate (build/extdeps) on the tree's own bitflags! declaration, for all 256 x 256 pairs of bit patterns.
set -e
V=/verif
R=${VERIF_REPO:-/repo}
O=$V/build/scratch_provision_bf
python3 $V/contracts/provision/validate_bitflags_gen.py "$R" "$O.rs"
BF=$(ls $V/build/extdeps/debug/deps/libbitflags-*.rlib | head -1)
rustc +1.98.1-x86_64-unknown-linux-gnu --edition 2021 $O.rs --extern bitflags=$BF -L dependency=$V/build/extdeps/debug/deps -o $O
$O
