// ---- rely/guarantee view of ONE task (DESIGN 2.3) ------------------------------------------------------------------
// The functions of provision.rs run concurrently in several tokio tasks. Every wrapper method of ProvisionSharedState is
// ONE atomic operation of the actor; between two awaits the actor's state is changed arbitrarily by the other tasks.
// A `Task` records only what THIS task did and what it was told:
//   ops            the mutating actor operations it performed, in order, with the replies it got
//   reads          the replies to its GetState calls, in order (None: the actor did not answer)
//   last_tick / last_channel / msgs   the most recent reply of GetProvisionFinished / the key keeper's secure channel
//                  state / each module's status message
//   seen_all_ready some reply it received showed all three subsystems ready (a fact about an instant in the past;
//                  it is the only thing that remains true when other tasks interleave)
//   deadline_passed this task is the provisioning deadline handler, called after the deadline
#[allow(inconsistent_fields)]
pub enum ActorOp {
    Report { s: u8, reply: Option<u8> },
    Reset { s: u8, reply: Option<u8> },
    SetFinished { finished: bool, reply: Option<i128> },
}
pub tracked struct Task {
    pub ghost ops: Seq<ActorOp>,
    pub ghost reads: Seq<Option<u8>>,
    pub ghost last_tick: Option<i128>,
    pub ghost last_channel: Option<Seq<char>>,
    pub ghost msgs: Map<shared_state::agent_status_wrapper::AgentStatusModule, Seq<char>>,
    pub ghost seen_all_ready: bool,
    pub ghost deadline_passed: bool,
}
pub open spec fn reply_all_ready(reply: Option<u8>) -> bool { reply is Some && all_ready(reply->0) }
impl Task {
    pub open spec fn did(self, op: ActorOp) -> Task { Task { ops: self.ops.push(op), ..self } }
    pub open spec fn saw(self, reply: Option<u8>) -> Task { Task { seen_all_ready: self.seen_all_ready || reply_all_ready(reply), ..self } }
    // nothing was done to the provisioning state, nothing learnt that enables `finished`
    pub open spec fn same_knowledge(self, o: Task) -> bool {
        self.ops == o.ops && self.deadline_passed == o.deadline_passed
        && o.reads.len() <= self.reads.len() && (forall|i: int| 0 <= i < o.reads.len() ==> #[trigger] self.reads[i] == o.reads[i])
        && (self.seen_all_ready ==> o.seen_all_ready || exists|i: int| o.reads.len() <= i < self.reads.len() && reply_all_ready(#[trigger] self.reads[i]))
    }
}
pub open spec fn flags_reply(r: common::result::Result<ProvisionFlags>) -> Option<u8> {
    match r { Ok(f) => Some(pf_bits(f)), Err(_) => None }
}
pub open spec fn tick_reply(r: common::result::Result<i128>) -> Option<i128> {
    match r { Ok(t) => Some(t), Err(_) => None }
}
// when the actor does not answer the code falls back to: no flag ready / tick 0 / channel state "Unknown"
pub open spec fn flags_or_none(o: Option<u8>) -> u8 { match o { Some(f) => f, None => PF_NONE } }
pub open spec fn tick_or_zero(o: Option<i128>) -> i128 { match o { Some(t) => t, None => 0 } }
pub open spec fn channel_or_unknown(o: Option<Seq<char>>) -> Seq<char> { match o { Some(s) => s, None => "Unknown"@ } }

// "the secure channel is already latched": the key keeper's secure channel state is neither "disabled" nor "Unknown"
// (key_keeper.rs: the latched states are "wireserver" and "wireserverandimds")
pub open spec fn latched(state: Seq<char>) -> bool { state != "disabled"@ && state != "Unknown"@ }
pub proof fn lits_channel()
    ensures key_keeper::DISABLE_STATE@ == "disabled"@, key_keeper::UNKNOWN_STATE@ == "Unknown"@,
{
    reveal_strlit("disabled"); reveal_strlit("Unknown");
}

// Display for the crate's error types does not panic (needed by format!("... {e}")); the text is unconstrained.
#[verifier::external_body]
pub broadcast proof fn axiom_fmt_error() ensures #[trigger] vstd::std_specs::fmt::fmt_req_all::<common::error::Error>() {}
#[verifier::external_body]
pub broadcast proof fn axiom_fmt_shared_error() ensures #[trigger] vstd::std_specs::fmt::fmt_req_all::<proxy_agent_shared::error::Error>() {}

// external types
#[verifier::external_type_specification] #[verifier::external_body]
pub struct ExPath(std::path::Path);
#[verifier::external_type_specification] #[verifier::external_body]
pub struct ExCancellationToken(tokio_util::sync::CancellationToken);
pub assume_specification [<shared_state::provision_wrapper::ProvisionSharedState as Clone>::clone] (a: &shared_state::provision_wrapper::ProvisionSharedState) -> (r: shared_state::provision_wrapper::ProvisionSharedState)
    ensures r == *a;
pub assume_specification [<shared_state::agent_status_wrapper::AgentStatusSharedState as Clone>::clone] (a: &shared_state::agent_status_wrapper::AgentStatusSharedState) -> (r: shared_state::agent_status_wrapper::AgentStatusSharedState)
    ensures r == *a;
pub assume_specification [<shared_state::key_keeper_wrapper::KeyKeeperSharedState as Clone>::clone] (a: &shared_state::key_keeper_wrapper::KeyKeeperSharedState) -> (r: shared_state::key_keeper_wrapper::KeyKeeperSharedState)
    ensures r == *a;
