// ---- rely/guarantee view of ONE task (DESIGN 2.3) ------------------------------------------------------------------
// The functions of provision.rs run concurrently in several tokio tasks. Every wrapper method of ProvisionSharedState is
// ONE atomic operation of the actor; between two awaits the actor's state is changed arbitrarily by the other tasks.
// A `Task` records only what THIS task did and what it was told:
//   ops            the mutating actor operations it performed, in order, with the replies it got
//   reads          the replies to its GetState calls, in order (None: the actor did not answer)
//   last_tick / last_channel / msgs   the most recent reply of GetProvisionFinished / the key keeper's secure channel
//                  state / each module's status message
//   seen_all_ready some reply it received showed all three subsystems ready (a fact about an instant in the past;
//                  it is the only thing that remains true when other tasks interleave)
//   deadline_passed this task is the provisioning deadline handler, called after the deadline
#[allow(inconsistent_fields)]
pub enum ActorOp {
    Report { s: u8, reply: Option<u8> },
    Reset { s: u8, reply: Option<u8> },
    SetFinished { finished: bool, reply: Option<i128> },
}
pub tracked struct Task {
    pub ghost ops: Seq<ActorOp>,
    pub ghost reads: Seq<Option<u8>>,
    pub ghost last_tick: Option<i128>,
    pub ghost last_channel: Option<Seq<char>>,
    pub ghost msgs: Map<shared_state::agent_status_wrapper::AgentStatusModule, Seq<char>>,
    pub ghost seen_all_ready: bool,
    pub ghost deadline_passed: bool,
}
pub open spec fn reply_all_ready(reply: Option<u8>) -> bool { reply is Some && all_ready(reply->0) }
impl Task {
    pub open spec fn did(self, op: ActorOp) -> Task { Task { ops: self.ops.push(op), ..self } }
    pub open spec fn saw(self, reply: Option<u8>) -> Task { Task { seen_all_ready: self.seen_all_ready || reply_all_ready(reply), ..self } }
    // nothing was done to the provisioning state, nothing learnt that enables `finished`
    pub open spec fn same_knowledge(self, o: Task) -> bool {
        self.ops == o.ops && self.deadline_passed == o.deadline_passed
        && o.reads.len() <= self.reads.len() && (forall|i: int| 0 <= i < o.reads.len() ==> #[trigger] self.reads[i] == o.reads[i])
        && (self.seen_all_ready ==> o.seen_all_ready || exists|i: int| o.reads.len() <= i < self.reads.len() && reply_all_ready(#[trigger] self.reads[i]))
    }
}
pub open spec fn flags_reply(r: common::result::Result<ProvisionFlags>) -> Option<u8> {
    match r { Ok(f) => Some(pf_bits(f)), Err(_) => None }
}
pub open spec fn tick_reply(r: common::result::Result<i128>) -> Option<i128> {
    match r { Ok(t) => Some(t), Err(_) => None }
}
// when the actor does not answer the code falls back to: no flag ready / tick 0 / channel state "Unknown"
pub open spec fn flags_or_none(o: Option<u8>) -> u8 { match o { Some(f) => f, None => PF_NONE } }
pub open spec fn tick_or_zero(o: Option<i128>) -> i128 { match o { Some(t) => t, None => 0 } }
pub open spec fn channel_or_unknown(o: Option<Seq<char>>) -> Seq<char> { match o { Some(s) => s, None => "Unknown"@ } }

// "the secure channel is already latched": the key keeper's secure channel state is neither "disabled" nor "Unknown"
// (key_keeper.rs: the latched states are "wireserver" and "wireserverandimds")
pub open spec fn latched(state: Seq<char>) -> bool { state != "disabled"@ && state != "Unknown"@ }
pub proof fn lits_channel()
    ensures key_keeper::DISABLE_STATE@ == "disabled"@, key_keeper::UNKNOWN_STATE@ == "Unknown"@,
{
    reveal_strlit("disabled"); reveal_strlit("Unknown");
}

// Display for the crate's error types does not panic (needed by format!("... {e}")); the text is unconstrained.
#[verifier::external_body]
pub broadcast proof fn axiom_fmt_error() ensures #[trigger] vstd::std_specs::fmt::fmt_req_all::<common::error::Error>() {}
#[verifier::external_body]
pub broadcast proof fn axiom_fmt_shared_error() ensures #[trigger] vstd::std_specs::fmt::fmt_req_all::<proxy_agent_shared::error::Error>() {}

// external types
#[verifier::external_type_specification] #[verifier::external_body]
pub struct ExPath(std::path::Path);
#[verifier::external_type_specification] #[verifier::external_body]
pub struct ExCancellationToken(tokio_util::sync::CancellationToken);
pub assume_specification [<shared_state::provision_wrapper::ProvisionSharedState as Clone>::clone] (a: &shared_state::provision_wrapper::ProvisionSharedState) -> (r: shared_state::provision_wrapper::ProvisionSharedState)
    ensures r == *a;
pub assume_specification [<shared_state::agent_status_wrapper::AgentStatusSharedState as Clone>::clone] (a: &shared_state::agent_status_wrapper::AgentStatusSharedState) -> (r: shared_state::agent_status_wrapper::AgentStatusSharedState)
    ensures r == *a;
pub assume_specification [<shared_state::key_keeper_wrapper::KeyKeeperSharedState as Clone>::clone] (a: &shared_state::key_keeper_wrapper::KeyKeeperSharedState) -> (r: shared_state::key_keeper_wrapper::KeyKeeperSharedState)
    ensures r == *a;

// ---- the file system, for "the status tag file on disk is only ever replaced atomically, never observed half-written" ------
// Paths are abstract texts. `joined(dir, name)` is Path::join for a relative single-component name.
pub uninterp spec fn path_of<P>(p: P) -> Seq<char>;                      // the path a value denotes (AsRef<Path>)
pub uninterp spec fn joined(dir: Seq<char>, name: Seq<char>) -> Seq<char>;
pub uninterp spec fn file_name(path: Seq<char>) -> Seq<char>;            // last component
pub uninterp spec fn parent_dir(path: Seq<char>) -> Seq<char>;
// capability (DESIGN 2.3): established ONLY by the Ok postcondition of fs::write -- the whole content reached the file
pub uninterp spec fn fully_written(path: Seq<char>) -> bool;
#[verifier::external_body]
pub broadcast proof fn axiom_path_of_str(s: &'static str)
    ensures #[trigger] path_of::<&'static str>(s) == s@
{}
// std docs (Path::join / PathBuf::push): pushing a relative name appends it as the last component
#[verifier::external_body]
pub broadcast proof fn axiom_file_name_joined(dir: Seq<char>, name: Seq<char>)
    ensures file_name(#[trigger] joined(dir, name)) == name && parent_dir(joined(dir, name)) == dir
{}
pub open spec fn is_status_tag(path: Seq<char>) -> bool { file_name(path) == "status.tag"@ }
pub proof fn lits_status_files()
    ensures provision::STATUS_TAG_FILE_NAME@ == "status.tag"@, provision::STATUS_TAG_TMP_FILE_NAME@ == "status.tag.tmp"@,
            provision::PROVISION_TAG_FILE_NAME@ == "provisioned.tag"@,
            "status.tag"@ != "status.tag.tmp"@, "status.tag"@ != "provisioned.tag"@,
{
    reveal_strlit("status.tag"); reveal_strlit("status.tag.tmp"); reveal_strlit("provisioned.tag");
    assert("status.tag"@.len() == 10); assert("status.tag.tmp"@.len() == 14); assert("provisioned.tag"@.len() == 15);
}
#[verifier::external_body]
pub broadcast proof fn axiom_fmt_io_error() ensures #[trigger] vstd::std_specs::fmt::fmt_req_all::<std::io::Error>() {}
#[verifier::external_type_specification] #[verifier::external_body]
pub struct ExIoError(std::io::Error);
// std docs: Path::join "Creates an owned PathBuf with path adjoined to self"
#[verifier::allow(undeclared_external_trait)]
pub assume_specification<P> [std::path::Path::join] (dir: &std::path::Path, p: P) -> (r: std::path::PathBuf)
    where P: std::convert::AsRef<std::path::Path>,
    ensures path_of::<std::path::PathBuf>(r) == joined(path_of::<&std::path::Path>(dir), path_of::<P>(p));
// std docs: fs::write "Writes a slice as the entire contents of a file. This function will create a file if it does not
// exist, and will entirely replace its contents if it does" -- NOT atomic: a crash or a concurrent reader can observe a
// truncated file. The PRECONDITION is the proof obligation of C16: never used on a path named status.tag.
#[verifier::allow(undeclared_external_trait)]
pub assume_specification<P, C> [std::fs::write] (path: P, contents: C) -> (r: std::result::Result<(), std::io::Error>)
    where C: std::convert::AsRef<[u8]>, P: std::convert::AsRef<std::path::Path>,
    requires !is_status_tag(path_of::<P>(path)),  // @C16.fs_write.status_tag_is_never_written_in_place
    ensures r is Ok ==> fully_written(path_of::<P>(path));
// std docs: fs::rename "Renames a file or directory to a new name, replacing the original file if to already exists";
// POSIX rename(2) replaces the target atomically (trust ledger item 5). PRECONDITION = obligation of C16: status.tag is
// only ever produced by renaming the completely written status.tag.tmp of the same directory.
#[verifier::allow(undeclared_external_trait)]
pub assume_specification<P, Q> [std::fs::rename] (from: P, to: Q) -> (r: std::result::Result<(), std::io::Error>)
    where P: std::convert::AsRef<std::path::Path>, Q: std::convert::AsRef<std::path::Path>,
    requires is_status_tag(path_of::<Q>(to)) ==> fully_written(path_of::<P>(from)) && file_name(path_of::<P>(from)) == "status.tag.tmp"@
                && parent_dir(path_of::<P>(from)) == parent_dir(path_of::<Q>(to));  // @C16.fs_rename.status_tag_replaced_only_by_the_completely_written_temp_file
// std docs: fs::copy "Copies the contents of one file to another ... This function will overwrite the contents of to" -- in place
// (open with truncate, then write): NOT atomic, same obligation as fs::write
#[verifier::allow(undeclared_external_trait)]
pub assume_specification<P, Q> [std::fs::copy] (from: P, to: Q) -> (r: std::result::Result<u64, std::io::Error>)
    where P: std::convert::AsRef<std::path::Path>, Q: std::convert::AsRef<std::path::Path>,
    requires !is_status_tag(path_of::<Q>(to));  // @C16.fs_copy.status_tag_is_never_written_in_place
// PathBuf derefs to the Path with the same text
pub assume_specification [<std::path::PathBuf as std::ops::Deref>::deref] (p: &std::path::PathBuf) -> (r: &std::path::Path)
    ensures path_of::<&std::path::Path>(r) == path_of::<std::path::PathBuf>(*p);
