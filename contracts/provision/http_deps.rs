// ---- external types / assumed specifications of http, hyper, http-body-util, tower-http, serde_json, core::str used by
//      ProxyServer::handle_provision_state_check_request (trusted; written from the crates' documentation) ----
#[verifier::external_type_specification] #[verifier::external_body] #[verifier::reject_recursive_types(T)]
pub struct ExRequest<T>(http::Request<T>);
#[verifier::external_type_specification] #[verifier::external_body] #[verifier::reject_recursive_types(T)]
pub struct ExResponse<T>(http::Response<T>);
#[verifier::external_type_specification] #[verifier::external_body] #[verifier::reject_recursive_types(T)]
pub struct ExLimited<T>(tower_http::body::Limited<T>);
#[verifier::external_type_specification] #[verifier::external_body]
pub struct ExIncoming(hyper::body::Incoming);
#[verifier::external_type_specification] #[verifier::external_body]
pub struct ExBytes(hyper::body::Bytes);
#[verifier::external_type_specification] #[verifier::external_body] #[verifier::reject_recursive_types(D)] #[verifier::reject_recursive_types(E)]
pub struct ExBoxBody<D, E>(http_body_util::combinators::BoxBody<D, E>);
#[verifier::external_type_specification] #[verifier::external_body]
pub struct ExHyperError(hyper::Error);
#[verifier::external_type_specification] #[verifier::external_body]
pub struct ExStatusCode(http::StatusCode);
#[verifier::external_type_specification] #[verifier::external_body]
pub struct ExHeaderName(http::header::HeaderName);
#[verifier::external_type_specification] #[verifier::external_body]
pub struct ExHeaderValue(http::header::HeaderValue);
#[verifier::external_type_specification] #[verifier::external_body]
pub struct ExToStrError(http::header::ToStrError);
#[verifier::external_type_specification] #[verifier::external_body] #[verifier::reject_recursive_types(T)]
pub struct ExHeaderMap<T>(http::HeaderMap<T>);
#[verifier::external_type_specification] #[verifier::external_body]
pub struct ExParseIntError(core::num::ParseIntError);
#[verifier::external_type_specification] #[verifier::external_body]
pub struct ExSerdeJsonError(serde_json::Error);

// abstract views
pub uninterp spec fn req_headers<T>(r: http::Request<T>) -> http::HeaderMap;
pub uninterp spec fn key_text<K>(k: K) -> Seq<char>;                          // the header name a lookup key denotes
pub uninterp spec fn hm_get<T>(m: http::HeaderMap<T>, name: Seq<char>) -> Option<T>;   // first value of that name
pub uninterp spec fn hv_text(v: http::header::HeaderValue) -> Option<Seq<char>>;   // Some(text) iff the value is visible ASCII
pub uninterp spec fn parse_i128_spec(s: Seq<char>) -> Option<i128>;            // <i128 as FromStr>::from_str
pub uninterp spec fn status_code(s: http::StatusCode) -> u16;
pub uninterp spec fn resp_status<T>(r: http::Response<T>) -> u16;
pub uninterp spec fn resp_body<T>(r: http::Response<T>) -> T;
pub uninterp spec fn box_body_bytes(b: http_body_util::combinators::BoxBody<hyper::body::Bytes, hyper::Error>) -> Seq<u8>;   // the bytes the body will yield
pub uninterp spec fn into_bytes_view<T>(c: T) -> Seq<u8>;                      // <T as Into<Bytes>>::into, as a byte sequence
pub uninterp spec fn json_of<T: ?Sized>(v: &T) -> Seq<char>;                   // serde_json's rendering of a value

#[verifier::external_body]
pub broadcast proof fn axiom_key_text_str(k: &'static str)
    ensures #[trigger] key_text::<&'static str>(k) == k@
{}
#[verifier::external_body]
pub broadcast proof fn axiom_into_bytes_vec(v: Vec<u8>)
    ensures #[trigger] into_bytes_view::<Vec<u8>>(v) == v@
{}

