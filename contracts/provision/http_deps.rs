// ---- external types / assumed specifications of http, hyper, http-body-util, tower-http, serde_json, core::str used by
//      ProxyServer::handle_provision_state_check_request (trusted; written from the crates' documentation) ----
#[verifier::external_type_specification] #[verifier::external_body] #[verifier::reject_recursive_types(T)]
pub struct ExRequest<T>(http::Request<T>);
#[verifier::external_type_specification] #[verifier::external_body] #[verifier::reject_recursive_types(T)]
pub struct ExResponse<T>(http::Response<T>);
#[verifier::external_type_specification] #[verifier::external_body] #[verifier::reject_recursive_types(T)]
pub struct ExLimited<T>(tower_http::body::Limited<T>);
#[verifier::external_type_specification] #[verifier::external_body]
pub struct ExIncoming(hyper::body::Incoming);
#[verifier::external_type_specification] #[verifier::external_body]
pub struct ExBytes(hyper::body::Bytes);
#[verifier::external_type_specification] #[verifier::external_body] #[verifier::reject_recursive_types(D)] #[verifier::reject_recursive_types(E)]
pub struct ExBoxBody<D, E>(http_body_util::combinators::BoxBody<D, E>);
#[verifier::external_type_specification] #[verifier::external_body]
pub struct ExHyperError(hyper::Error);
#[verifier::external_type_specification] #[verifier::external_body]
pub struct ExStatusCode(http::StatusCode);
#[verifier::external_type_specification] #[verifier::external_body]
pub struct ExHeaderName(http::header::HeaderName);
#[verifier::external_type_specification] #[verifier::external_body]
pub struct ExHeaderValue(http::header::HeaderValue);
#[verifier::external_type_specification] #[verifier::external_body]
pub struct ExToStrError(http::header::ToStrError);
#[verifier::external_type_specification] #[verifier::external_body] #[verifier::reject_recursive_types(T)]
pub struct ExHeaderMap<T>(http::HeaderMap<T>);
#[verifier::external_type_specification] #[verifier::external_body]
pub struct ExParseIntError(core::num::ParseIntError);
#[verifier::external_type_specification] #[verifier::external_body]
pub struct ExSerdeJsonError(serde_json::Error);

// abstract views
pub uninterp spec fn req_headers<T>(r: http::Request<T>) -> http::HeaderMap;
pub uninterp spec fn key_text<K>(k: K) -> Seq<char>;                          // the header name a lookup key denotes
pub uninterp spec fn hm_get<T>(m: http::HeaderMap<T>, name: Seq<char>) -> Option<T>;   // first value of that name
pub uninterp spec fn hv_text(v: http::header::HeaderValue) -> Option<Seq<char>>;   // Some(text) iff the value is visible ASCII
pub uninterp spec fn parse_spec<F>(s: Seq<char>) -> Option<F>;                 // <F as FromStr>::from_str(s).ok()
pub uninterp spec fn utf8_of(s: Seq<char>) -> Seq<u8>;                          // the UTF-8 encoding of a string
pub uninterp spec fn clone_is_copy<T>() -> bool;                                // T::clone returns an equal value
pub uninterp spec fn status_u16(s: http::StatusCode) -> u16;
pub uninterp spec fn resp_status<T>(r: http::Response<T>) -> u16;
pub uninterp spec fn resp_body<T>(r: http::Response<T>) -> T;
pub uninterp spec fn box_body_bytes(b: http_body_util::combinators::BoxBody<hyper::body::Bytes, hyper::Error>) -> Seq<u8>;   // the bytes the body will yield
pub uninterp spec fn into_bytes_view<T>(c: T) -> Seq<u8>;                      // <T as Into<Bytes>>::into, as a byte sequence
pub uninterp spec fn json_of<T: ?Sized>(v: &T) -> Seq<char>;                   // serde_json's rendering of a value

#[verifier::external_body]
pub broadcast proof fn axiom_key_text_str(k: &'static str)
    ensures #[trigger] key_text::<&'static str>(k) == k@
{}
#[verifier::external_body]
pub broadcast proof fn axiom_into_bytes_vec(v: Vec<u8>)
    ensures #[trigger] into_bytes_view::<Vec<u8>>(v) == v@
{}


// the instant the query names: the `x-ms-azure-time_tick` header parsed as i128. A request without the header, with a
// non-text value or with unparsable text names no instant; the listener's documented default for those is 0.
pub open spec fn query_tick_text<T>(r: http::Request<T>) -> Seq<char> {
    match hm_get(req_headers(r), "x-ms-azure-time_tick"@) {
        Some(v) => match hv_text(v) { Some(s) => s, None => "0"@ },
        None => "0"@,
    }
}
pub open spec fn query_instant<T>(r: http::Request<T>) -> i128 {
    match parse_spec::<i128>(query_tick_text(r)) { Some(q) => q, None => 0 }
}
pub proof fn lits_headers()
    ensures common::constants::METADATA_HEADER@ == "Metadata"@, common::constants::TIME_TICK_HEADER@ == "x-ms-azure-time_tick"@,
{
    reveal_strlit("Metadata"); reveal_strlit("x-ms-azure-time_tick");
}
#[verifier::external_body]
pub broadcast proof fn axiom_fmt_parse_int_error() ensures #[trigger] vstd::std_specs::fmt::fmt_req_all::<core::num::ParseIntError>() {}
#[verifier::external_body]
pub broadcast proof fn axiom_fmt_serde_json_error() ensures #[trigger] vstd::std_specs::fmt::fmt_req_all::<serde_json::Error>() {}

#[verifier::external_body]
pub broadcast proof fn axiom_clone_is_copy_u8() ensures #[trigger] clone_is_copy::<u8>() {}

pub assume_specification<T> [http::Request::<T>::headers] (r: &http::Request<T>) -> (h: &http::HeaderMap)
    ensures *h == req_headers(*r);
// http docs: "Returns a reference to the value associated with the key" (the first one), None if absent
#[verifier::allow(undeclared_external_trait)]
pub assume_specification<T, K> [http::HeaderMap::<T>::get] (m: &http::HeaderMap<T>, k: K) -> (r: std::option::Option<&T>)
    where K: http::header::AsHeaderName,
    ensures match r { Some(v) => hm_get(*m, key_text(k)) == Some(*v), None => hm_get(*m, key_text(k)) is None };
// http docs: "Yields a &str slice if the HeaderValue only contains visible ASCII chars", an error otherwise
pub assume_specification [http::HeaderValue::to_str] (v: &http::HeaderValue) -> (r: std::result::Result<&str, http::header::ToStrError>)
    ensures match r { Ok(s) => hv_text(*v) == Some(s@), Err(_) => hv_text(*v) is None };
#[verifier::external_trait_specification]
pub trait ExFromStr: Sized {
    type ExternalTraitSpecificationFor: core::str::FromStr;
    type Err;
    fn from_str(s: &str) -> core::result::Result<Self, Self::Err>;
}
pub assume_specification<F> [str::parse::<F>] (s: &str) -> (r: std::result::Result<F, <F as std::str::FromStr>::Err>)
    where F: std::str::FromStr,
    ensures parse_spec::<F>(s@) == (match r { Ok(v) => Some(v), Err(_) => None });
#[verifier::allow(undeclared_external_trait)]
pub assume_specification<T> [serde_json::to_string] (v: &T) -> (r: std::result::Result<std::string::String, serde_json::Error>)
    where T: std::marker::MetaSized + serde::Serialize + ?Sized,
    ensures r is Ok ==> r->Ok_0@ == json_of(v);
// http docs: "Creates a new blank Response with the body ... status code 200 OK"
pub assume_specification<T> [http::Response::<T>::new] (b: T) -> (r: http::Response<T>)
    ensures resp_body(r) == b && resp_status(r) == 200;
pub assume_specification<T> [<[T]>::to_vec] (s: &[T]) -> (r: std::vec::Vec<T>)
    where T: std::clone::Clone,
    ensures clone_is_copy::<T>() ==> r@ == s@;
pub assume_specification [std::string::String::as_bytes] (s: &std::string::String) -> (r: &[u8])
    ensures r@ == utf8_of(s@);
#[verifier::allow(undeclared_external_trait)]
pub assume_specification<T, K> [http::HeaderMap::<T>::insert] (m: &mut http::HeaderMap<T>, k: K, v: T) -> (r: std::option::Option<T>)
    where K: http::header::IntoHeaderName;
pub assume_specification<T> [http::Response::<T>::headers_mut] (r: &mut http::Response<T>) -> (h: &mut http::HeaderMap)
    ensures resp_body(*final(r)) == resp_body(*old(r)) && resp_status(*final(r)) == resp_status(*old(r));
// http docs: from_static "will panic if the argument contains invalid header value characters" (visible ASCII 32..=126 and tab are valid)
pub assume_specification [http::HeaderValue::from_static] (s: &'static str) -> (r: http::HeaderValue)
    requires forall|i: int| 0 <= i < s@.len() ==> 32 <= #[trigger] s@[i] as u32 && s@[i] as u32 <= 126;
pub assume_specification<T> [http::Response::<T>::status_mut] (r: &mut http::Response<T>) -> (s: &mut http::StatusCode)
    ensures resp_body(*final(r)) == resp_body(*old(r)) && resp_status(*final(r)) == status_u16(*final(s));
