// Specification of C18, written from the property statement:
//  "Each event written to the event store is uploaded to the host in at most one batch, every batch is a
//   well-formed XML document smaller than 64 KiB in which each event's text (any Unicode text free of control
//   characters) appears as data and cannot alter the document structure, an event too large for any batch is
//   dropped rather than blocking the rest, and processing always terminates and removes the files it consumed."
use crate::telemetry::telemetry_event::TelemetryEvent;
use crate::telemetry::event_reader::VmMetaData;
use crate::proxy_agent_shared::telemetry::Event;

// ------------------------------------------------------------------------------------------------
// (A) "appears as data and cannot alter the document structure": the standard XML entity encoding
// ------------------------------------------------------------------------------------------------
pub open spec fn esc_char(c: char) -> Seq<char> {
    if c == '&' { "&amp;"@ } else if c == '\'' { "&apos;"@ } else if c == '"' { "&quot;"@ }
    else if c == '<' { "&lt;"@ } else if c == '>' { "&gt;"@ } else { seq![c] }
}
/// entity encoding of a text: every character is replaced independently
pub open spec fn esc(s: Seq<char>) -> Seq<char>
    decreases s.len()
{
    if s.len() == 0 { seq![] } else { esc(s.drop_last()) + esc_char(s.last()) }
}
pub open spec fn occurs(s: Seq<char>, c: char) -> bool { exists|i: int| 0 <= i < s.len() && s[i] == c }
/// none of the characters that can open/close a tag, close an attribute value or (as part of `]]>`) close a CDATA section
pub open spec fn markup_free(s: Seq<char>) -> bool {
    !occurs(s, '<') && !occurs(s, '>') && !occurs(s, '"') && !occurs(s, '\'')
}
/// `]]>` at position i
pub open spec fn cdata_end_at(s: Seq<char>, i: int) -> bool {
    0 <= i && i + 2 < s.len() && s[i] == ']' && s[i + 1] == ']' && s[i + 2] == '>'
}
/// what an XML parser reads back from an entity-encoded text (only the five predefined entities are produced by `esc`)
pub open spec fn E_AMP() -> Seq<char> { seq!['&', 'a', 'm', 'p', ';'] }
pub open spec fn E_APOS() -> Seq<char> { seq!['&', 'a', 'p', 'o', 's', ';'] }
pub open spec fn E_QUOT() -> Seq<char> { seq!['&', 'q', 'u', 'o', 't', ';'] }
pub open spec fn E_LT() -> Seq<char> { seq!['&', 'l', 't', ';'] }
pub open spec fn E_GT() -> Seq<char> { seq!['&', 'g', 't', ';'] }
pub open spec fn unesc(s: Seq<char>) -> Seq<char>
    decreases s.len()
{
    if s.len() == 0 { seq![] }
    else if s.first() != '&' { seq![s.first()] + unesc(s.drop_first()) }
    else if E_AMP().is_prefix_of(s) { seq!['&'] + unesc(s.skip(5)) }
    else if E_APOS().is_prefix_of(s) { seq!['\''] + unesc(s.skip(6)) }
    else if E_QUOT().is_prefix_of(s) { seq!['"'] + unesc(s.skip(6)) }
    else if E_LT().is_prefix_of(s) { seq!['<'] + unesc(s.skip(4)) }
    else if E_GT().is_prefix_of(s) { seq!['>'] + unesc(s.skip(4)) }
    else { seq![s.first()] + unesc(s.drop_first()) }
}

proof fn lits_entities()
    ensures
        "&amp;"@ == E_AMP(), "&apos;"@ == E_APOS(), "&quot;"@ == E_QUOT(), "&lt;"@ == E_LT(), "&gt;"@ == E_GT(),
{
    reveal_strlit("&amp;"); reveal_strlit("&apos;"); reveal_strlit("&quot;"); reveal_strlit("&lt;"); reveal_strlit("&gt;");
    assert("&amp;"@ =~= seq!['&', 'a', 'm', 'p', ';']);
    assert("&apos;"@ =~= seq!['&', 'a', 'p', 'o', 's', ';']);
    assert("&quot;"@ =~= seq!['&', 'q', 'u', 'o', 't', ';']);
    assert("&lt;"@ =~= seq!['&', 'l', 't', ';']);
    assert("&gt;"@ =~= seq!['&', 'g', 't', ';']);
}

pub proof fn lemma_concat_absent(a: Seq<char>, b: Seq<char>, c: char)
    requires !occurs(a, c), !occurs(b, c)
    ensures !occurs(a + b, c)
{
    assert forall|i: int| 0 <= i < (a + b).len() implies (a + b)[i] != c by {
        if i < a.len() { if a[i] == c { assert(occurs(a, c)); } }
        else { let j = i - a.len(); assert((a + b)[i] == b[j]); if b[j] == c { assert(occurs(b, c)); } }
    }
}
pub proof fn lemma_esc_char_markup_free(c: char)
    ensures markup_free(esc_char(c)) <==> true, esc_char(c).len() >= 1, esc_char(c)[0] == '&' || esc_char(c) == seq![c],
{
    lits_entities();
}

/// (A1) escaped text contains none of `< > " '`, whatever the input text is
pub proof fn lemma_esc_markup_free(s: Seq<char>)
    ensures markup_free(esc(s)),  // @C18.lemma.escaped_text_has_no_markup
    decreases s.len()
{
    if s.len() > 0 {
        lemma_esc_markup_free(s.drop_last());
        lemma_esc_char_markup_free(s.last());
        let a = esc(s.drop_last());
        let b = esc_char(s.last());
        lemma_concat_absent(a, b, '<'); lemma_concat_absent(a, b, '>'); lemma_concat_absent(a, b, '"'); lemma_concat_absent(a, b, '\'');
    }
}
/// (A2) therefore it can close neither the `Value="…"` attribute it is written into nor the enclosing CDATA section
pub proof fn lemma_esc_cannot_break_out(s: Seq<char>)
    ensures !occurs(esc(s), '"'),  // @C18.lemma.escaped_text_cannot_end_attribute_value
            forall|i: int| !cdata_end_at(esc(s), i),  // @C18.lemma.escaped_text_cannot_end_cdata
{
    lemma_esc_markup_free(s);
    assert forall|i: int| !cdata_end_at(esc(s), i) by {
        if cdata_end_at(esc(s), i) { assert(esc(s)[i + 2] == '>'); assert(occurs(esc(s), '>')); }
    }
}

proof fn lemma_esc_concat(a: Seq<char>, b: Seq<char>)
    ensures esc(a + b) == esc(a) + esc(b)
    decreases b.len()
{
    if b.len() == 0 { assert(a + b =~= a); assert(esc(a) + esc(b) =~= esc(a)); }
    else {
        assert((a + b).drop_last() =~= a + b.drop_last());
        lemma_esc_concat(a, b.drop_last());
        assert((esc(a) + esc(b.drop_last())) + esc_char(b.last()) =~= esc(a) + (esc(b.drop_last()) + esc_char(b.last())));
    }
}
/// (A3) "appears as data": decoding the five entities gives back exactly the original text
pub proof fn lemma_unesc_esc(s: Seq<char>)
    ensures unesc(esc(s)) == s,  // @C18.lemma.text_is_recovered_by_entity_decoding
    decreases s.len()
{
    if s.len() > 0 {
        let c = s.first();
        let rest = s.drop_first();
        assert(s =~= seq![c] + rest);
        lemma_esc_concat(seq![c], rest);
        lemma_unesc_esc(rest);
        lits_entities();
        assert(seq![c].drop_last() =~= Seq::<char>::empty());
        assert(esc(seq![c]) =~= esc_char(c)) by { reveal_with_fuel(esc, 2); }
        let e = esc_char(c) + esc(rest);
        assert(esc(s) == e);
        if c == '&' { assert("&amp;"@.is_prefix_of(e)); assert(e.skip(5) =~= esc(rest)); }
        else if c == '\'' { assert("&apos;"@.is_prefix_of(e)); assert(!"&amp;"@.is_prefix_of(e)) by { assert(e[2] == 'p'); assert("&amp;"@[2] == 'm'); } assert(e.skip(6) =~= esc(rest)); }
        else if c == '"' { assert("&quot;"@.is_prefix_of(e)); assert(e[1] == 'q'); assert(!"&amp;"@.is_prefix_of(e)) by { assert("&amp;"@[1] == 'a'); } assert(!"&apos;"@.is_prefix_of(e)) by { assert("&apos;"@[1] == 'a'); } assert(e.skip(6) =~= esc(rest)); }
        else if c == '<' { assert("&lt;"@.is_prefix_of(e)); assert(e[1] == 'l');
            assert(!"&amp;"@.is_prefix_of(e)) by { assert("&amp;"@[1] == 'a'); } assert(!"&apos;"@.is_prefix_of(e)) by { assert("&apos;"@[1] == 'a'); }
            assert(!"&quot;"@.is_prefix_of(e)) by { assert("&quot;"@[1] == 'q'); } assert(e.skip(4) =~= esc(rest)); }
        else if c == '>' { assert("&gt;"@.is_prefix_of(e)); assert(e[1] == 'g');
            assert(!"&amp;"@.is_prefix_of(e)) by { assert("&amp;"@[1] == 'a'); } assert(!"&apos;"@.is_prefix_of(e)) by { assert("&apos;"@[1] == 'a'); }
            assert(!"&quot;"@.is_prefix_of(e)) by { assert("&quot;"@[1] == 'q'); } assert(!"&lt;"@.is_prefix_of(e)) by { assert("&lt;"@[1] == 'l'); } assert(e.skip(4) =~= esc(rest)); }
        else { assert(e.first() == c); assert(e.drop_first() =~= esc(rest)); }
        assert(seq![c] + rest =~= s);
    } else {
        assert(esc(s) =~= Seq::<char>::empty());
    }
}

// ---- xml_escape is that encoding: five chained `replace` calls == one pass of `esc` -------------------
pub open spec fn chain(s: Seq<char>) -> Seq<char> {
    repl(repl(repl(repl(repl(s, '&', "&amp;"@), '\'', "&apos;"@), '"', "&quot;"@), '<', "&lt;"@), '>', "&gt;"@)
}
proof fn lemma_repl_concat(a: Seq<char>, b: Seq<char>, from: char, to: Seq<char>)
    ensures repl(a + b, from, to) == repl(a, from, to) + repl(b, from, to)
    decreases b.len()
{
    if b.len() == 0 { assert(a + b =~= a); assert(repl(a, from, to) + repl(b, from, to) =~= repl(a, from, to)); }
    else {
        assert((a + b).drop_last() =~= a + b.drop_last());
        lemma_repl_concat(a, b.drop_last(), from, to);
        let t = if b.last() == from { to } else { seq![b.last()] };
        assert((repl(a, from, to) + repl(b.drop_last(), from, to)) + t =~= repl(a, from, to) + (repl(b.drop_last(), from, to) + t));
    }
}
proof fn lemma_repl_absent(s: Seq<char>, from: char, to: Seq<char>)
    requires !occurs(s, from)
    ensures repl(s, from, to) == s
    decreases s.len()
{
    if s.len() > 0 {
        assert(!occurs(s.drop_last(), from)) by { if occurs(s.drop_last(), from) { let i = choose|i: int| 0 <= i < s.drop_last().len() && s.drop_last()[i] == from; assert(s[i] == from); } }
        lemma_repl_absent(s.drop_last(), from, to);
        assert(s.last() != from) by { if s.last() == from { assert(s[s.len() - 1] == from); } }
        assert(s.drop_last() + seq![s.last()] =~= s);
    } else { assert(repl(s, from, to) =~= s); }
}
proof fn lemma_repl_single(c: char, from: char, to: Seq<char>)
    ensures repl(seq![c], from, to) == (if c == from { to } else { seq![c] })
{
    reveal_with_fuel(repl, 2);
    assert(seq![c].drop_last() =~= Seq::<char>::empty());
    let t = if c == from { to } else { seq![c] };
    assert(Seq::<char>::empty() + t =~= t);
}
proof fn lemma_chain_single(c: char)
    ensures chain(seq![c]) == esc_char(c)
{
    lits_entities();
    let amp = "&amp;"@; let apos = "&apos;"@; let quot = "&quot;"@; let lt = "&lt;"@; let gt = "&gt;"@;
    lemma_repl_single(c, '&', amp);
    let s1 = repl(seq![c], '&', amp);
    if c == '&' {
        lemma_repl_absent(amp, '\'', apos); lemma_repl_absent(amp, '"', quot); lemma_repl_absent(amp, '<', lt); lemma_repl_absent(amp, '>', gt);
    } else {
        lemma_repl_single(c, '\'', apos);
        if c == '\'' {
            lemma_repl_absent(apos, '"', quot); lemma_repl_absent(apos, '<', lt); lemma_repl_absent(apos, '>', gt);
        } else {
            lemma_repl_single(c, '"', quot);
            if c == '"' { lemma_repl_absent(quot, '<', lt); lemma_repl_absent(quot, '>', gt); }
            else {
                lemma_repl_single(c, '<', lt);
                if c == '<' { lemma_repl_absent(lt, '>', gt); }
                else { lemma_repl_single(c, '>', gt); }
            }
        }
    }
}
proof fn lemma_chain_concat(a: Seq<char>, b: Seq<char>)
    ensures chain(a + b) == chain(a) + chain(b)
{
    let amp = "&amp;"@; let apos = "&apos;"@; let quot = "&quot;"@; let lt = "&lt;"@; let gt = "&gt;"@;
    lemma_repl_concat(a, b, '&', amp);
    let a1 = repl(a, '&', amp); let b1 = repl(b, '&', amp);
    lemma_repl_concat(a1, b1, '\'', apos);
    let a2 = repl(a1, '\'', apos); let b2 = repl(b1, '\'', apos);
    lemma_repl_concat(a2, b2, '"', quot);
    let a3 = repl(a2, '"', quot); let b3 = repl(b2, '"', quot);
    lemma_repl_concat(a3, b3, '<', lt);
    let a4 = repl(a3, '<', lt); let b4 = repl(b3, '<', lt);
    lemma_repl_concat(a4, b4, '>', gt);
}
/// the order of the five replacements (`&` first) is what makes the chain equal to the one-pass encoding
pub proof fn lemma_chain_is_esc(s: Seq<char>)
    ensures chain(s) == esc(s)
    decreases s.len()
{
    if s.len() == 0 {
        reveal_with_fuel(repl, 2);
        assert(chain(s) =~= Seq::<char>::empty());
    } else {
        lemma_chain_is_esc(s.drop_last());
        assert(s.drop_last() + seq![s.last()] =~= s);
        lemma_chain_concat(s.drop_last(), seq![s.last()]);
        lemma_chain_single(s.last());
    }
}

// ------------------------------------------------------------------------------------------------
// (A') the XML text of one event: 23 <Param Name=".." Value=".." T=".." /> elements inside a CDATA section.
//      String-valued parameters carry the entity encoding of the event's text, numeric ones a decimal number.
// ------------------------------------------------------------------------------------------------
/// decimal text of a number (what `format!("{}", n)` gives for a u64): only digits, at least one
pub uninterp spec fn dec_u64(n: u64) -> Seq<char>;
#[verifier::external_body]
pub broadcast proof fn axiom_dec_u64_digits(n: u64)
    ensures (#[trigger] dec_u64(n)).len() >= 1, forall|i: int| 0 <= i < dec_u64(n).len() ==> '0' <= #[trigger] dec_u64(n)[i] <= '9'
{}
pub open spec fn WSTR_END() -> Seq<char> { "\" T=\"mt:wstr\" />"@ }
pub open spec fn U64_END() -> Seq<char> { "\" T=\"mt:uint64\" />"@ }
/// a text parameter: `pre` is `<Param Name="N" Value="`, the value is the ENCODED text
pub open spec fn wstr(pre: Seq<char>, text: Seq<char>) -> Seq<char> { pre + esc(text) + WSTR_END() }
pub open spec fn u64p(pre: Seq<char>, n: u64) -> Seq<char> { pre + dec_u64(n) + U64_END() }
pub open spec fn EVENT_OPEN() -> Seq<char> { "<Event id=\"7\"><![CDATA["@ }
pub open spec fn EVENT_CLOSE() -> Seq<char> { "]]></Event>"@ }
#[verifier::opaque]
pub open spec fn event_xml(e: TelemetryEvent) -> Seq<char> {
    Seq::<char>::empty() + EVENT_OPEN()
    + wstr("<Param Name=\"OpcodeName\" Value=\""@, e.opcode_name@)
    + wstr("<Param Name=\"KeywordName\" Value=\""@, e.keyword_name@)
    + wstr("<Param Name=\"TaskName\" Value=\""@, e.task_name@)
    + wstr("<Param Name=\"TenantName\" Value=\""@, e.tenant_name@)
    + wstr("<Param Name=\"RoleName\" Value=\""@, e.role_name@)
    + wstr("<Param Name=\"RoleInstanceName\" Value=\""@, e.role_instance_name@)
    + wstr("<Param Name=\"ContainerId\" Value=\""@, e.container_id@)
    + wstr("<Param Name=\"ResourceGroupName\" Value=\""@, e.resource_group_name@)
    + wstr("<Param Name=\"SubscriptionId\" Value=\""@, e.subscription_id@)
    + wstr("<Param Name=\"VMId\" Value=\""@, e.vm_id@)
    + u64p("<Param Name=\"EventPid\" Value=\""@, e.event_pid)
    + u64p("<Param Name=\"EventTid\" Value=\""@, e.event_tid)
    + u64p("<Param Name=\"ImageOrigin\" Value=\""@, e.image_origin)
    + wstr("<Param Name=\"ExecutionMode\" Value=\""@, e.execution_mode@)
    + wstr("<Param Name=\"OSVersion\" Value=\""@, e.os_version@)
    + wstr("<Param Name=\"GAVersion\" Value=\""@, e.ga_version@)
    + u64p("<Param Name=\"RAM\" Value=\""@, e.ram)
    + u64p("<Param Name=\"Processors\" Value=\""@, e.processors)
    + wstr("<Param Name=\"EventName\" Value=\""@, e.event_name@)
    + wstr("<Param Name=\"CapabilityUsed\" Value=\""@, e.capability_used@)
    + wstr("<Param Name=\"Context1\" Value=\""@, e.context1@)
    + wstr("<Param Name=\"Context2\" Value=\""@, e.context2@)
    + wstr("<Param Name=\"Context3\" Value=\""@, e.context3@)
    + EVENT_CLOSE()
}


// ---- (A'') the CDATA section of an event cannot be closed early, whatever the event contains ------------------
/// a '>' is never the first character and never directly follows a ']' (so no `]]>` can be completed, even across pieces)
pub open spec fn no_gt_after_bracket(s: Seq<char>) -> bool {
    forall|i: int| 0 <= i < s.len() && #[trigger] s[i] == '>' ==> i >= 1 && s[i - 1] != ']'
}
proof fn lemma_ngb_concat(a: Seq<char>, b: Seq<char>)
    requires no_gt_after_bracket(a), no_gt_after_bracket(b)
    ensures no_gt_after_bracket(a + b)
{
    assert forall|i: int| 0 <= i < (a + b).len() && #[trigger] (a + b)[i] == '>' implies i >= 1 && (a + b)[i - 1] != ']' by {
        if i < a.len() { assert(a[i] == '>'); assert((a + b)[i - 1] == a[i - 1]); }
        else { let j = i - a.len(); assert(b[j] == '>'); assert(j >= 1); assert((a + b)[i - 1] == b[j - 1]); }
    }
}
proof fn lemma_ngb_no_gt(s: Seq<char>)
    requires !occurs(s, '>')
    ensures no_gt_after_bracket(s)
{
    assert forall|i: int| 0 <= i < s.len() && #[trigger] s[i] == '>' implies i >= 1 && s[i - 1] != ']' by { assert(occurs(s, '>')); }
}
proof fn lemma_wstr_ngb(pre: Seq<char>, text: Seq<char>)
    requires !occurs(pre, '>')
    ensures no_gt_after_bracket(wstr(pre, text))
{
    lemma_ngb_no_gt(pre);
    lemma_esc_markup_free(text);
    lemma_ngb_no_gt(esc(text));
    reveal_strlit("\" T=\"mt:wstr\" />");
    assert(no_gt_after_bracket(WSTR_END()));
    lemma_ngb_concat(pre, esc(text));
    lemma_ngb_concat(pre + esc(text), WSTR_END());
}
proof fn lemma_u64p_ngb(pre: Seq<char>, n: u64)
    requires !occurs(pre, '>')
    ensures no_gt_after_bracket(u64p(pre, n))
{
    broadcast use axiom_dec_u64_digits;
    lemma_ngb_no_gt(pre);
    assert(!occurs(dec_u64(n), '>'));
    lemma_ngb_no_gt(dec_u64(n));
    reveal_strlit("\" T=\"mt:uint64\" />");
    assert(no_gt_after_bracket(U64_END()));
    lemma_ngb_concat(pre, dec_u64(n));
    lemma_ngb_concat(pre + dec_u64(n), U64_END());
}
/// none of the 23 fixed `<Param Name=".." Value="` openers contains a '>'
proof fn lits_param_openers()
    ensures
        !occurs("<Param Name=\"OpcodeName\" Value=\""@, '>'),
        !occurs("<Param Name=\"KeywordName\" Value=\""@, '>'),
        !occurs("<Param Name=\"TaskName\" Value=\""@, '>'),
        !occurs("<Param Name=\"TenantName\" Value=\""@, '>'),
        !occurs("<Param Name=\"RoleName\" Value=\""@, '>'),
        !occurs("<Param Name=\"RoleInstanceName\" Value=\""@, '>'),
        !occurs("<Param Name=\"ContainerId\" Value=\""@, '>'),
        !occurs("<Param Name=\"ResourceGroupName\" Value=\""@, '>'),
        !occurs("<Param Name=\"SubscriptionId\" Value=\""@, '>'),
        !occurs("<Param Name=\"VMId\" Value=\""@, '>'),
        !occurs("<Param Name=\"EventPid\" Value=\""@, '>'),
        !occurs("<Param Name=\"EventTid\" Value=\""@, '>'),
        !occurs("<Param Name=\"ImageOrigin\" Value=\""@, '>'),
        !occurs("<Param Name=\"ExecutionMode\" Value=\""@, '>'),
        !occurs("<Param Name=\"OSVersion\" Value=\""@, '>'),
        !occurs("<Param Name=\"GAVersion\" Value=\""@, '>'),
        !occurs("<Param Name=\"RAM\" Value=\""@, '>'),
        !occurs("<Param Name=\"Processors\" Value=\""@, '>'),
        !occurs("<Param Name=\"EventName\" Value=\""@, '>'),
        !occurs("<Param Name=\"CapabilityUsed\" Value=\""@, '>'),
        !occurs("<Param Name=\"Context1\" Value=\""@, '>'),
        !occurs("<Param Name=\"Context2\" Value=\""@, '>'),
        !occurs("<Param Name=\"Context3\" Value=\""@, '>'),
{
    reveal_strlit("<Param Name=\"OpcodeName\" Value=\"");
    reveal_strlit("<Param Name=\"KeywordName\" Value=\"");
    reveal_strlit("<Param Name=\"TaskName\" Value=\"");
    reveal_strlit("<Param Name=\"TenantName\" Value=\"");
    reveal_strlit("<Param Name=\"RoleName\" Value=\"");
    reveal_strlit("<Param Name=\"RoleInstanceName\" Value=\"");
    reveal_strlit("<Param Name=\"ContainerId\" Value=\"");
    reveal_strlit("<Param Name=\"ResourceGroupName\" Value=\"");
    reveal_strlit("<Param Name=\"SubscriptionId\" Value=\"");
    reveal_strlit("<Param Name=\"VMId\" Value=\"");
    reveal_strlit("<Param Name=\"EventPid\" Value=\"");
    reveal_strlit("<Param Name=\"EventTid\" Value=\"");
    reveal_strlit("<Param Name=\"ImageOrigin\" Value=\"");
    reveal_strlit("<Param Name=\"ExecutionMode\" Value=\"");
    reveal_strlit("<Param Name=\"OSVersion\" Value=\"");
    reveal_strlit("<Param Name=\"GAVersion\" Value=\"");
    reveal_strlit("<Param Name=\"RAM\" Value=\"");
    reveal_strlit("<Param Name=\"Processors\" Value=\"");
    reveal_strlit("<Param Name=\"EventName\" Value=\"");
    reveal_strlit("<Param Name=\"CapabilityUsed\" Value=\"");
    reveal_strlit("<Param Name=\"Context1\" Value=\"");
    reveal_strlit("<Param Name=\"Context2\" Value=\"");
    reveal_strlit("<Param Name=\"Context3\" Value=\"");
}
/// (A4) The only `]]>` in the XML text of an event is the one that closes its CDATA section: no event content
/// (message text, names, versions, numbers) can end the section early.
pub proof fn lemma_event_cdata_closed_only_at_end(e: TelemetryEvent)
    ensures
        event_xml(e).len() >= EVENT_CLOSE().len(),
        forall|i: int| cdata_end_at(event_xml(e), i) ==> i == event_xml(e).len() - EVENT_CLOSE().len(),  // @C18.lemma.event_cdata_section_cannot_be_closed_early
{
    reveal(event_xml);
    lits_param_openers();
    reveal_strlit("<Event id=\"7\"><![CDATA[");
    reveal_strlit("]]></Event>");
    assert(no_gt_after_bracket(EVENT_OPEN()));
    lemma_ngb_no_gt(Seq::<char>::empty());
    let a0 = Seq::<char>::empty() + EVENT_OPEN();
    lemma_ngb_concat(Seq::<char>::empty(), EVENT_OPEN());
    let p1 = wstr("<Param Name=\"OpcodeName\" Value=\""@, e.opcode_name@); lemma_wstr_ngb("<Param Name=\"OpcodeName\" Value=\""@, e.opcode_name@); let a1 = a0 + p1; lemma_ngb_concat(a0, p1);
    let p2 = wstr("<Param Name=\"KeywordName\" Value=\""@, e.keyword_name@); lemma_wstr_ngb("<Param Name=\"KeywordName\" Value=\""@, e.keyword_name@); let a2 = a1 + p2; lemma_ngb_concat(a1, p2);
    let p3 = wstr("<Param Name=\"TaskName\" Value=\""@, e.task_name@); lemma_wstr_ngb("<Param Name=\"TaskName\" Value=\""@, e.task_name@); let a3 = a2 + p3; lemma_ngb_concat(a2, p3);
    let p4 = wstr("<Param Name=\"TenantName\" Value=\""@, e.tenant_name@); lemma_wstr_ngb("<Param Name=\"TenantName\" Value=\""@, e.tenant_name@); let a4 = a3 + p4; lemma_ngb_concat(a3, p4);
    let p5 = wstr("<Param Name=\"RoleName\" Value=\""@, e.role_name@); lemma_wstr_ngb("<Param Name=\"RoleName\" Value=\""@, e.role_name@); let a5 = a4 + p5; lemma_ngb_concat(a4, p5);
    let p6 = wstr("<Param Name=\"RoleInstanceName\" Value=\""@, e.role_instance_name@); lemma_wstr_ngb("<Param Name=\"RoleInstanceName\" Value=\""@, e.role_instance_name@); let a6 = a5 + p6; lemma_ngb_concat(a5, p6);
    let p7 = wstr("<Param Name=\"ContainerId\" Value=\""@, e.container_id@); lemma_wstr_ngb("<Param Name=\"ContainerId\" Value=\""@, e.container_id@); let a7 = a6 + p7; lemma_ngb_concat(a6, p7);
    let p8 = wstr("<Param Name=\"ResourceGroupName\" Value=\""@, e.resource_group_name@); lemma_wstr_ngb("<Param Name=\"ResourceGroupName\" Value=\""@, e.resource_group_name@); let a8 = a7 + p8; lemma_ngb_concat(a7, p8);
    let p9 = wstr("<Param Name=\"SubscriptionId\" Value=\""@, e.subscription_id@); lemma_wstr_ngb("<Param Name=\"SubscriptionId\" Value=\""@, e.subscription_id@); let a9 = a8 + p9; lemma_ngb_concat(a8, p9);
    let p10 = wstr("<Param Name=\"VMId\" Value=\""@, e.vm_id@); lemma_wstr_ngb("<Param Name=\"VMId\" Value=\""@, e.vm_id@); let a10 = a9 + p10; lemma_ngb_concat(a9, p10);
    let p11 = u64p("<Param Name=\"EventPid\" Value=\""@, e.event_pid); lemma_u64p_ngb("<Param Name=\"EventPid\" Value=\""@, e.event_pid); let a11 = a10 + p11; lemma_ngb_concat(a10, p11);
    let p12 = u64p("<Param Name=\"EventTid\" Value=\""@, e.event_tid); lemma_u64p_ngb("<Param Name=\"EventTid\" Value=\""@, e.event_tid); let a12 = a11 + p12; lemma_ngb_concat(a11, p12);
    let p13 = u64p("<Param Name=\"ImageOrigin\" Value=\""@, e.image_origin); lemma_u64p_ngb("<Param Name=\"ImageOrigin\" Value=\""@, e.image_origin); let a13 = a12 + p13; lemma_ngb_concat(a12, p13);
    let p14 = wstr("<Param Name=\"ExecutionMode\" Value=\""@, e.execution_mode@); lemma_wstr_ngb("<Param Name=\"ExecutionMode\" Value=\""@, e.execution_mode@); let a14 = a13 + p14; lemma_ngb_concat(a13, p14);
    let p15 = wstr("<Param Name=\"OSVersion\" Value=\""@, e.os_version@); lemma_wstr_ngb("<Param Name=\"OSVersion\" Value=\""@, e.os_version@); let a15 = a14 + p15; lemma_ngb_concat(a14, p15);
    let p16 = wstr("<Param Name=\"GAVersion\" Value=\""@, e.ga_version@); lemma_wstr_ngb("<Param Name=\"GAVersion\" Value=\""@, e.ga_version@); let a16 = a15 + p16; lemma_ngb_concat(a15, p16);
    let p17 = u64p("<Param Name=\"RAM\" Value=\""@, e.ram); lemma_u64p_ngb("<Param Name=\"RAM\" Value=\""@, e.ram); let a17 = a16 + p17; lemma_ngb_concat(a16, p17);
    let p18 = u64p("<Param Name=\"Processors\" Value=\""@, e.processors); lemma_u64p_ngb("<Param Name=\"Processors\" Value=\""@, e.processors); let a18 = a17 + p18; lemma_ngb_concat(a17, p18);
    let p19 = wstr("<Param Name=\"EventName\" Value=\""@, e.event_name@); lemma_wstr_ngb("<Param Name=\"EventName\" Value=\""@, e.event_name@); let a19 = a18 + p19; lemma_ngb_concat(a18, p19);
    let p20 = wstr("<Param Name=\"CapabilityUsed\" Value=\""@, e.capability_used@); lemma_wstr_ngb("<Param Name=\"CapabilityUsed\" Value=\""@, e.capability_used@); let a20 = a19 + p20; lemma_ngb_concat(a19, p20);
    let p21 = wstr("<Param Name=\"Context1\" Value=\""@, e.context1@); lemma_wstr_ngb("<Param Name=\"Context1\" Value=\""@, e.context1@); let a21 = a20 + p21; lemma_ngb_concat(a20, p21);
    let p22 = wstr("<Param Name=\"Context2\" Value=\""@, e.context2@); lemma_wstr_ngb("<Param Name=\"Context2\" Value=\""@, e.context2@); let a22 = a21 + p22; lemma_ngb_concat(a21, p22);
    let p23 = wstr("<Param Name=\"Context3\" Value=\""@, e.context3@); lemma_wstr_ngb("<Param Name=\"Context3\" Value=\""@, e.context3@); let a23 = a22 + p23; lemma_ngb_concat(a22, p23);
    let acc = a23;
    let c = EVENT_CLOSE();
    assert(event_xml(e) == acc + c);
    assert forall|i: int| cdata_end_at(acc + c, i) implies i == acc.len() by {
        let p = i + 2;
        if p < acc.len() { assert(acc[p] == '>'); assert(acc[p - 1] == (acc + c)[i + 1]); }
        else { let j = p - acc.len(); assert(c[j] == '>'); assert(j == 2 || j == 10); if j == 10 { assert((acc + c)[i + 1] == c[9]); } }
    }
}

// ------------------------------------------------------------------------------------------------
// (B) the document handed to the host for a batch (view of TelemetryData = Seq<TelemetryEvent>)
// ------------------------------------------------------------------------------------------------
pub open spec fn events_xml(b: Seq<TelemetryEvent>) -> Seq<char>
    decreases b.len()
{
    if b.len() == 0 { seq![] } else { events_xml(b.drop_last()) + event_xml(b.last()) }
}
pub open spec fn xml_of(b: Seq<TelemetryEvent>) -> Seq<char> {
    "<?xml version=\"1.0\"?><TelemetryData version=\"1.0\"><Provider id=\"FFF0196F-EE4C-4EAF-9AA5-776F622DEB4F\">"@ + events_xml(b) + "</Provider></TelemetryData>"@
}
pub broadcast proof fn lemma_xml_nonempty(b: Seq<TelemetryEvent>)
    ensures #[trigger] xml_of(b).len() > 0
{
    reveal_strlit("<?xml version=\"1.0\"?><TelemetryData version=\"1.0\"><Provider id=\"FFF0196F-EE4C-4EAF-9AA5-776F622DEB4F\">");
}
/// size in bytes of the document (UTF-8), the quantity the 64 KiB limit is about
pub open spec fn xml_len(b: Seq<TelemetryEvent>) -> nat { utf8_len(xml_of(b)) }
pub open spec fn LIMIT() -> nat { 65536 }
/// "every batch is ... smaller than 64 KiB" and carries at least one event
pub open spec fn batch_ok(b: Seq<TelemetryEvent>) -> bool { b.len() >= 1 && xml_len(b) < LIMIT() }
/// "an event too large for any batch": already its singleton document reaches the limit
pub open spec fn oversize_alone(t: TelemetryEvent) -> bool { xml_len(seq![t]) >= LIMIT() }

// ------------------------------------------------------------------------------------------------
// (C) effect trace (E4): what reaches the host and which files are removed
// ------------------------------------------------------------------------------------------------
/// what the network layer is handed for one HTTP request of the telemetry upload and what the host answered:
/// `body` = every byte of the request body, `status` = the status code of the host's response, None when there is
/// no response (connection refused, transport error). Recorded by the stub of hyper_client::send_request, the write
/// primitive: the ONLY assumed effect of an upload.
pub struct WirePost { pub body: Seq<u8>, pub status: Option<u16> }
/// "the host ACCEPTED the document": it answered, with a 2xx status (RFC 9110 15.3; `StatusCode::is_success`).
/// Any other status and the absence of a response are failures.
pub open spec fn host_accepted(w: WirePost) -> bool { w.status is Some && 200 <= w.status->0 < 300 }
/// one upload attempt = one call of WireServerClient::send_telemetry_data with a non-empty document: the document and
/// whether the host accepted it (false also when the attempt failed before anything was written to the network)
pub struct Post { pub body: Seq<char>, pub ok: bool }
pub tracked struct Trace {
    /// every request handed to the network, in order (appended by the stub of hyper_client::send_request: the only assumed part)
    pub ghost wire: Seq<WirePost>,
    /// every upload attempt, in order (ghost bookkeeping written by proof blocks in send_telemetry_data; its contract,
    /// proved against the real body, ties each entry to `wire`: at most one request, carrying the document, ok <==> 2xx)
    pub ghost posts: Seq<Post>,
    /// logical batches: one entry per non-empty TelemetryData that reached the upload loop
    /// (ghost bookkeeping written by send_data_to_wire_server, proved consistent with `posts` by wf)
    pub ghost batches: Seq<Seq<TelemetryEvent>>,
    /// number of upload attempts made for batches[i], and the outcome of the last one
    pub ghost attempts: Seq<int>,
    pub ghost last_ok: Seq<bool>,
    /// every path handed to std::fs::remove_file by clean_files, in order
    pub ghost removed: Seq<std::path::PathBuf>,
}
/// k failed uploads of the same body
pub open spec fn fails(x: Seq<char>, k: int) -> Seq<Post>
    decreases k
{
    if k <= 0 { seq![] } else { fails(x, k - 1).push(Post { body: x, ok: false }) }
}
/// the uploads that the batches account for: batch i is POSTed attempts[i] times in a row with the identical document,
/// every attempt but the last one having FAILED (a batch is never re-sent after the host accepted it)
pub open spec fn expand(batches: Seq<Seq<TelemetryEvent>>, attempts: Seq<int>, last_ok: Seq<bool>) -> Seq<Post>
    decreases batches.len()
{
    if batches.len() == 0 || attempts.len() != batches.len() || last_ok.len() != batches.len() { seq![] }
    else {
        expand(batches.drop_last(), attempts.drop_last(), last_ok.drop_last())
            + fails(xml_of(batches.last()), attempts.last() - 1).push(Post { body: xml_of(batches.last()), ok: last_ok.last() })
    }
}
/// the request bodies the host ACCEPTED (answered 2xx), in order: what "uploaded to the host" finally means
pub open spec fn wire_accepts(w: Seq<WirePost>) -> Seq<Seq<u8>>
    decreases w.len()
{
    if w.len() == 0 { seq![] } else { wire_accepts(w.drop_last()) + (if host_accepted(w.last()) { seq![w.last().body] } else { seq![] }) }
}
/// the documents (as bytes) of the upload attempts recorded as accepted, in order
pub open spec fn post_accepts(p: Seq<Post>) -> Seq<Seq<u8>>
    decreases p.len()
{
    if p.len() == 0 { seq![] } else { post_accepts(p.drop_last()) + (if p.last().ok { seq![utf8_bytes(p.last().body)] } else { seq![] }) }
}
pub broadcast proof fn lemma_wire_accepts_push(w: Seq<WirePost>, x: WirePost)
    ensures #[trigger] wire_accepts(w.push(x)) == wire_accepts(w) + (if host_accepted(x) { seq![x.body] } else { seq![] })
{
    assert(w.push(x).drop_last() =~= w);
}
pub broadcast proof fn lemma_post_accepts_push(p: Seq<Post>, x: Post)
    ensures #[trigger] post_accepts(p.push(x)) == post_accepts(p) + (if x.ok { seq![utf8_bytes(x.body)] } else { seq![] })
{
    assert(p.push(x).drop_last() =~= p);
}
impl Trace {
    /// what the host accepted is exactly the upload attempts recorded as accepted (same documents, same order): `posts`
    /// neither hides an accepted request nor claims one the host did not accept
    pub open spec fn host_agrees(self) -> bool { wire_accepts(self.wire) == post_accepts(self.posts) }
    /// every upload is the document of a recorded batch; a batch is re-sent only after a failure, at most 5 times in all;
    /// every recorded batch is non-empty and smaller than 64 KiB; the attempts recorded as accepted are what the host accepted
    pub open spec fn wf(self) -> bool {
        &&& self.host_agrees()
        &&& self.attempts.len() == self.batches.len()
        &&& self.last_ok.len() == self.batches.len()
        &&& self.posts == expand(self.batches, self.attempts, self.last_ok)
        &&& forall|i: int| 0 <= i < self.batches.len() ==> 1 <= #[trigger] self.attempts[i] <= 5
        &&& forall|i: int| 0 <= i < self.batches.len() ==> batch_ok(#[trigger] self.batches[i])
    }
    pub open spec fn same_uploads(self, o: Trace) -> bool {
        self.wire == o.wire && self.posts == o.posts && self.batches == o.batches && self.attempts == o.attempts && self.last_ok == o.last_ok
    }
}
pub broadcast proof fn lemma_fails_len(x: Seq<char>, k: int)
    ensures #[trigger] fails(x, k).len() == (if k <= 0 { 0 } else { k })
    decreases k
{
    if k > 0 { lemma_fails_len(x, k - 1); }
}
pub broadcast proof fn lemma_concat_push<A>(a: Seq<A>, b: Seq<A>, x: A)
    ensures #[trigger] (a + b).push(x) == a + b.push(x)
{
    assert((a + b).push(x) =~= a + b.push(x));
}

// ---- "each event ... in at most one batch": counting occurrences -----------------------------------------
pub open spec fn cnt(s: Seq<TelemetryEvent>, t: TelemetryEvent) -> nat
    decreases s.len()
{
    if s.len() == 0 { 0 } else { cnt(s.drop_last(), t) + (if s.last() == t { 1nat } else { 0nat }) }
}
pub open spec fn flat(bs: Seq<Seq<TelemetryEvent>>) -> Seq<TelemetryEvent>
    decreases bs.len()
{
    if bs.len() == 0 { seq![] } else { flat(bs.drop_last()) + bs.last() }
}
/// the telemetry event built from a stored event (TelemetryEvent::from_event_log; see unit.py for what is assumed)
pub uninterp spec fn tev_of(e: Event, vm: VmMetaData) -> TelemetryEvent;
pub open spec fn tevs(es: Seq<Event>, vm: VmMetaData) -> Seq<TelemetryEvent>
    decreases es.len()
{
    if es.len() == 0 { seq![] } else { tevs(es.drop_last(), vm).push(tev_of(es.last(), vm)) }
}
/// batches appended to the trace since `old`
pub open spec fn new_batches(old: Trace, new: Trace) -> Seq<Seq<TelemetryEvent>> {
    new.batches.subrange(old.batches.len() as int, new.batches.len() as int)
}
/// The at-most-once / drop-only-if-oversize statement for one call of send_events over `input`:
/// for every event value t, the batches contain t at most as often as the input does (no event in two batches,
/// nothing invented), and whatever is missing is too large to be sent even alone.
pub open spec fn delivered_at_most_once(input: Seq<TelemetryEvent>, nb: Seq<Seq<TelemetryEvent>>) -> bool {
    forall|t: TelemetryEvent| #[trigger] cnt(flat(nb), t) <= cnt(input, t)
}
pub open spec fn dropped_only_if_oversize(input: Seq<TelemetryEvent>, nb: Seq<Seq<TelemetryEvent>>) -> bool {
    forall|t: TelemetryEvent| #[trigger] cnt(flat(nb), t) < cnt(input, t) ==> oversize_alone(t)
}

pub proof fn lemma_cnt_concat(a: Seq<TelemetryEvent>, b: Seq<TelemetryEvent>, t: TelemetryEvent)
    ensures cnt(a + b, t) == cnt(a, t) + cnt(b, t)
    decreases b.len()
{
    if b.len() == 0 { assert(a + b =~= a); }
    else { assert((a + b).drop_last() =~= a + b.drop_last()); lemma_cnt_concat(a, b.drop_last(), t); }
}
pub broadcast proof fn lemma_cnt_push(a: Seq<TelemetryEvent>, x: TelemetryEvent, t: TelemetryEvent)
    ensures #[trigger] cnt(a.push(x), t) == cnt(a, t) + (if x == t { 1nat } else { 0nat })
{
    assert(a.push(x).drop_last() =~= a);
}
pub broadcast proof fn lemma_tevs_push(es: Seq<Event>, e: Event, vm: VmMetaData)
    ensures #[trigger] tevs(es.push(e), vm) == tevs(es, vm).push(tev_of(e, vm))
{
    assert(es.push(e).drop_last() =~= es);
}
pub broadcast proof fn lemma_flat_push_cnt(bs: Seq<Seq<TelemetryEvent>>, d: Seq<TelemetryEvent>, t: TelemetryEvent)
    ensures #[trigger] cnt(flat(bs.push(d)), t) == cnt(flat(bs), t) + cnt(d, t)
{
    assert(bs.push(d).drop_last() =~= bs);
    lemma_cnt_concat(flat(bs), d, t);
}
/// a one-element batch is the singleton of its element
pub broadcast proof fn lemma_singleton(s: Seq<TelemetryEvent>)
    ensures s.len() == 1 ==> s == seq![s[0]], #[trigger] xml_len(s) >= 0
{
    if s.len() == 1 { assert(s =~= seq![s[0]]); }
}
pub broadcast proof fn lemma_push_keeps_prefix<A>(s: Seq<A>, x: A, n: int)
    ensures 0 <= n <= s.len() ==> #[trigger] s.push(x).subrange(0, n) == s.subrange(0, n),
            n == s.len() ==> s.push(x).subrange(0, n) == s,
{
    if 0 <= n <= s.len() { assert(s.push(x).subrange(0, n) =~= s.subrange(0, n)); }
    if n == s.len() { assert(s.push(x).subrange(0, n) =~= s); }
}
pub broadcast group group_send_events { lemma_cnt_push, lemma_tevs_push, lemma_flat_push_cnt, lemma_singleton, lemma_push_keeps_prefix }

pub proof fn lemma_flat_concat(a: Seq<Seq<TelemetryEvent>>, b: Seq<Seq<TelemetryEvent>>)
    ensures flat(a + b) == flat(a) + flat(b)
    decreases b.len()
{
    if b.len() == 0 { assert(a + b =~= a); assert(flat(a) + flat(b) =~= flat(a)); }
    else {
        assert((a + b).drop_last() =~= a + b.drop_last());
        lemma_flat_concat(a, b.drop_last());
        assert((flat(a) + flat(b.drop_last())) + b.last() =~= flat(a) + (flat(b.drop_last()) + b.last()));
    }
}
/// from the whole-trace accounting kept by the loops to the statement about the batches of this call
pub proof fn lemma_new_batches(o: Trace, f: Trace, input: Seq<TelemetryEvent>)
    requires
        o.batches.len() <= f.batches.len(), f.batches.subrange(0, o.batches.len() as int) == o.batches, f.wf(),
        forall|t: TelemetryEvent| cnt(flat(f.batches), t) <= cnt(flat(o.batches), t) + #[trigger] cnt(input, t),
        forall|t: TelemetryEvent| cnt(flat(f.batches), t) < cnt(flat(o.batches), t) + #[trigger] cnt(input, t) ==> oversize_alone(t),
    ensures
        delivered_at_most_once(input, new_batches(o, f)),
        dropped_only_if_oversize(input, new_batches(o, f)),
        forall|i: int| 0 <= i < new_batches(o, f).len() ==> batch_ok(#[trigger] new_batches(o, f)[i]),
{
    let nb = new_batches(o, f);
    assert(f.batches =~= o.batches + nb);
    lemma_flat_concat(o.batches, nb);
    assert forall|t: TelemetryEvent| #[trigger] cnt(flat(nb), t) <= cnt(input, t) by { lemma_cnt_concat(flat(o.batches), flat(nb), t); }
    assert forall|t: TelemetryEvent| #[trigger] cnt(flat(nb), t) < cnt(input, t) implies oversize_alone(t) by { lemma_cnt_concat(flat(o.batches), flat(nb), t); }
    assert forall|i: int| 0 <= i < nb.len() implies batch_ok(#[trigger] nb[i]) by { assert(nb[i] == f.batches[o.batches.len() + i]); }
}

