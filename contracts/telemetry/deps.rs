// ---- assumed specifications of std functions used by the telemetry unit (trusted; DESIGN 2.5 item 3) ----

// `str::replace(from: char, to: &str)` replaces every occurrence of the character: a per-character flat map
// (std documentation: "Replaces all matches of a pattern with another string"; a char pattern matches exactly
// the positions holding that char, matches cannot overlap).
pub open spec fn repl(s: Seq<char>, from: char, to: Seq<char>) -> Seq<char>
    decreases s.len()
{
    if s.len() == 0 { seq![] } else { repl(s.drop_last(), from, to) + (if s.last() == from { to } else { seq![s.last()] }) }
}
pub uninterp spec fn pat_char<P>(p: P) -> char;
#[verifier::external_body]
pub broadcast proof fn ax_pat_char(c: char) ensures #[trigger] pat_char::<char>(c) == c {}
#[verifier::allow(undeclared_external_trait)]
pub assume_specification<P: core::str::pattern::Pattern> [str::replace::<P>] (s: &str, from: P, to: &str) -> (r: String)
    ensures r@ == repl(s@, pat_char(from), to@);

// `String::len` is the length in bytes of the UTF-8 encoding (vstd's own model of `str::len`); a String never
// holds more than isize::MAX bytes, so the value is exact.
pub open spec fn utf8_len(s: Seq<char>) -> nat { vstd::utf8::encode_utf8(s).len() }
pub assume_specification [String::len] (s: &String) -> (r: usize)
    ensures r == utf8_len(s@);

// ---- E11: transparent iterator newtype for `for _ in [0; 5]` (core::array::IntoIter has no vstd model) ----
#[verifier::external_body]
pub struct VxArrIter5(core::array::IntoIter<i32, 5>);
pub uninterp spec fn vx_arr_remaining(it: &VxArrIter5) -> Seq<i32>;
impl Iterator for VxArrIter5 {
    type Item = i32;
    #[verifier::external_body]
    fn next(&mut self) -> (r: Option<i32>) { self.0.next() }
}
impl vstd::std_specs::iter::IteratorSpecImpl for VxArrIter5 {
    open spec fn obeys_prophetic_iter_laws(&self) -> bool { true }
    open spec fn remaining(&self) -> Seq<i32> { vx_arr_remaining(self) }
    open spec fn will_return_none(&self) -> bool { true }
    open spec fn decrease(&self) -> Option<nat> { Some(vx_arr_remaining(self).len()) }
    open spec fn peek(&self, index: int) -> Option<i32> { if 0 <= index < vx_arr_remaining(self).len() { Some(vx_arr_remaining(self)[index]) } else { None } }
}

// ---- opaque std / dependency types met by the event reader (behaviour enters only through the specs below) ----
#[verifier::external_type_specification]
#[verifier::external_body]
pub struct ExPathBuf(std::path::PathBuf);
#[verifier::external_type_specification]
#[verifier::external_body]
pub struct ExPath(std::path::Path);
#[verifier::external_type_specification]
#[verifier::external_body]
pub struct ExIoError(std::io::Error);
#[verifier::external_type_specification]
#[verifier::external_body]
pub struct ExPathDisplay<'a>(std::path::Display<'a>);
#[verifier::external_type_specification]
#[verifier::external_body]
pub struct ExSerdeJsonError(serde_json::Error);

// `Path::display` only builds a Display adapter (no effect, cannot fail)
pub assume_specification<'a> [std::path::Path::display] (p: &'a std::path::Path) -> std::path::Display<'a>;

// Display of these values inside format! does not panic; the produced text is unconstrained (log lines only)
#[verifier::external_body]
pub broadcast proof fn axiom_fmt_path_display<'a>() ensures #[trigger] vstd::std_specs::fmt::fmt_req_all::<std::path::Display<'a>>() {}
#[verifier::external_body]
pub broadcast proof fn axiom_fmt_io_error() ensures #[trigger] vstd::std_specs::fmt::fmt_req_all::<std::io::Error>() {}
#[verifier::external_body]
pub broadcast proof fn axiom_fmt_error() ensures #[trigger] vstd::std_specs::fmt::fmt_req_all::<crate::common::error::Error>() {}
#[verifier::external_body]
pub broadcast proof fn axiom_fmt_shared_error() ensures #[trigger] vstd::std_specs::fmt::fmt_req_all::<crate::proxy_agent_shared::error::Error>() {}
pub broadcast group group_fmt_telemetry { axiom_fmt_path_display, axiom_fmt_io_error, axiom_fmt_error, axiom_fmt_shared_error }

// ---- the upload itself (WireServerClient::send_telemetry_data): http / hyper types come from contracts/common/http.rs ----
#[verifier::external_type_specification]
#[verifier::external_body]
pub struct ExUri(http::Uri);
// Display of the wire-server URL inside format! does not panic (error text only)
#[verifier::external_body]
pub broadcast proof fn axiom_fmt_uri() ensures #[trigger] vstd::std_specs::fmt::fmt_req_all::<http::Uri>() {}

/// the bytes of a text: its UTF-8 encoding (vstd's model)
pub open spec fn utf8_bytes(s: Seq<char>) -> Seq<u8> { vstd::utf8::encode_utf8(s) }
// `String::as_bytes`: "Returns a byte slice of this String's contents" (the UTF-8 encoding)
pub assume_specification [String::as_bytes] (s: &String) -> (r: &[u8])
    ensures r@ == utf8_bytes(s@);
// `StatusCode::is_success`: "Check if status is within 200-299" (http crate documentation)
pub assume_specification [http::StatusCode::is_success] (s: &http::StatusCode) -> (r: bool)
    ensures r == (200 <= status_code(*s) < 300);
// the other status-class queries and `as_u16` (http crate documentation: "Check if status is within 100-199" ... "500-599");
// not used by the pinned tree, specified so that an edit of the status check is decided rather than undecided
pub assume_specification [http::StatusCode::as_u16] (s: &http::StatusCode) -> (r: u16)
    ensures r == status_code(*s);
pub assume_specification [http::StatusCode::is_informational] (s: &http::StatusCode) -> (r: bool)
    ensures r == (100 <= status_code(*s) < 200);
pub assume_specification [http::StatusCode::is_redirection] (s: &http::StatusCode) -> (r: bool)
    ensures r == (300 <= status_code(*s) < 400);
pub assume_specification [http::StatusCode::is_client_error] (s: &http::StatusCode) -> (r: bool)
    ensures r == (400 <= status_code(*s) < 500);
pub assume_specification [http::StatusCode::is_server_error] (s: &http::StatusCode) -> (r: bool)
    ensures r == (500 <= status_code(*s) < 600);
/// every byte the (boxed) body of a request yields when it is written to the connection
pub uninterp spec fn box_body_bytes(b: http_body_util::combinators::BoxBody<hyper::body::Bytes, hyper::Error>) -> Seq<u8>;
pub open spec fn opt_slice(b: Option<&[u8]>) -> Seq<u8> { match b { Some(v) => v@, None => Seq::<u8>::empty() } }
// `StatusCode == StatusCode` / `!=` (derived PartialEq over the numeric code) goes through vstd's PartialEqSpec
#[verifier::external_body]
pub broadcast proof fn axiom_status_obeys_eq_spec() ensures #[trigger] <http::StatusCode as vstd::std_specs::cmp::PartialEqSpec>::obeys_eq_spec() {}
#[verifier::external_body]
pub broadcast proof fn axiom_status_eq_spec(a: http::StatusCode, b: http::StatusCode)
    ensures #[trigger] vstd::std_specs::cmp::PartialEqSpec::eq_spec(&a, &b) == (status_code(a) == status_code(b)) {}
pub broadcast group group_upload { axiom_fmt_uri, axiom_status_obeys_eq_spec, axiom_status_eq_spec }
// field types of the (transparent) crate error enum: opaque
#[verifier::external_type_specification] #[verifier::external_body]
pub struct ExFromHexError(hex::FromHexError);
#[verifier::external_type_specification] #[verifier::external_body]
pub struct ExRecvError(tokio::sync::oneshot::error::RecvError);
